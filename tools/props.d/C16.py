"""Configuration of ./check for C16 (see tools/props.py)."""
ENTRY = {'coq_dir': 'C16',
 'coq_deps': ['C15', 'C14', 'C17', 'Ts'],
 'harness': 'c16',
 'cases': {'quick': 6000, 'thorough': 200000},
 'consts': ['PARALLELISM_FACTOR', 'REPLICATION_FACTOR', 'KAD_READ_TIMEOUT_SECS', 'KAD_WRITE_TIMEOUT_SECS'],
 'nontrivial_min_trace': 60,
 'rule': 'the REAL `Kademlia::run` loop (polled by hand, tokio time paused) on a real TransportService fed through its event channel, a '
         'real TransportManager handle whose peer table decides the results of dial(), in-memory substream carriers, the real '
         'KademliaHandle as the user. Stream 1: the 17 corpus witnesses (the five repaired defects F-C16a..e in seven shapes; a silent '
         'peer ended by the 15 s read timeout and a peer that never takes the PUT_VALUE frame ended by the write timeout; a connection '
         "closed while a request is outstanding; provider refresh fired by the store's timer; two refresh timers for one key, "
         'stop_providing, timers firing without effect; requests of a remote peer served while user operations are in flight; Manual '
         'validation of incoming records + store_record; Manual routing-table updates + add_known_peer; the loop parked on a one-slot '
         'event channel; five pending peers at once under a zero peer timeout). Stream 2: N seeded adaptive histories on 2-7 peers, '
         'replication factor in {1,2,3,20}: 1-3 (quick) / 1-5 (thorough) user operations of every kind (find_node, put_record, '
         'put_record_to_peers incl. unknown / local / duplicate peers, get_record with and without a local record, start_providing, '
         'get_providers, provider refresh) with quorums One / N(1-4) / All, running concurrently; per peer the manager believes no-address '
         '/ dialable / connected / dialing; the environment answers every dial (established with a live or an already dead connection '
         'task, or dial failure), every substream (opened or open failure) and plays the SUBSTREAM of every executor future: the write '
         'side accepts the frame / fails / blocks for ever, the read side delivers a message (fitting reply with random closer peers / '
         'records / providers, wrong message type, undecodable bytes, ADD_PROVIDER as a reply, PUT_VALUE ack) / ends / stays silent - the '
         'case records the behaviour, the QueryResult is computed by the executor model (Exec.v) from the kind of the future; a blocking '
         'or silent substream is resolved by advancing the paused clock 16 s (only with that one future in flight). All in random order, '
         "interleaved with unsolicited connections, closures, dying connection tasks, changes of the manager's belief, inbound substreams "
         'with requests of every type, and stale / unknown substream, dial and future events; 88% of the histories end with the '
         'environment discharging everything it still owes. Of every ten histories: four run against the COMPOSED model (commands are '
         'user-level: seeds, distance ranks, known peers of put_record_to_peers and the local-record flag are computed by the model from '
         'its own routing table (C14 model, real SHA-256 keys) and store (C17 model); add_known_peer / store_record / stop_providing '
         'commands; a request read from an inbound substream is about a record key (FIND_NODE / PUT_VALUE / GET_VALUE / GET_PROVIDERS / '
         'ADD_PROVIDER) and the reply the node writes - record attached or not, closer peers in order - is captured from the carrier and '
         "compared with the model's; the store's refresh timers are fired one at a time by advancing the clock to the earliest deadline; "
         'one composed history in four runs with RoutingTableUpdateMode::Manual, one in four with IncomingRecordValidationMode::Manual; '
         'compared after every event: the dumps of all non-empty k-buckets (peer, has-address, connection state, in bucket order), the '
         'stored record keys, the local provider keys and the number of armed refresh timers), two run on an event channel of 1-3 slots '
         '(the user receives at random moments; compared: what the user received, whether the loop is parked, the dump when it is not), '
         'two run with a zero peer timeout. One harness event = one `select!` event = one poll of the loop; after each, the emitted '
         'KademliaEvents (in order), the send-phase target lists and a dump of pending_dials, peers[..].pending_actions, '
         'pending_substreams, executor length and every live query (lookup sets / tracking context) are compared with the extracted Coq '
         'model, which replays the same events with the served-query order (and, outside the composed mode, the seed candidates and '
         'XOR-distance ranks) observed on the implementation. Stream 3: three put_record_to_peers operations between real nodes over '
         "loopback TCP (F-C16a end to end, deadline-bounded). prop_ok re-judges the property text on the implementation's trace alone: at "
         'most one terminal event per operation and none for unknown ids (a refresh counts as an operation when the user provides the key: '
         'start_providing not followed by stop_providing); when the environment owes nothing any more every started operation has exactly '
         'one terminal event; a PutRecordSuccess / AddProviderSuccess needs PUT_VALUE / ADD_PROVIDER futures whose WRITE side accepted the '
         'frame, to at least clamp(quorum, |targets|) distinct target peers; bounded time: after the environment has let 16 s pass with a '
         'future in flight, fewer futures are in flight; in composed mode the targets of put_record_to_peers are peers the caller named; '
         'on a bounded channel the same is judged on what the user received. Non-trivial: trace >= 60 numbers; distinct (case, trace) '
         'pairs are counted.',
 'level_text': 'Proof: for every configuration with parallelism factor >= 1 (any replication factor, any peer timeout), every initial '
               'manager belief and EVERY event history (commands, any order in which the drain loop serves the queries, connection / '
               'substream / dial events, executor completions with arbitrary messages, requests of remote peers, environment changes, time '
               'passing) the model of the repaired code keeps the invariant "nobody waits for nothing": each peer a live query waits for '
               'has EXACTLY ONE outstanding obligation of that query and of the matching kind in pending_dials, pending_actions or the '
               'executor (C16_no_wait_for_nothing / _at_most_one / _exactly_one); every pending action is reachable through '
               'pending_substreams; when nothing is owed and the engine is drained no query is left, and with ids from a counter every '
               'started operation has produced exactly one terminal event with its id, never two (C16_one_terminal / _terminates). '
               "Termination with an explicit bound: C15's lookup measure lifted to a global measure M (C16_step_measure), a stuck state is "
               'idle and drained (C16_stuck_idle), every fair schedule without new work has at most B = sum of (10 n + 5 k + 2) per '
               'command, (5 |peers| + 2) per put_record_to_peers, 2 per inbound substream productive events and ends with one terminal '
               'event per operation (C16_fair_terminates). BOUNDED TIME (new): obligations carry their time of birth; in a schedule where '
               'the clock never passes D beyond the birth of an outstanding obligation and time passes only while the loop waits, the '
               'event after k productive ones happens at most D (k + 1) after the start, hence every terminal event within D * B '
               "(C16_bounded_time / _bounded_time_budget); for the executor's futures D is not an assumption: the five kinds of futures "
               'are modelled with their write / read phases and timers against every behaviour of the substream (Exec.v) - the result is '
               "always one the loop's model accepts and every accepted result occurs (C16_executor_sound / _complete), no future lives "
               'longer than WRITE_TIMEOUT + READ_TIMEOUT (C16_executor_bounded), a silent peer ends in the failure path exactly '
               'READ_TIMEOUT after the write (C16_executor_silent_peer), and a send-phase completion counts as sent exactly when the frame '
               'was written (C16_executor_sent). Quorum honesty at full strength (C16_quorum_honest). Await points on a full event channel '
               '(C16_bounded_channel / _channel_drains). Requests of remote peers served by the same loop (new): inbound traffic neither '
               'starts, ends nor touches a user operation - engine, pending_dials, pending_substreams, every pending action and every '
               'query future are unchanged, only IncomingRecord / IncomingProvider are emitted (C16_inbound_isolated; a FAILED inbound '
               'future runs disconnect_peer like any other and is covered by the general theorems). The COMPOSITION with the routing table '
               "(C14 model) and the store (C17 model): refinement (C16_compose_refines), C14's table invariant under everything the loop "
               "does, disconnect_peer being C14's ODisconnected operation (C16_table_invariant), seeds = RoutingTable::closest "
               '(C16_seeds_from_table), put_record_to_peers targets named peers only (C16_put_to_peers_named), GetRecord and the local '
               'store (C16_get_record_local / _put_then_get); the reply to an inbound FIND_NODE / GET_VALUE / GET_PROVIDERS is closest() '
               'of the current table - never the local peer, at most k - with the record exactly when the store has it, and a stored '
               'record is served to every later GET_VALUE (C16_inbound_reply / _serve_after_put); IncomingRecordValidationMode::Manual: no '
               'event of the loop writes the store, Automatic: the record is stored when the request is read (C16_manual_validation / '
               '_auto_validation); RoutingTableUpdateMode::Manual: after every history every peer in the table was put there by '
               "add_known_peer (C16_manual_routing_table); the store's refresh timers: a firing timer starts a refresh exactly when the "
               "last start_providing of the key has not been followed by stop_providing, with that call's quorum, and re-arms; a provided "
               'key always has a timer (C16_refresh_due / _provided_has_timer); side conditions hold by construction and the glue theorems '
               'are restated for composed histories incl. fair termination over the key table as peer universe (C16_compose_cmds_ok / '
               '_no_wait / _one_terminal / _terminates / _fair_terminates / _at_most_one / _quorum_honest). The lookups inside the engine '
               'are the C15 model.',
 'level_note': 'Liveness is relative to the environment discharging its obligations: dial -> Established | DialFailure and open -> Opened '
               "| OpenFailure are C05 / C08 guarantees taken as given (the D of C16_bounded_time for them is the transport layer's); for "
               'executor futures the bound is proved on the executor model and exercised with the paused clock. There is no query '
               'cancellation API in the crate. In the composed model records carry one logical ttl and the store clock stands still '
               "(record expiry is C17's subject); provider RECORDS of the store (known providers handed to get_providers, the add_provider "
               "side of an inbound ADD_PROVIDER, GET_PROVIDERS replies' provider lists) stay inputs / unmodelled - only the local-provider "
               'bookkeeping (keys, quorums, timers) is modelled, assuming put_provider accepts the local provider (capacity of 10000 '
               'provider keys is not reached). Refresh timers are a multiset without deadlines: which armed timer fires next is an input. '
               'The harness exercises staleness at the two extremes (timeout unreachable / zero), the theorems cover every timeout. Full '
               'buckets are reached by the F-C16e witness only (the generator uses 10 peers).',
 'trusted_base': ['the cfg(verif) probe inside `Kademlia::run` (two add-only statements: one log entry per engine action, one snapshot '
                  'when the loop is about to wait; the snapshot reads the glue maps, the engine, the k-buckets, the store keys, the local '
                  'provider keys and the number of armed refresh timers) and the public wrapper around the crate-private Kademlia object',
                  'HashMap iteration order of the engine enters the model as an input recorded from the implementation (served-query '
                  'events); outside the composed mode so do routing-table answers and SHA-256 distance ranks (seeds, dists). The model '
                  'validates every served query (it must have an action) and that the engine is drained before each select! event. In '
                  "composed mode the peers' and record keys' SHA-256 hashes are data of the case (computed by the crate's Key::from / "
                  'Key::new)',
                  'dial() results are forced through the real TransportManagerHandle peer table (verif_force_peer), open_substream results '
                  'through the real connection handle (dropped receiver); carriers are in-memory AsyncRead/AsyncWrite objects (write '
                  'accepted / failing / blocking, or taken-but-not-flushed so that a reply can be read before its future completes)',
                  'tokio paused clock for the executor timeouts (advance 16 s with exactly one future in flight and no refresh timer due) '
                  'and the refresh timers (advance to the earliest deadline; deadlines are kept >= 3 ms apart); '
                  'ConfigBuilder::verif_build_bounded for an event channel of 1-3 slots; QueryEngine::verif_force_peer_timeout(0) for the '
                  'staleness stream (std::time::Instant cannot be paused)'],
 'assumptions': ['parallelism factor >= 1 (shipped: 3)',
                 'query ids are fresh per command (KademliaHandle and the refresh handler draw them from one atomic counter)',
                 'the routing table never returns the local peer and put_record_to_peers is not given one peer twice (`cmd_ok`; a THEOREM '
                 'for composed histories: C16_compose_cmds_ok needs only that the caller names no peer twice)',
                 'the service reports SubstreamOpened for the peer the substream was requested from (C08)',
                 'every obligation is eventually discharged by the environment: a queued dial by ConnectionEstablished or DialFailure '
                 '(C05; see F-C05c for a manager path that stays silent), an open by Opened/OpenFailure (C08); executor futures by their '
                 'own timers (proved: C16_executor_bounded)',
                 'composed model: every peer label has one 256-bit key and distinct peers have distinct keys (`keys_ok`; SHA-256 '
                 'collisions aside)',
                 "inbound substream ids are distinct from the service's substream counter (harness numbering)"]}
