"""Configuration of ./check for C04 (see tools/props.py)."""
ENTRY = {'coq_dir': 'C04',
 'harness': 'c04',
 'cases': {'quick': 600, 'thorough': 9000},
 'consts': ['BACKPRESSURE_BOUNDARY', 'SUBSTREAM_READ_BUFFER_INIT', 'SUBSTREAM_READ_BUFFER_INIT_OTHER', 'SUBSTREAM_SIZE_VEC_LEN'],
 'nontrivial_min_trace': 12,
 'rule': 'seeded random cases over the real substream::Substream built on a scripted in-memory carrier (SubstreamType::Verif hook): codec '
         'in {Identity n: n in 0,1,5,10,300,1023,1024,1025,2048,4000,65536,66000,70000} u {UnsignedVarint(None)} u {UnsignedVarint(Some '
         'm): m in 0,1,20,127,128,300,16384,70000,2^21}; 1-8 (thorough 1-12) messages incl. empty, maximal, max+1 / wrong-size, > '
         'BACKPRESSURE_BOUNDARY; API sink (poll_ready/start_send/poll_flush in random interleavings, the writer stopping right after a '
         'flush), send_framed, or mixed; write and read scripts of chunk sizes 1-3, 1-40, boundary values, 2^20, with Pending stalls, '
         'permanent stalls, rare carrier errors / end of stream; raw reader streams with truncated, non-minimal, over-long (10/11-byte) '
         'and oversized length prefixes, polled on after errors. After every writer operation: result, pending_out_bytes, queued frame '
         'lengths, pending_out_frame, and the bytes newly handed to the carrier (run-length encoded) are diffed against the extracted Coq '
         'model; after every poll_next: result, returned frame bytes, read_buffer.len(), offset, current_frame_size, unread wire. '
         'Non-trivial = trace of >= 12 numbers; distinct = distinct (case, trace) pairs. The three corpus witnesses (F-C04a/b/c) are '
         'replayed first on every run.',
 'trusted_base': ['the scripted carrier of harness/src/c04.rs stands for the transport substream (tcp/websocket/quic over yamux): one '
                  'script event per poll_read/poll_write/poll_flush call; wakers are not modelled (the harness polls by hand)',
                  'message payloads in the runs are a fill byte plus an end marker (run-length encoded in traces); the theorems quantify '
                  'over arbitrary byte lists',
                  'unsigned_varint 0.8 encode/decode is transcribed by hand into Model.v (enc_fuel / scan) and exercised by the '
                  'differential run'],
 'level_text': 'Proof: on the model of the repaired src/substream/mod.rs (three fix: commits) — receiver totality for every codec, byte '
               'stream, fragmentation and polling pattern (no panic, read buffer <= max(configured size, 1024)); malformed/oversized '
               'length => ReadFailure without allocation; reader round trip (frames = initial segment of the sent messages, all of them '
               'once the encoding is consumed) for every script; sink conservation invariant over every operation history; poll_flush '
               'reports Ready(Ok) only with nothing queued, and then the carrier holds the full encoding; send_framed hands over exactly '
               'the frame when it returns Ok; sender refusal; backpressure bound; end-to-end round trip through both APIs. The model is '
               'tied to the Rust code by a per-call differential run with state dumps.',
 'level_note': 'Trusted: Coq kernel, ExtrOcamlBasic extraction, harness and hooks, hand transcription of unsigned_varint. Not modelled: '
               'yamux flow control and wakers (carrier is a script), memory exhaustion under UnsignedVarint(None) (the announced length is '
               'allocated as is), mixing send_framed with unflushed sink data (frames then overtake; outside the property), behaviour '
               'after a carrier write error (the frame being written is dropped), Identity(0) delivers nothing (reported as closed). '
               'Concurrent writer/reader interleavings are covered through the prefix form of the reader theorem.',
 'assumptions': ['message length < 2^64 (usize)',
                 'Identity(0) excluded from the completeness clause (nothing can be delivered)',
                 'sink histories: no carrier error reported; send_framed histories: every call returns Ok or PermissionDenied',
                 '0 < BACKPRESSURE_BOUNDARY (checked against the source constant)']}
