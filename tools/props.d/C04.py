"""Configuration of ./check for C04 (see tools/props.py)."""
ENTRY = {'coq_dir': 'C04',
 'harness': 'c04',
 'cases': {'quick': 700, 'thorough': 9000},
 'quick_streams': [('extra', '{V}/tools/c04_extra_streams.sh {seed} 250')],
 'thorough_streams': [('extra', '{V}/tools/c04_extra_streams.sh {seed} 4000')],
 'consts': ['BACKPRESSURE_BOUNDARY', 'SUBSTREAM_READ_BUFFER_INIT', 'SUBSTREAM_READ_BUFFER_INIT_OTHER', 'SUBSTREAM_SIZE_VEC_LEN',
            'YAMUX_DEFAULT_CREDIT', 'WEBRTC_MAX_INFLIGHT_MESSAGES', 'C19_WEBRTC_MAX_FRAME_SIZE'],
 'nontrivial_min_trace': 12,
 'rule': 'seeded random cases. (A) the real substream::Substream over a scripted in-memory carrier (SubstreamType::Verif hook; one script '
         'event per poll_read/poll_write/poll_flush/poll_shutdown call): codec in {Identity n: n in 0,1,5,10,300,1023,1024,1025,2048,4000,'
         '65536,66000,70000} u {UnsignedVarint(None)} u {UnsignedVarint(Some m): m in 0,1,20,127,128,300,16384,70000,2^21}; 1-8 (thorough '
         '1-12) messages incl. empty, maximal, max+1 / wrong-size, > BACKPRESSURE_BOUNDARY; operations poll_ready / start_send / '
         'poll_flush / send_framed / Sink::poll_close / Substream::close in random interleavings (sink only, send_framed only, freely '
         'mixed incl. send_framed on a half-written Sink frame, writer stopping right after a flush, start_send then close without '
         'flush — where the queued frames are, as the code has it, not sent); write and read scripts with chunk sizes 1-3, 1-40, boundary values, 2^20, Pending stalls, permanent stalls, carrier '
         'errors, zero-length accepts (WriteZero) and end of stream at random points, operations continued after errors; raw reader '
         'streams with truncated, non-minimal, over-long (10/11-byte) and oversized length prefixes, polled on after errors. After '
         'every writer operation: result, pending_out_bytes, queued frame lengths, pending_out_frame, bytes newly handed to the '
         'carrier (run-length encoded), number of unused carrier script events, carrier-shutdown flag and the wake-up flag (a Pending '
         'answer must follow a Pending carrier call that was given the caller\'s waker) are diffed against the extracted Coq model; '
         'after every poll_next: result, returned frame bytes, read_buffer.len(), offset, current_frame_size, unread wire, unused '
         'script events, wake-up flag. (B) every 25th case runs end to end over a real in-memory yamux connection with the TCP or '
         'the WebSocket substream type on both ends (VerifYamuxPair hook): SinkExt::feed / flush / send_framed / close on one side, '
         'a concurrent reader on the other, messages up to 2 MB (several 256 KiB flow-control windows), fixed sizes up to 300000; the '
         'per-call results, the frames delivered and the clean end of stream are compared with the model\'s prediction. Non-trivial = '
         'trace of >= 12 numbers; distinct = distinct (case, trace) pairs. The corpus witnesses of the six repaired defects '
         '(F-C04a..f) and the close-without-flush observation cases are replayed first on every run.',
 'trusted_base': ['the scripted carrier of harness/src/c04.rs stands for the transport substream; tcp::Substream and websocket::Substream '
                  'are stateless pass-through wrappers of a yamux stream (read: metering only) and are exercised by the end-to-end cases; '
                  'the QUIC and WebRTC substream types are not run (QUIC send_framed uses write_all_chunks, a separate code path)',
                  'message payloads in the runs are a fill byte plus an end marker (run-length encoded in traces); the theorems quantify '
                  'over arbitrary byte lists',
                  'unsigned_varint 0.8 encode/decode is transcribed by hand into Model.v (enc_fuel / scan) and exercised by the '
                  'differential run',
                  'flush_all (SinkExt::flush(..).await inside send_framed / close) uses explicit fuel S(length script); '
                  'C04_flush_all_fuel_adequate shows the fuel is never exhausted'],
 'level_text': 'Proof: on the model of the repaired src/substream/mod.rs (fix: commits F-C04a..f) — receiver totality for every codec, '
               'byte stream, fragmentation and polling pattern (no panic, read buffer <= max(configured size, 1024)); malformed/oversized '
               'length => ReadFailure without allocation; reader round trip for every script incl. errors and end of stream at any point; '
               'conservation invariant (carrier bytes ++ queued bytes = encodings of the accepted messages in call order) over every '
               'history of poll_ready/start_send/poll_flush/send_framed/poll_close/close and every carrier behaviour incl. write errors '
               'and zero-length accepts (C04_mixed_paths_in_order: whole frames, each once, never interleaved or overtaking); poll_flush '
               'reports Ready(Ok) only with nothing queued; send_framed hands over the queued bytes and then exactly its frame when it '
               'returns Ok; poll_close/close are the carrier\'s shutdown only: they hand over no byte and leave the queue alone '
               '(C04_close_sends_nothing), and after a completed flush a completed close has everything on the wire and the carrier '
               'shut down (C04_close_after_flush_complete, C04_close_all_after_flush_complete); carrier errors are reported by the call that met them; Pending only after a Pending carrier call; sender refusal; backpressure bound; '
               'end-to-end round trip; Identity(0) and UnsignedVarint(None) stated as the code behaves (C04_identity_zero, '
               'C04_varint_none_unbounded_alloc). The model is tied to the Rust code by a per-call differential run with state dumps '
               'and by end-to-end runs over real yamux substreams of the TCP and WebSocket types.',
 'level_note': 'Trusted: Coq kernel, ExtrOcamlBasic extraction, harness and hooks, hand transcription of unsigned_varint. Not modelled: '
               'yamux flow control itself (exercised end to end, not proved); waker identity (checked by the harness, the model only '
               'shows that a Pending answer follows a Pending carrier call); a send_framed call that fails or is dropped midway leaves '
               'a partial frame on the wire (the caller is told; documented as not cancellation safe) — histories are quantified over '
               'send_framed calls that ran to completion; UnsignedVarint(None) allocates any announced length (proved as such, see '
               'also C19); Identity(0) delivers nothing (proved as such); QUIC/WebRTC substream types.',
 'assumptions': ['message length < 2^64 (usize)',
                 'Identity(0) excluded from the completeness clause (C04_identity_zero states what happens instead)',
                 'every send_framed call of a history returned Ok or PermissionDenied (a failed or abandoned call is reported to the caller; the stream is then unusable)',
                 'Substream::close(self) ignores errors: C04_close_all_after_flush_complete assumes a carrier that does not fail',
                 'observation, not part of the property: close drops start_send frames that were never flushed (C04_close_drops_unflushed); callers flush first',
                 '0 < BACKPRESSURE_BOUNDARY (checked against the source constant)']}
