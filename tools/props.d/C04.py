"""Configuration of ./check for C04 (see tools/props.py)."""
ENTRY = {'coq_dir': 'C04',
 'harness': 'c04',
 'cases': {'quick': 700, 'thorough': 9000},
 'quick_streams': [('extra', '{V}/tools/c04_extra_streams.sh {seed} 250')],
 'thorough_streams': [('extra', '{V}/tools/c04_extra_streams.sh {seed} 4000')],
 'consts': ['BACKPRESSURE_BOUNDARY',
            'SUBSTREAM_READ_BUFFER_INIT',
            'SUBSTREAM_READ_BUFFER_INIT_OTHER',
            'SUBSTREAM_SIZE_VEC_LEN',
            'YAMUX_DEFAULT_CREDIT',
            'WEBRTC_MAX_INFLIGHT_MESSAGES',
            'C19_WEBRTC_MAX_FRAME_SIZE',
            'SUBSTREAM_ERRORKINDS_MASK',
            'SUBSTREAM_IOERR_KEEPS_KIND',
            'SEND_IDENTITY_MAPS_WRITE_ERR_TO_CLOSED',
            'ERROR_KINDS_LEN',
            'EK_PERMISSION_DENIED',
            'EK_WRITE_ZERO',
            'EK_BROKEN_PIPE'],
 'nontrivial_min_trace': 12,
 'rule': 'seeded random cases. (A) the real substream::Substream over a scripted in-memory carrier (SubstreamType::Verif hook; one script event per '
         'poll_read/poll_write/poll_flush/poll_shutdown call): codec in {Identity n: n in 0,1,5,10,300,1023,1024,1025,2048,4000,65536,66000,70000} u '
         '{UnsignedVarint(None)} u {UnsignedVarint(Some m): m in 0,1,20,127,128,300,16384,70000,2^21}; 1-8 (thorough 1-12) messages incl. empty, '
         'maximal, max+1 / wrong-size, > BACKPRESSURE_BOUNDARY; operations poll_ready / start_send / poll_flush / send_framed / Sink::poll_close / '
         'Substream::close in random interleavings (sink only, send_framed only, freely mixed incl. send_framed on a half-written Sink frame, writer '
         'stopping right after a flush, start_send then close without flush — where the queued frames are, as the code has it, not sent); write and '
         'read scripts with chunk sizes 1-3, 1-40, boundary values, 2^20, Pending stalls, permanent stalls, carrier errors, zero-length accepts '
         '(WriteZero) and end of stream at random points, operations continued after errors; raw reader streams with truncated, non-minimal, '
         'over-long (10/11-byte) and oversized length prefixes, polled on after errors. After every writer operation: result, pending_out_bytes, '
         'queued frame lengths, pending_out_frame, bytes newly handed to the carrier (run-length encoded), number of unused carrier script events, '
         "carrier-shutdown flag and the wake-up flag (a Pending answer must follow a Pending carrier call that was given the caller's waker) are "
         'diffed against the extracted Coq model; after every poll_next: result, returned frame bytes, read_buffer.len(), offset, '
         'current_frame_size, unread wire, unused script events, wake-up flag. (B) two cases in fifty run end to end over a real in-memory yamux '
         'connection with the TCP or the WebSocket substream type on both ends (VerifYamuxPair hook): SinkExt::feed / flush / send_framed / close on '
         'one side, a concurrent reader on the other, messages up to 2 MB (several 256 KiB flow-control windows), fixed sizes up to 300000; the '
         "per-call results, the frames delivered and the clean end of stream are compared with the model's prediction; runs that close without a "
         "flush (40% of those with fed messages left) are included: how many of the frames that were only fed arrive is the environment's share, "
         'recorded by the harness in the case (z1 z2) and judged by the oracle (every message covered by a completed flush / send_framed, then a '
         'prefix that the backpressure flushes of poll_ready can and must have written). Non-trivial = trace of >= 12 numbers; distinct = distinct '
         '(case, trace) pairs. The corpus witnesses of the six repaired defects (F-C04a..f) and the close-without-flush observation cases are '
         'replayed first on every run. Then, on every tier, a SYSTEMATIC block of ~1000 small cases (sys_partial_cases in harness/src/c04.rs, '
         'c04y.rs): the carrier takes a strict non-empty part of a queued frame, answers Pending and later takes the rest — Identity(5), '
         'UnsignedVarint(None) with 3- and 130-byte messages, UnsignedVarint(Some 300 / 20), i.e. one- and two-byte length prefixes, on four paths '
         '(start_send x2 + poll_flush; send_framed x2; start_send then send_framed; start_send, poll_close, poll_flush), accept sizes 1,2,3,7,50,64 '
         'with the single Pending after the j-th carrier answer for EVERY j (so every split point of every frame, length prefix included, is '
         'visited); the backpressure flush of poll_ready on a 66000-byte message cut inside the length prefix and the payload, once and twice; over '
         'real yamux (kind 40) a window of k bytes for every k of 5- and 6-byte frames and chosen k of a 132-byte one, zero credit inside the frame, '
         'window updates later. The random write scripts take one of three further styles in 3 of 8 cases in which a Pending follows most accepts. '
         'The oracle judges the implementation trace from the case alone: after every call the bytes on the carrier must be the first (handed over - '
         'queued) bytes of the encodings of the accepted messages in call order (a repeated or a missing byte fails), kind 40 additionally queued + '
         'received <= handed over; the reader must return the messages that are completely on the carrier byte for byte, also when raw bytes follow. '
         'Scripted failures carry every io::ErrorKind of the table extracted by tools/gen_c04_tables.py (corpus/C04/errkinds.case: each of the 20 '
         'kinds in a Sink flush, in send_framed under both codecs and on the reading side). (C) kind 30, 7 cases in fifty: the tokio-util codecs of '
         'src/codec called one method at a time — Identity::new(n) (n in 0 [panics, documented],1,2,5,10,48,300,1024,4000), UnsignedVarint::new(None '
         '/ Some m), with_max_size(m): Encoder::encode and the static encode of fitting, too long, too short and empty messages (result and appended '
         'bytes), then the wire (plus raw bytes: over-long, non-minimal, oversized, truncated prefixes) fed in chunks of 1-3, 1-40, boundary sizes '
         'or all at once with `decode` called until None/error after every chunk (every result, frame and buffer length), decode_eof, the static '
         'decode. kind 31, 2 in fifty: tokio_util::codec::Framed<Substream, codec> over the scripted carrier (send / close / next with stalls), '
         'outcome. (D) kind 40, 8 in fifty: the real Substream of the TCP or WebSocket type over a REAL yamux Connection polled by hand, the remote '
         'end played by the harness in raw yamux frames: the case fixes the starting window (0,1,2,5,100,1000,16383-16385,40000,256 KiB, more), '
         'every window update (size, moment), when the connection task runs and an optional RST; operations as in (A); after every operation result, '
         "Sink state and the payload the peer holds, at the end the length of every data frame and all payload bytes: equal to the model's Yamux.v "
         '(credit, 16 KiB split, 11-slot command channel) frame for frame. kind 41, 4 in fifty: the reading side, the harness sends data frames of '
         'chosen sizes, FIN or RST; every poll_next with state. (E) stream `extra` (tools/c04_extra_streams.sh, crate harness_c04x built with '
         "litep2p's quic+webrtc features; 250 cases quick, 4000 thorough): kind 50/51 the real webrtc::Substream under substream::Substream, the "
         'harness playing the connection side through SubstreamHandle (poll k times, FIN_ACK, STOP_SENDING, RESET_STREAM, payload messages of chosen '
         'sizes up to over-long ones, bursts of 50-300 messages around the 256-slot inbound channel), per call; kinds 60-62 the scenario of (B) over '
         'the QUIC substream type between two litep2p nodes on the loopback interface (12 codec configurations, messages up to 2 MB).',
 'trusted_base': ['the scripted carrier of harness/src/c04.rs stands for a transport substream in kinds < 10, 30, 31; next to it the real carriers '
                  'are driven: tcp::Substream / websocket::Substream over a real yamux connection (kinds 10-22, 40, 41), webrtc::Substream (50, 51), '
                  'quic::Substream (60-62)',
                  'in kinds 40/41 the remote yamux endpoint is ~60 lines of harness code speaking the yamux frame format (header, Data, '
                  'WindowUpdate, FIN, RST)',
                  'message payloads in the runs are a fill byte plus an end marker (run-length encoded in traces); the theorems quantify over '
                  'arbitrary byte lists',
                  'unsigned_varint 0.8 encode/decode and UviBytes::{serialise,deserialise} are transcribed by hand into Model.v / Codec.v (enc_fuel, '
                  'scan, tdecode, tencode) and exercised by the differential runs; tokio-util Framed, quinn and str0m-free WebRTC plumbing are '
                  'third-party code that is only run',
                  'flush_all / the carrier-generic runners use explicit fuel: C04_flush_all_fuel_adequate, C04_carrier_poll_total; a run that '
                  'exhausts the fuel of a waiting loop is a visible disagreement'],
 'level_text': 'Proof: on the model of the repaired src/substream/mod.rs (fix: commits F-C04a..f) and src/codec (F-C04h) — receiver totality for '
               'every codec, byte stream, fragmentation and polling pattern (no panic, read buffer <= max(configured size, 1024)); '
               'malformed/oversized length => ReadFailure without allocation; reader round trip for every script incl. errors and end of stream at '
               'any point; conservation invariant (carrier bytes ++ queued bytes = encodings of the accepted messages in call order) over every '
               'history of poll_ready/start_send/poll_flush/send_framed/poll_close/close and every carrier behaviour incl. write errors and '
               'zero-length accepts (C04_mixed_paths_in_order); poll_flush reports Ready(Ok) only with nothing queued; send_framed hands over the '
               'queued bytes and then exactly its frame when it returns Ok; close = carrier shutdown only (C04_close_sends_nothing, '
               'C04_close_after_flush_complete); errors reported by the call that met them; Pending only after a Pending carrier call; sender '
               'refusal; backpressure bound and the exact behaviour of poll_ready (no carrier call below the boundary, one poll_flush at or above '
               'it, a stalled backpressure flush is not taken up again: C04_poll_ready_flushes_to_boundary); end of stream inside a frame is end of '
               'stream and the cut frame is not delivered (C04_eof_inside_frame_is_end_of_stream); end-to-end round trip. NEW: (1) the tokio-util '
               'codecs Identity / UnsignedVarint: round trip under every fragmentation of the Framed loop, refusal at the encoder, oversized / '
               'malformed length => error at the decoder with a bounded pending length, same wire format and limits as the Substream framing, '
               'interoperation in both directions (C04_codec_*, C04_substream_to_codec, C04_codec_to_substream). (2) Carriers: the writer re-stated '
               'over an abstract carrier state machine with the log of its answers; every history over every carrier is a history of the '
               'script-driven writer on that log (C04_carrier_refines_script), hence in-order conservation and complete flush / send_framed over '
               'every carrier (C04_carrier_in_order, C04_carrier_complete, C04_carrier_poll_total) — a short count from poll_write never shortens a '
               'message. (3) yamux: Stream::poll_write as accept min(offered, window, 16 KiB), Pending at zero credit or full command channel '
               '(C04_yamux_write_discipline); bytes accepted never exceed the credit given (C04_yamux_credit_respected); no failure and no WriteZero '
               'on a stream that is not reset, a stalled writer waits for credit or the connection task only (C04_yamux_stalls_only_for_credit); the '
               'reader over the receive buffer is poll_next on a script; and for BOTH ends with any schedule of operations, window updates, '
               'deliveries and polls the frames read are an initial segment of the messages handed over and all of them once nothing is queued and '
               'everything arrived, without further action of the sender (C04_yamux_end_to_end). (4) WebRTC substream: one message <= MAX_FRAME_SIZE '
               'per poll_write through a 256-slot channel, reassembly in poll_read; it is a carrier, its reader is poll_next on a script '
               '(C04_webrtc_*). The models are tied to the Rust code by per-call differential runs with state dumps: scripted carrier, real yamux '
               'with a hand-played peer (frame lengths and Pending points must match exactly), real webrtc::Substream with a hand-played connection '
               'side, the codec methods one by one; and by end-to-end runs over yamux (TCP, WebSocket types) and QUIC.',
 'level_note': 'Trusted: Coq kernel, ExtrOcamlBasic extraction, harness and hooks, hand transcription of unsigned_varint. Environment (universally '
               'quantified, not modelled as a policy): when and how much credit the yamux peer grants (receive-window policy, RTT auto-tuning), when '
               'the connection task runs, what the WebRTC connection side does. Not modelled: waker identity (checked by the harness in kinds < 10; '
               'the model shows that Pending follows a Pending carrier call); a send_framed call that fails or is dropped midway leaves a partial '
               'frame (caller is told; documented as not cancellation safe) — histories are quantified over send_framed calls that ran to '
               'completion; UnsignedVarint(None) allocates any announced length (proved as such, see also C19); Identity(0) delivers nothing (proved '
               "as such); the QUIC arm of send_framed (write_all_chunks) and quic::Substream are run end to end only; SubstreamHandle's FIN_ACK "
               'timeout; SubstreamType::Mock (cfg(test) only); SubstreamSet; tokio-util Framed internals. Observations, not defects of C04: close '
               "drops frames that were only start_send'ed, and the backpressure flush of poll_ready is given up below the boundary (a close without "
               'flush may cut a frame); a WebRTC reader more than 256 messages behind is reset by design; WebRTC poll_flush answers Ok after '
               'STOP_SENDING until the next write.',
 'assumptions': ['message length < 2^64 (usize)',
                 'Identity(0) excluded from the completeness clause (C04_identity_zero states what happens instead); the tokio-util Identity codec '
                 'cannot be built with 0 (assertion)',
                 'every send_framed call of a history returned Ok or PermissionDenied (a failed or abandoned call is reported to the caller; the '
                 'stream is then unusable)',
                 'Substream::close(self) ignores errors: C04_close_all_after_flush_complete assumes a carrier that does not fail',
                 'observation, not part of the property: close drops start_send frames that were never flushed (C04_close_drops_unflushed); callers '
                 'flush first',
                 '0 < BACKPRESSURE_BOUNDARY, YAMUX DEFAULT_CREDIT = 256 KiB, MAX_FRAME_SIZE, MAX_INFLIGHT_MESSAGES (checked against the source '
                 'constants); yamux split_send_size = 16 KiB and the 10+1 slots of the stream command channel are third-party defaults, checked by '
                 'the exact differential run of kind 40',
                 'carrier-generic theorems speak about runs whose waiting loops got enough fuel (result Some)'],
 'clause_map': [['for every framing configuration (fixed-size frames of any size, length-prefixed frames with any maximum) the sequence of messages '
                 'received equals the sequence sent, regardless of message sizes and fragmentation',
                 'C04_roundtrip, C04_reader_roundtrip, C04_mixed_paths_in_order, C04_varint_roundtrip; tokio-util codecs: C04_codec_roundtrip, '
                 'C04_codec_same_wire, C04_substream_to_codec, C04_codec_to_substream; as the code behaves at the edges: C04_identity_zero, '
                 'C04_varint_none_unbounded_alloc',
                 'kinds < 10 (per call, scripted carrier), 10-22 (end to end over yamux), 30/31 (codec methods / Framed), 60-62 (QUIC end to end)'],
                ['... regardless of flow-control stalls',
                 'C04_carrier_refines_script, C04_carrier_in_order, C04_yamux_write_discipline, C04_yamux_credit_respected, '
                 'C04_yamux_stalls_only_for_credit, C04_yamux_reader_refines_script, C04_yamux_end_to_end, C04_webrtc_write_discipline, '
                 'C04_webrtc_reader_refines_script, C04_backpressure',
                 'kind 40/41 (real yamux, the harness is the peer and fixes window and updates; data-frame lengths compared), kind 50/51 (real '
                 'webrtc::Substream), kinds 10-22 / 60-62 with messages of several windows'],
                ['... whether sent through the sink interface or the direct framed-send call',
                 'C04_mixed_paths_in_order (both APIs freely mixed), C04_send_framed_complete, C04_carrier_complete',
                 'kinds < 10, 40, 50: operation lists of poll_ready/start_send/poll_flush/send_framed/poll_close/close in random interleavings'],
                ['a message larger than the maximum is refused at the sender',
                 'C04_sender_refuses, C04_codec_encode_refuses',
                 'every kind: messages of max+1 / wrong size / empty; result code and unchanged state / output buffer'],
                ['an oversized or malformed incoming length yields an error at the receiver, never a panic',
                 'C04_receiver_total, C04_receiver_rejects, C04_codec_decode_rejects, C04_eof_inside_frame_is_end_of_stream (a stream that ends '
                 'inside a frame: end of stream, the cut frame is not delivered)',
                 'kinds < 10, 30, 41, 51 with raw wires: truncated, non-minimal, 10/11-byte and oversized prefixes, polled on after the error; '
                 'panics are caught and fail the oracle'],
                ['when a send or flush is reported complete the whole message has been handed to the transport',
                 'C04_flush_complete, C04_hist_flush_complete, C04_send_framed_complete, C04_carrier_complete, C04_write_error_reported, '
                 'C04_send_framed_error_reported, C04_poll_ready_flushes_to_boundary (poll_ready is not a flush: a fed message is covered only by a '
                 'later flush / send_framed that reports completion)',
                 'kinds < 10: bytes handed to the carrier after every call; kinds 40/50: the Sink state after every call and, once nothing is '
                 'queued, all bytes with the peer after the connection side ran; kinds 10-22 / 60-62: feed ... close without flush — the messages '
                 'covered by a completed flush / send_framed must arrive, of the others a prefix that the backpressure flushes allow '
                 '(e2e_choice_ok)'],
                ['... so the peer receives it without any further action by the sender',
                 'C04_yamux_end_to_end (last clause: needs no writer step), C04_roundtrip, C04_close_after_flush_complete, '
                 'C04_close_all_after_flush_complete, C04_pending_has_waker_write, C04_pending_has_waker_read',
                 'kinds 10-22 / 60-62: the writer stops after flush / send_framed, a concurrent reader must get every frame; kind 40: final run of '
                 'the connection task only']]}
