"""Configuration of ./check for C03 (see tools/props.py)."""
ENTRY = {'coq_dir': 'C03',
 'harness': 'c03',
 'model_files': ['Model', 'Msg', 'Glue'],
 'proof_files': ['Properties'],
 'cases': {'quick': 3000, 'thorough': 150000},
 'consts': ['C03_MAX_LEN_BYTES', 'C03_MAX_PROTOCOLS'],
 'nontrivial_min_trace': 12,
 'rule': 'three streams per run: (i) corpus witnesses (V1Lazy pitfall, 16 KiB frame boundary, names with newline / equal to the header / '
         'without slash); (ii) exhaustive small scope: all pairs of dialer list x listener list over the pool {/a, /a/b, /c} with length '
         '<= 2 (quick, 2 chunkings) or <= 3 (thorough, 4 chunkings incl. byte-at-a-time and Pending-every-other-call), payloads that start '
         'with a negotiation-looking frame; (iii) seeded random cases, 50% two-ended stream negotiation (pool of 2-7 names drawn from '
         'nested, fallback-style, odd-byte, 126..300-byte, 16381..16384-byte and invalid names; lists of 0-6 names; V1 80% / V1Lazy 20%; '
         'scheduler script of 0-40 polls then alternation; four independent read/write scripts of chunk limits and injected Pendings; '
         'payloads of 0-150 bytes incl. frames that look like proposals/header/na), 20% ONE real future (dialer or listener) against a '
         'scripted peer byte stream (frame sequences incl. ls / ls-responses / empty frames / garbage / mutated or truncated varints, '
         'closed at the end), 20% webrtc_listener_negotiate and 10% WebRtcDialerState on generated and mutated payloads. For a stream case '
         'the REAL dialer_select_proto / listener_select_proto futures and the Negotiated streams they return are polled over a scripted '
         'in-memory duplex; each side then writes its payload, closes and reads to EOF. Compared with the extracted Coq model: both '
         'results (index or error class), read-end status, application bytes received by each side, every byte each side wrote, bytes left '
         'unread in each direction, stuck/terminated flag. prop_ok judges the implementation trace itself: termination, first-common '
         "agreement with the listener's first matching entry, payloads delivered unchanged with clean EOF and empty pipes (V1, well-formed "
         'names); for V1Lazy at the last name only the dialer half; for names outside the domain only consistency; a lone future may only '
         'settle on a name whose frame occurs in its input.',
 'trusted_base': ['the scripted duplex of harness/src/c03.rs stands for the byte carrier (yamux/TCP below it is not modelled); writes to a '
                  'dropped end are accepted, a dropped end reads as EOF once drained; poll_flush of the carrier is always Ready',
                  'futures are polled with a no-op waker by the scheduler script, i.e. wake-ups are not relied upon',
                  'the step from the byte-level machines of Model.v to the message-level system of Msg.v is by construction (shared '
                  'decision functions d_react / l_find) plus the codec and frame-exactness theorems; it is not itself a Coq refinement '
                  'theorem'],
 'level_text': 'Proof, in three layers. (1) Message codec: decode(encode m) = m and injectivity for header, na, ls and every protocol name '
               "that starts with '/', has no newline and differs from the header line. (2) LengthDelimited framing for EVERY "
               'fragmentation: under any read script, any partial availability and any point inside a frame, one poll_next of the '
               'byte-at-a-time reader either stays inside the frame or returns exactly the body having consumed exactly varint+body bytes '
               '- never a byte of what follows (the application data); under any write script the writer delivers its buffer in order '
               'without loss and reports completion only when empty. (3) Negotiation (V1) as a two-process system over FIFO message '
               'channels with micro-steps (emit, move one buffered message, consume one message) under an ARBITRARY scheduler: for all '
               "dialer lists of valid names and all listener sets, any result either side reports equals the dialer's first name the "
               'listener supports (else failure), both sides terminate under every fair schedule, and at hand-over the inbound channel '
               'holds no negotiation message, the write buffer is empty (the into_inner assertions) and no direction is closed. The '
               'byte-level machines (dialer, listener, Negotiated incl. V1Lazy Expecting state, webrtc_listener_negotiate, '
               'WebRtcDialerState) are executable in Coq and diffed against the Rust code per case.',
 'level_note': 'Not proved: a mechanised refinement from the byte-level machines to the message-level system (argued from layers 1-2 and '
               'shared decision functions; checked by the differential run); the ls-response (Message::Protocols) round trip; V1Lazy and '
               'the message-based WebRTC variant have no theorems, only the model/implementation diff and the oracle - and for V1Lazy only '
               'the dialer half of agreement is demanded, because of the upstream-documented pitfall (Example C03_lazy_pitfall: a payload '
               "that looks like a proposal is accepted by the listener); litep2p's transports use V1 only. The fallback-name -> "
               "main-protocol mapping of protocol_set.rs, negotiation timeouts and the differential against rust-libp2p's "
               'multistream-select are not covered.',
 'assumptions': ["protocol names are valid: start with '/', contain no newline, differ from /multistream/1.0.0, and name+1 <= 16383 bytes "
                 '(others are run and diffed, but only consistency is demanded)',
                 'the carrier is a reliable FIFO byte stream per direction',
                 'fair scheduling: both futures keep being polled']}
