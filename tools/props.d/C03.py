"""C03 — configuration of ./check (loaded by tools/props.py)."""

ENTRY = {
        "coq_dir": "C03",
        "harness": "c03",
        "model_files": ["Model", "Msg", "Timed", "NegOps", "WGroup", "Glue"],
        "proof_files": ["Properties"],
        "cases": {"quick": 3000, "thorough": 150000},
        "consts": ["C03_MAX_LEN_BYTES", "C03_MAX_PROTOCOLS"],
        "nontrivial_min_trace": 12,
        "rule": ("kinds of cases per run: (i) corpus witnesses (V1Lazy pitfall, 16 KiB frame boundary, names with newline / equal to the header / "
                "without slash, fallback-table edge cases, close after a failed optimistic negotiation); (ii) exhaustive small scope: all pairs of dialer list x listener list over {/a, /a/b, /c} with "
                "length <= 2 (quick, 2 chunkings) or <= 3 (thorough, 4 chunkings incl. byte-at-a-time and Pending-every-other-call), payloads that start "
                "with a negotiation-looking frame; (ii-b) MESSAGE-BASED VARIANT, EVERY GROUPING OF THE LISTENER'S FRAMES INTO MESSAGES, exhaustive: every dialer list "
                "(main :: fallbacks, 1-2 names quick / 1-3 thorough) x every listener list (0-2 names) over {/a, /a/b, /c} x every grouping of the first reply "
                "(header echo + verdict: one message; header alone then verdict; the same with one or two EMPTY messages in between) x every grouping of the later "
                "replies (verdict alone; after an empty message), as mode 4 = the REAL WebRtcDialerState (propose / register_response once per message / "
                "propose_next_fallback) against the REAL webrtc_listener_negotiate whose reply is split into its frames and regrouped (2340 quick / 8658 thorough "
                "cases), and as mode 2 = the real WebRtcDialerState against a SCRIPTED legal listener (the frames of the legal answers for the listener's set, "
                "computed by the generator, delivered under the same groupings, propose_next_fallback after every na; 720 / 8658 cases); plus cases/25 random "
                "mode-4 sessions (catalogue names incl. invalid ones, 0-3 fallbacks, 0-4 listener names, up to 5 rounds of random grouping scripts incl. empty "
                "messages in front of the header); (iii) seeded random cases: 25% two-ended stream negotiation (pool of 2-7 names drawn from nested, "
                "fallback-style, odd-byte, 126..300-byte, 16381..16384-byte and invalid names; lists of 0-6 names; V1 80% / V1Lazy 20%; scheduler script "
                "of 0-40 polls then alternation; four independent read/write scripts of chunk limits and injected Pendings; payloads of 0-150 bytes incl. "
                "frames that look like proposals/header/na), 15% the transports' REAL negotiate_protocol (TCP's and WebSocket's copy: tokio::time::timeout "
                "around the select future, Negotiated::inner() as open_substream/accept_substream take it) on both ends of the duplex under a PAUSED tokio "
                "clock: the schedule script interleaves polls with 1 ms clock advances, the two timeouts are drawn around the number of ticks (0, below, at, "
                "above, never) so that none, one or both wrappers fire before, during (mid-frame) or after the negotiation; ASCII names, dialer list = main "
                "name followed by fallback names, 15% the Negotiated stream of a single-name dialer (85% V1Lazy, i.e. State::Expecting) as an I/O object "
                "against a scripted listener (header + confirmation / na / another name / second header / ls / garbage / nothing / truncation, then "
                "application bytes that may look like negotiation frames): a script of 1-8 poll_read(k) / poll_write / poll_flush / poll_close operations, "
                "each polled until Ready with the Pendings counted, final state (verif_state) and pipes dumped, 15% ONE real future (dialer or listener) against a scripted peer byte stream (frame sequences "
                "incl. ls / ls-responses / empty frames / garbage / mutated or truncated varints, closed at the end), 15% webrtc_listener_negotiate and "
                "10% WebRtcDialerState on generated and mutated payloads, 10% ProtocolSet::report_substream_open on generated main/fallback tables "
                "(~20% degenerate: shared fallback, fallback equal to a main, unknown name), and 1% (30 quick / 1500 thorough) END-TO-END: two real Litep2p "
                "nodes over loopback TCP or WebSocket, each with 1-3 request-response protocols carrying 0-3 fallback names (well-formed tables over a pool of "
                "versioned names, B mostly offering several of the names A proposes), protocol k of A sends one request: the real open_substream "
                "(main :: fallbacks over a real yamux stream), accept_substream (ProtocolSet names in hash-map order), report_substream_open on both ends; "
                "observed: A's terminal event with the fallback it reports, and which protocol of B got the request with which fallback. DIFFERENTIAL STREAM AGAINST THE REFERENCE IMPLEMENTATION (mode 9; rust-libp2p's multistream-select 0.13.0 from the local cargo registry, a dependency of the harness): the same scripted duplex, scheduler script, four read/write scripts and payloads as the two-ended mode, with each end run by one of: litep2p's select future, the REFERENCE's dialer_select_proto / listener_select_proto (V1 and V1Lazy), litep2p's TCP / WebSocket negotiate_protocol; pairings reference dialer -> litep2p listener 35%, litep2p dialer -> reference listener 35%, reference -> reference (control) 10%, reference dialer -> the transports' accept path 10%, the transports' open path -> reference listener 10%; the exhaustive small scope (all pairs of lists over {/a, /a/b, /c}, length <= 2, 2 or 4 chunkings) for the first three pairings (1014 / 2028 cases) plus cases/8 random ones (names that are text: nested, fallback-style, multi-byte UTF-8, names with inner and trailing '/', 126..300-byte and 16381..16384-byte names, invalid names; 25% V1Lazy with ASCII payloads). The MODEL of both ends is the model of litep2p's futures: the reference is predicted to be byte-for-byte the same machine on this domain, so every byte either implementation writes, every result, every leftover is diffed. prop_ok: as the two-ended mode, and in addition (V1, names in the domain) the bytes EACH end put on the wire must equal the LEGAL conversation for the two lists (header, proposals in order up to the first supported one / header, one na per rejected proposal, the confirmation; then the payload) - which is the hypothesis of the any-legal-peer theorems. For a stream case the REAL dialer_select_proto / "
                "listener_select_proto futures and the Negotiated streams they return are polled over a scripted in-memory duplex; each side then "
                "writes its payload, closes and reads to EOF. Compared with the extracted Coq model: both results (index or error class), read-end "
                "status, application bytes received by each side, every byte each side wrote, bytes left unread in each direction, stuck/terminated "
                "flag. prop_ok judges the implementation trace itself: termination, first-common agreement with exact indices, payloads delivered "
                "unchanged with clean EOF and empty pipes (V1, well-formed names); V1Lazy at the last name only the dialer half; names outside the "
                "domain only consistency; a lone future may only settle on a name whose frame occurs in its input; message-based listener: Accepted "
                "only on a payload that is EXACTLY a well-formed proposal of that name (first position, confirmation as reply), never reject/err on "
                "such a payload for a supported name, Pending only on the bare header; message-based dialer: verdicts only on payloads containing the "
                "confirmation of the current name / na, fallbacks proposed in order without header, and FROM GROUND TRUTH for every grouping: as soon as the "
                "payloads registered since the last verdict concatenate to exactly [header +] confirmation of the current well-formed name the call must answer "
                "Succeeded, on [header +] na Rejected, on the header alone (or an empty message after it) NotReady; message-based SESSION (mode 4; well-formed "
                "names, no empty message in front of the header echo): the trace must EQUAL the ground-truth trace computed without any model function of dialer "
                "or listener: per round the listener accepts iff the proposed name is in its list (first position; reply = [header +] confirmation, else "
                "[header +] na), every register_response call but the last answers NotReady and the last answers Succeeded / Rejected whatever the grouping, "
                "after Rejected the next fallback is proposed without header, `none left` at the end - so listener Accepted(name) => dialer ends with that very "
                "name, lists intersect => both settle on the dialer's most preferred supported name, NotReady is followed by progress; fallback table: reported (main, fallback) must "
                "be the declared one (exact for well-formed tables); timed mode: both terminate, a Timeout only when the schedule holds at least `timeout` "
                "ticks, whoever reports success reports the first supported name (exact index) timeouts or not, both succeed -> transparent streams, with a "
                "common name a failure is only excused by a Timeout of one side and the surviving side receives NO byte and a clean EOF, no common name -> "
                "both fail; stream-ops mode: no panic, every operation becomes Ready, bytes returned by reads are exactly the bytes after [header +] "
                "confirmation (all of them at EOF, read + left = tail once Completed), no data or EOF ever from a stream whose input is not [header +] "
                "confirmation, the wire carries header + proposal followed by exactly the accepted write bytes (complete as soon as any operation "
                "succeeded), write/flush/close fail only after a failed read, after the first error every operation fails with the stream in the failed "
                "state and its outbound direction closed; end-to-end mode: a response implies that the name in use (A's reported fallback, else its main name) "
                "is the MOST PREFERRED of main :: fallbacks that B offers, a reported fallback is a declared one, B delivered the request to the protocol "
                "and with the fallback that Fallback.spec names; a failure only when B offers none of A's names."),
        "trusted_base": [
            "the scripted duplex of harness/src/c03.rs stands for the byte carrier (yamux/TCP below it is not modelled); writes to a dropped end are accepted, a dropped end reads as EOF once drained; poll_flush of the carrier is always Ready",
            "futures are polled with a no-op waker by the scheduler script, i.e. wake-ups are not relied upon",
            "reference stream: the crate multistream-select 0.13.0 as found in the local cargo registry stands for `the reference libp2p implementation`; its names are `&str`, so the stream covers names that are valid UTF-8 (and ASCII payloads for an optimistic dialer, whose payload a listener may parse as frames); go-multistream / js are not available offline",
            "end-to-end mode: real sockets and real time (request timeout 5 s, harness patience 20 s); Noise, yamux and the transport manager are exercised but not modelled; only well-formed tables (no shared fallbacks, whose winner depends on hash-map order)",
            "timed mode: tokio's paused clock (start_paused, time::advance by 1 ms per tick inside a current-thread runtime) stands for real time; both wrappers read the same clock; the deadline is fixed at the first poll of negotiate_protocol (its async body creates the Timeout); open_substream's yamux open_stream and accept_substream's keep-alive lookup are outside (they need a yamux connection)",
            "ProtocolSet tables: a fallback name declared by several main protocols is resolved by HashMap iteration order; the harness steers the real map to the order given in the case (rebuilds until it agrees) instead of guessing",
        ],
        "level_text": ("Proof, in six layers. (1) Codec: decode(encode m) = m and injectivity for header, na, ls and every valid name; the ls response "
                      "(Message::Protocols) round trip incl. the MAX_PROTOCOLS bound; unsigned-varint round trip. (2) LengthDelimited framing for EVERY "
                      "fragmentation: one poll_next under any read script / partial availability returns exactly the body having consumed exactly "
                      "varint+body bytes or stays inside the frame; the writer delivers its buffer in order under any write script. (3) Negotiation (V1) "
                      "as a two-process message-level system under an ARBITRARY scheduler: agreement on the dialer's first supported name, termination "
                      "under fairness, clean hand-over. (4) PROJECTION: every run of the byte-level two-ended system of Model.v (the model diffed against "
                      "the Rust code: dialer/listener futures with reader and writer buffers, tasks that write a payload, close and read to EOF, two "
                      "scripted pipes) under any poll sequence, any chunking and any Pending injection is related poll-by-poll to a run of the "
                      "message-level system; hence, as theorems about the byte-level model: any reported success carries the exact index of the first "
                      "supported name (dialer) / first matching entry (listener), any reported failure means no common name, after success each side "
                      "receives exactly the other's application bytes with clean EOF and empty pipes - no application byte consumed or lost -, no "
                      "reachable state is stuck short of completion, and BOTH TASKS TERMINATE under every fair poll sequence (an invariant-free "
                      "potential over buffers, pipes, scripts and remaining names strictly decreases on every non-blocked poll); whenever the harness "
                      "scheduler reports completion the final state is the one the property demands. (5) Message-based WebRTC variant: listener on "
                      "header+proposal / proposal after header / header alone, trailing bytes rejected, dialer verdict independent of message grouping "
                      "(C03_webrtc_grouping_irrelevant: for EVERY grouping script of a legal reply's frames - one per message, all in one, empty messages in between - "
                      "every register_response call but the last answers NotReady with the handshake state carried over, and the last ends in the state and verdict of "
                      "the concatenation), whole sessions agree on the first supported of main::fallbacks with fallbacks proposed in order, and under every grouping of "
                      "every reply the session model's trace is the ground-truth trace that the oracle of mode 4 demands "
                      "(C03_webrtc_grouped_session_spec, C03_webrtc_session_oracle_accepts_model). (6) Fallback name -> main "
                      "protocol mapping of ProtocolSet::report_substream_open (incl. degenerate tables, order independence, protocol_codec, and the proof that "
                      "the fallback-mode trace oracle accepts the model on EVERY input and nothing else on well-formed tables). (7) The transports' timeout "
                      "wrapper (negotiate_protocol): a clock, one deadline per side fixed at its first poll, abort = result Timeout + stream dropped, on top "
                      "of the byte-level system, events = polls and ticks in any order. Key lemma C03_timeout_peer_poll: a poll of ANY task on an inbound "
                      "pipe closed by the peer equals the poll on the pipe as it was, or the task is finished keeping its result or failing. Hence for all "
                      "timeouts and interleavings (timer firing mid-frame included): every timed run shadows a plain run, so a reported success carries the "
                      "exact index of the first supported name on either side (SAFETY), both-succeed runs ARE plain runs (transparency carries over), both "
                      "tasks TERMINATE under every fair timed schedule (a fired timer strictly lowers the potential, the peer of an aborted side cannot "
                      "block), the wrapper is invisible while the clock is below the timeouts, and in the inherent one-sided case (listener accepted, the "
                      "dialer's timer fires before it reads the confirmation) the listener's stream delivers NO byte and ends with a clean EOF "
                      "(C03_timeout_survivor_clean: no negotiation byte is ever handed to the application as data). (8) The optimistic dialer's Negotiated stream at BYTE "
                      "level for every fragmentation: one Negotiated::poll from any point of the expectation stays inside `header frame ++ answer frame` or "
                      "has consumed exactly them with the right verdict (Completed iff the confirmation of the proposed name), flushes header+proposal "
                      "first, never touches the application bytes behind; the completing poll_read returns their first bytes unchanged; poll_write/flush/"
                      "close put application bytes on the wire only after the whole negotiation buffer; a failed stream fails every later operation "
                      "(after the repair F-C03a; it panicked). (9) Composition: a substream opened with `main :: fallbacks` against a ProtocolSet: the "
                      "negotiated name is the most preferred offered one and both report_substream_open calls name the right main protocol + fallback. "
                      "(10) AGAINST ANY LEGAL PEER (Peer.v, PeerTie.v; the reference implementation in particular): the per-poll byte-to-message simulation "
                      "(SimD, SimL, SimSys) is parametric in an invariant of the peer; instantiated with an ENVIRONMENT that delivers, one byte at a time at "
                      "arbitrary moments between the polls and under any carrier scripts, a stream whose frames satisfy the inductive predicates LegalL (a "
                      "listener's answers: one na per unsupported proposal, the confirmation of the first supported one) / LegalD (a dialer's proposals: "
                      "rejected names, then at most one accepted), followed by arbitrary application bytes and the close. For litep2p's dialer task and "
                      "listener task (V1, byte-level machines of Model.v): a reported success carries the exact index of the first name the peer supports "
                      "/ of the first entry equal to the accepted proposal and it is the name the peer agreed to; a reported failure means nothing could be "
                      "agreed; at every moment bytes read ++ bytes in the pipe ++ bytes to come = the peer's payload (none consumed by the negotiation, none "
                      "lost), clean EOF at the end; what the task wrote is exactly a legal conversation followed by its payload (so a correct peer agrees); "
                      "both tasks TERMINATE against any byte stream, legal or not, that the peer finishes and closes. The wire bytes that the trace oracle of "
                      "the reference stream demands are proved to be such legal conversations with the verdict of the property text, and the theorems are "
                      "instantiated on them (C03_peer_reference_*_wire_*). The two legitimate differences between the implementations are stated explicitly "
                      "(RefDiff.v): the reference's dialer accepts the header line repeatedly - its reaction differs on a second header only and against every "
                      "legal listener it takes exactly litep2p's steps; the reference's names are text - the decoders agree on every UTF-8 name line and on "
                      "every piece of an ASCII payload. "
                      "V1Lazy, dialer side: the future settles on its first poll (byte level); "
                      "for every application-data content, listener set and schedule the dialer's verdict is 'confirmed' iff the listener supports the "
                      "name (message level); the listener half of agreement is refuted by a witness (upstream-documented pitfall)."),
        "level_note": ("Message-based sessions (mode 4): for names outside the domain (not well-formed, header + proposal beyond a frame) or a grouping that puts an "
                      "EMPTY message in front of the header echo (register_response answers StateMismatch: an empty message is not a frame of the protocol) the oracle demands "
                      "nothing beyond the diff against the model; a message that cuts a frame in two is not a grouping of frames and is covered only by the random payload "
                      "mutations of mode 2. Not proved: that the fuel bound and stuck detector of the harness scheduler (run_sys) never fire - byte-level termination is proved "
                      "for every fair poll sequence instead, and C03_bytes_run_correct covers every completed run_sys run; the V1Lazy dialer-side theorem "
                      "is at message level (application data abstracted as an arbitrary sequence of frames seen by the listener, dialer writes everything "
                      "before it reads) - no byte-level two-ended projection for V1Lazy (the per-poll byte-level theorems of layer 8 are about the dialer's stream against "
                      "a well-formed answer; litep2p's transports use V1 only). Under timeouts agreement of BOTH sides is not claimable (two generals: the "
                      "listener may have accepted when the dialer's timer fires; C03_timeout_example) - proved instead: safety of every reported success, "
                      "termination, and that the surviving listener reads nothing but a clean EOF; the mirrored case (dialer succeeded, listener timed out) is "
                      "demanded of every trace by prop_ok but its impossibility in the model is not a theorem. "
                      "That code 9 is only ever produced by the abort is not a theorem (the trace oracle checks `Timeout => enough ticks`). Termination of "
                      "the lazy stream (eventual completion under fairness) is not proved, only per-poll exactness. The carrier below the scripted duplex "
                      "(yamux/TCP: what dropping a stream sends) and open_substream/accept_substream's yamux parts are not covered. Reference stream: the model of "
                      "the reference end is litep2p's model (byte equality is an empirical finding re-checked every run, not a theorem about the reference's "
                      "source); where the two implementations legitimately differ the domain is restricted rather than modelled: names that are not UTF-8 "
                      "(the reference refuses them with InvalidProtocol where litep2p answers na), a second header frame (tolerated by the reference's dialer, "
                      "InvalidMessage for litep2p's; Failed vs InvalidMessage in the optimistic stream) - no legal peer sends either -, operations on an "
                      "optimistic stream after its negotiation failed (the reference panics, litep2p reports an error since F-C03a). The any-legal-peer "
                      "theorems are V1 (for V1Lazy the per-poll theorems of layer 8 are already about an arbitrary well-formed answer); a legal dialer that "
                      "asks `ls` is not in LegalD (the single-future mode diffs the ls answer; neither implementation ever asks); the environment does not "
                      "consume the task's outbound pipe (no operation of the task depends on that buffer), and does not close before its stream is complete."),
        "clause_map": [
            ["both sides terminate", "C03_terminates (message level), C03_bytes_terminate, C03_timeout_terminates; against any peer: C03_peer_dialer_terminates, C03_peer_listener_terminates",
             "two-ended stream mode (status flag diffed, prop_ok demands status 0), timed mode, reference stream"],
            ["same protocol = the dialer's most preferred one the listener supports, otherwise both fail",
             "C03_agreement_dialer/_listener, C03_bytes_dialer_result/_listener_result/_dialer_failure/_listener_failure, C03_bytes_run_correct; against any legal peer: C03_peer_dialer_vs_any_legal_listener, C03_peer_listener_vs_any_legal_dialer, C03_peer_own_wire_legal",
             "two-ended stream mode incl. exhaustive small scope (exact indices in prop_ok), transports' negotiate_protocol (timed mode), end-to-end mode, reference stream"],
            ["every byte written after negotiation reaches the other side unchanged; no application byte consumed by the negotiation",
             "C03_frame_exact, C03_handover_*, C03_bytes_transparent, C03_lazy_read_exact/_write_exact, C03_timeout_survivor_clean; read ++ in-pipe ++ to-come = payload at every moment: C03_peer_dialer_vs_any_legal_listener, C03_peer_listener_vs_any_legal_dialer",
             "payloads (incl. negotiation-looking frames) written right after negotiation in the stream modes, stream-operation mode, reference stream; bytes received / written / left in each direction diffed"],
            ["against the reference libp2p implementation in either role",
             "C03_peer_oracle_wire_legal, C03_peer_reference_dialer_wire_vs_listener, C03_peer_reference_listener_wire_vs_dialer (+ the any-legal-peer theorems above)",
             "reference stream (mode 9): multistream-select 0.13.0 as dialer against litep2p's listener / accept path, litep2p's dialer / open path against it as listener, reference against reference as control; every byte diffed against the model, wire-legality in prop_ok"],
            ["optimistic (lazy) dialer variant", "C03_lazy_immediate, C03_lazy_dialer_verdict, C03_lazy_expect_exact, C03_lazy_read_exact, C03_lazy_write_exact, C03_negotiated_failed_sticky, C03_lazy_listener_agreement_refuted (documented pitfall)",
             "V1Lazy cases of the two-ended mode, stream-operation mode, V1Lazy cases of the reference stream in both roles"],
            ["message-based variant for datagram-style transports, all message groupings",
             "C03_webrtc_listener_*, C03_webrtc_dialer_grouping, C03_webrtc_grouping_irrelevant, C03_webrtc_whole_reply_verdict, C03_webrtc_session_agreement, C03_webrtc_grouped_session_spec, C03_webrtc_session_oracle_accepts_model",
             "modes 1, 2 and 4 (webrtc_listener_negotiate, WebRtcDialerState, whole sessions); exhaustive block over every grouping of the reply frames (real listener and scripted legal listener), ground-truth oracles ok2_expect / spec4"],
            ["fallback names", "C03_fallback_*, C03_report_*, C03_substream_fallback_agreement/_listener, C03_sub_oracle_accepts_model",
             "fallback-table mode, end-to-end mode"],
        ],
        "assumptions": [
            "protocol names are valid: start with '/', contain no newline, differ from /multistream/1.0.0, and name+1 <= 16383 bytes (others are run and diffed, but only consistency is demanded)",
            "the carrier is a reliable FIFO byte stream per direction",
            "fair scheduling: both futures keep being polled",
            "timeouts: a dropped stream reads as EOF at the peer once the bytes already written are drained (FIFO carrier); agreement of both sides is only claimed when no timer fires",
        ],
    }
