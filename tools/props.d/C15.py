"""C15 entry of the per-property check configuration (see tools/props.py)."""

ENTRY = {'coq_dir': 'C15',
 'harness': 'c15',
 'cases': {'quick': 1500, 'thorough': 30000},
 'consts': ['REPLICATION_FACTOR', 'PARALLELISM_FACTOR', 'DEFAULT_PEER_TIMEOUT_SECS'],
 'nontrivial_min_trace': 30,
 'rule': 'seven streams against the real QueryEngine: (1) N seeded random networks on <= 8 peers (who knows whom incl. self/local/duplicates, '
         'failing peers, peers answering with the wrong message type, unsolicited and duplicate responses, send notifications, next_peer_action '
         'calls, events after the terminal action) with random reply schedules, one query per engine (find_node / put_record lookup / add_provider '
         'lookup / get_record / get_providers); (1b) N/3 cases with 2-4 CONCURRENT queries (same target key, mixed kinds) in one engine, events '
         'addressed to the right, a wrong or an unknown query id; the query the engine chose to poll (HashMap order) is recorded in the case and '
         'given to the model as an input; (2) 6N (quick) / 10N (thorough) runs of an EXHAUSTIVE enumeration: for random networks on 3-5 peers with '
         '<= 2 contacts each, alpha in {1,2,3}, k in {1,2,20}, every order in which outstanding requests are resolved x every answered/failed choice '
         "(odometer over the environment's choice points; the harness log says how many networks were enumerated completely); (3a) N/5 "
         'FIND_NODE-type cases on a LOGICAL clock (hook verif_age_pending ages the pending requests; peer timeout 1/2/5 units of 1 s + half a unit, '
         'deterministic, a case is retried if it took more than 250 ms of real time) with time advances 0/1/2/3/6 between polls; (3b) N/5 timed '
         'CLOSED-LOOP cases of every kind: per tick poll until idle, deliver what is due (answers, failures, wrong types; 30% of the peers stay '
         'silent for ever; answers of already failed requests are delivered late), advance the clock, fail every request older than tx in {1,3,7} '
         'ticks - the lookup must be over within (tx+1)*n ticks or the trace is invalid; (3c) 8 / 48 wall-clock FIND_NODE cases (20 ms half-ticks, 7 '
         'ms tolerance, late runs discarded and retried). The environment is adaptive, the executed event list is written into the case and replayed '
         'by the extracted model; after every event the returned action and the full state dump of every query (candidates in order, sorted '
         'pending/queried, responses in order, pending_responses, found_records, queued records, found providers, query present?) are compared; '
         "prop_ok re-judges the property text on the implementation's actions alone (per query): never local / never twice / alpha gate / no "
         'deadlock / one terminal, FIND_NODE result = the k closest responders with every closer known peer contacted, quorum honesty of GET_VALUE '
         '(local record counted once), failure only when every learned peer was tried and nothing was obtained, GET_PROVIDERS result = exhaustive '
         'merge; a case is non-trivial when its trace has >= 30 numbers; distinct = distinct (case, trace) pairs',
 'trusted_base': ['SHA-256 XOR distances enter the model as ranks: the harness sorts a pool of 16 random peers by their real distance to the real '
                  'target key and maps case peer i to the pool peer of rank dist[i]; distinct peers are assumed to have distinct distances '
                  '(dist_inj)',
                  'std::time::Instant in FindNodeContext: the bulk of the timed cases runs on a logical clock realised by the hook verif_age_pending '
                  '(subtracts a duration from the stored send instants); the real Instant arithmetic is additionally sampled by the small wall-clock '
                  'stream',
                  'the request timeout that fails an unanswered request lives in executor.rs / mod.rs (READ_TIMEOUT, WRITE_TIMEOUT -> '
                  "register_response_failure; C16's subject); in C15 it is the rule 'a request outstanding for more than T time units is failed' of "
                  'the timed closed loop, emulated by the harness',
                  'several queries in one engine: the order in which QueryEngine::next_action polls its HashMap is an input of the model (the '
                  "implementation's choice is recorded and validated), concurrent queries are exercised untimed and on one shared target key"],
 'level_text': 'Proof: for every seed set, configuration and event history (any interleaving of next_action calls, responses with arbitrary peer '
               'lists, failures) the model keeps candidates/pending/queried pairwise disjoint and free of the local peer, sends to no peer twice and '
               'always to the closest uncontacted peer it knows, keeps at most alpha counting requests in flight (time-monotone histories), emits at '
               'most one terminal action after which nothing happens, resolves every request at most once (late answers ignored), cannot deadlock '
               'with nothing in flight (alpha >= 1). Termination: (a) closed loop under every fair adaptive environment: at most 8n+2 events; (b) in '
               'logical time WITHOUT assuming that anybody answers: with requests failed after T time units and an arbitrary (also silent) network, '
               'exactly one terminal action after at most (T+1)*n time units over n peers. Results: FIND_NODE / PUT_VALUE-lookup / '
               'ADD_PROVIDER-lookup success reports EXACTLY the k closest of all peers that responded (unique list; every other closer learned peer '
               "was contacted and did not respond; interface lemma for C16's send phase); GET_VALUE emits each accepted record exactly once, sends "
               'nothing once the quorum is met and reports success only when the quorum is really met (local record counted once) or everybody was '
               'tried; QueryFailed of any kind only when every learned peer was tried and nothing was obtained (no responder / no record incl. local '
               '/ no provider incl. locally known); GET_PROVIDERS reports after exhausting the learned peers the merge of all accepted and locally '
               'known provider entries: every provider once, strictly distance-sorted, addresses = union. Queries sharing an engine are isolated for '
               'every polling order (frame property, pr is write-before-read, state = own essential events). The model follows the code after the '
               'fixes F-C15a/b/c and is tied to it by the per-event differential run.',
 'level_note': 'Trusted: Coq kernel, ExtrOcamlBasic extraction, harness and hooks; distances enter as ranks (injective); the real Instant arithmetic '
               'is only sampled (the logical clock is a hook); HashMap polling order of a shared engine is an input of the model; the request '
               "timeout itself (executor.rs) is C16's subject and appears here as a rule of the timed loop. Not modelled: the PUT_VALUE / "
               'ADD_PROVIDER sending phases (target_peers.rs, find_many_nodes.rs - C16); C15_lookup_interface states what the lookup phase hands to '
               "them. The engine's own peer timeout never fails a request, it only stops counting it against alpha (so more than alpha requests can "
               'be outstanding, at most alpha of them younger than the timeout).',
 'assumptions': ['the local peer is not among the seed candidates (routing table never stores the local key)',
                 'distinct peers have distinct distances to the target (dist_inj)',
                 'alpha >= 1 for progress and termination; times of next_action calls are non-decreasing for the parallelism bound',
                 'termination (a): fairness of the environment - after next_action returned nothing with a request outstanding, one outstanding '
                 'request is answered or failed before next_action is called again; termination (b): only that time advances and that a request '
                 'outstanding for more than T units is failed (nothing about the peers)',
                 'HashMap/HashSet iteration order is not observable (dumps are sorted; the polled query is an input)']}
