"""C15 entry of the per-property check configuration (see tools/props.py)."""

ENTRY = {'coq_dir': 'C15',
 'harness': 'c15',
 'cases': {'quick': 1500, 'thorough': 30000},
 'consts': ['REPLICATION_FACTOR', 'PARALLELISM_FACTOR', 'DEFAULT_PEER_TIMEOUT_SECS'],
 'nontrivial_min_trace': 30,
 'rule': 'four streams against the real QueryEngine: (1) N seeded random networks on <= 8 peers (who knows whom incl. self/local/duplicates, failing '
         'peers, peers answering with the wrong message type, unsolicited and duplicate responses, send notifications, next_peer_action calls, '
         'events after the terminal action) with random reply schedules, one query per engine (find_node / put_record lookup / add_provider lookup / '
         'get_record / get_providers); (1b) N/3 cases with 2-4 CONCURRENT queries (same target key, mixed kinds) in one engine, events addressed to '
         'the right, a wrong or an unknown query id; the query the engine chose to poll (HashMap order) is recorded in the case and given to the '
         'model as an input; (2) 6N (quick) / 10N (thorough) runs of an EXHAUSTIVE enumeration: for random networks on 3-5 peers with <= 2 contacts '
         'each, alpha in {1,2,3}, k in {1,2,20}, every order in which outstanding requests are resolved x every answered/failed choice (odometer '
         "over the environment's choice points; the harness log says how many networks were enumerated completely); (3) 16 / 96 wall-clock FIND_NODE "
         'cases with the peer timeout shortened to 110 ms through the hook (logical half-ticks of 20 ms, a case is discarded and retried when a call '
         'starts more than 7 ms late). The environment is adaptive, the executed event list is written into the case and replayed by the extracted '
         'model; after every event the returned action and the full state dump of every query (candidates in order, sorted pending/queried, '
         'responses in order, pending_responses, found_records, queued records, found providers, query present?) are compared; prop_ok re-judges the '
         "property text on the implementation's actions alone (per query), including the top-k clause and the provider merge; a case is non-trivial "
         'when its trace has >= 30 numbers; distinct = distinct (case, trace) pairs',
 'trusted_base': ['SHA-256 XOR distances enter the model as ranks: the harness sorts a pool of 16 random peers by their real distance to the real '
                  'target key and maps case peer i to the pool peer of rank dist[i]; distinct peers are assumed to have distinct distances '
                  '(dist_inj)',
                  'std::time::Instant in FindNodeContext: exercised only by the small timed stream (20 ms half-ticks, 7 ms tolerance, late runs '
                  'discarded); all other cases finish far inside the default 10 s timeout',
                  'several queries in one engine: the order in which QueryEngine::next_action polls its HashMap is an input of the model (the '
                  "implementation's choice is recorded and validated), concurrent queries are exercised untimed and on one shared target key"],
 'level_text': 'Proof: for every seed set, configuration and event history (any interleaving of next_action calls, responses with arbitrary peer '
               'lists, failures) the model keeps candidates/pending/queried pairwise disjoint and free of the local peer, sends to no peer twice, '
               'keeps at most alpha counting requests in flight (time-monotone histories), emits at most one terminal action after which nothing '
               'happens, cannot deadlock with nothing in flight (alpha >= 1), and strictly decreases the measure 2*|unvisited|+|pending| on every '
               'send / accepted reply; closed loop: under EVERY fair adaptive environment (each idle period ends by answering or failing an '
               'outstanding request, any order, any content) a lookup over n peers ends after at most 8n+2 events with exactly one terminal action. '
               'FIND_NODE success reports exactly the k closest of all peers that answered (answered, strictly distance-sorted, <= k, every omitted '
               'responder farther than all reported and then k reported), with every known closer peer contacted; GET_VALUE emits each accepted '
               'record exactly once and sends nothing once the quorum is met; GET_PROVIDERS reports the merge of all accepted provider entries, and '
               'the merge lists every provider peer exactly once, strictly sorted by distance, with exactly the union of its reported addresses. '
               'Queries sharing an engine evolve independently (each as if alone on the events that reached it); next_peer_action only serves peers '
               'already contacted and still outstanding. The model follows the code after the F-C15a fix and is tied to it by the per-event '
               'differential run.',
 'level_note': 'Trusted: Coq kernel, ExtrOcamlBasic extraction, harness and hooks; distances enter as ranks (injective); wall-clock timeout '
               'behaviour only sampled; HashMap polling order of a shared engine is an input of the model. Not modelled: the PUT_VALUE / '
               'ADD_PROVIDER sending phases (target_peers.rs, find_many_nodes.rs - they belong to C16). GetRecord double-counts a local record (can '
               'stop before the quorum; not a violation of the text); GetProviders reports QueryFailed when no provider came from the network even '
               'if known_providers is non-empty.',
 'assumptions': ['the local peer is not among the seed candidates (routing table never stores the local key)',
                 'distinct peers have distinct distances to the target (dist_inj)',
                 'alpha >= 1 for progress and termination; times of next_action calls are non-decreasing for the parallelism bound',
                 'fairness of the environment for termination: after next_action returned nothing with a request outstanding, one outstanding '
                 'request is answered or failed before next_action is called again',
                 'HashMap/HashSet iteration order is not observable (dumps are sorted; the polled query is an input)']}
