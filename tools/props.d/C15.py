"""C15 entry of the per-property check configuration (see tools/props.py)."""

ENTRY = {'coq_dir': 'C15',
 'harness': 'c15',
 'cases': {'quick': 1500, 'thorough': 100000},
 'consts': ['REPLICATION_FACTOR', 'PARALLELISM_FACTOR', 'DEFAULT_PEER_TIMEOUT_SECS'],
 'nontrivial_min_trace': 30,
 'rule': 'eight streams against the real QueryEngine: (1) N seeded random networks on <= 8 peers (who knows whom incl. self/local/duplicates, '
         'failing peers, peers answering with the wrong message type, unsolicited and duplicate responses, send notifications, next_peer_action '
         'calls, events after the terminal action) with random reply schedules, one query per engine (find_node / put_record lookup / add_provider '
         'lookup / get_record / get_providers); (1b) N/3 cases with 2-4 CONCURRENT queries (same target key, mixed kinds) in one engine, events '
         'addressed to the right, a wrong or an unknown query id; the query the engine chose to poll (HashMap order) is recorded in the case and '
         'given to the model as an input; (2) 6N (quick) / 10N (thorough) runs of an EXHAUSTIVE enumeration: for random networks on 3-5 peers with '
         '<= 2 contacts each, alpha in {1,2,3}, k in {1,2,20}, every order in which outstanding requests are resolved x every answered/failed choice '
         "(odometer over the environment's choice points; the harness log says how many networks were enumerated completely); (3a) N/5 "
         'FIND_NODE-type cases on a LOGICAL clock (hook verif_age_pending ages the pending requests; peer timeout 1/2/5 units of 1 s + half a unit, '
         'deterministic, a case is retried if it took more than 250 ms of real time) with time advances 0/1/2/3/6 between polls; (3b) N/5 timed '
         'CLOSED-LOOP cases of every kind: per tick poll until idle, deliver what is due (answers, failures, wrong types; 30% of the peers stay '
         'silent for ever; answers of already failed requests are delivered late), advance the clock, fail every request older than tx in {1,3,7} '
         'ticks - the lookup must be over within (tx+1)*n ticks or the trace is invalid; (3c) 8 / 48 wall-clock FIND_NODE cases (20 ms half-ticks, 7 '
         'ms tolerance, late runs discarded and retried). The environment is adaptive, the executed event list is written into the case and replayed '
         'by the extracted model; after every event the returned action and the full state dump of every query (candidates in order, sorted '
         'pending/queried, responses in order, pending_responses, found_records, queued records, found providers, query present?) are compared; '
         "prop_ok re-judges the property text on the implementation's actions alone (per query): never local / never twice / alpha gate / no "
         'deadlock / one terminal, FIND_NODE result = the k closest responders with every closer known peer contacted, quorum honesty of GET_VALUE '
         '(local record counted once), failure only when every learned peer was tried and nothing was obtained, GET_PROVIDERS result = exhaustive '
         'merge; a case is non-trivial when its trace has >= 30 numbers; distinct = distinct (case, trace) pairs; (4) ENGINE stream (cases starting '
         'with 10, harness/src/c15_engine.rs, model coq/C15/Engine.v): the whole QueryEngine over all eight QueryType variants and every entry point '
         '- (4a) the DISPATCH MATRIX, 8 query types x (5 KademliaMessage kinds via register_response + register_response_failure + '
         'register_send_success + register_send_failure + register_peer_failure + next_peer_action) x 3 quorum variants = 240 deterministic '
         'scenarios, each applying the entry point to an open request/target of a live query and again to the finished query, with a bystander '
         'send-phase query that must stay untouched; (4b) N/3 random scenarios: up to 5 queries of random types started at random moments (ids '
         'reused after the end and, rarely, while live), hand-over of a finished PUT_VALUE / ADD_PROVIDER lookup to its send phase under the same id '
         'with the reported peers and quorum, resolutions in random order by every entry point, replies of every message kind, records that never '
         'expire / are expired / expire in the future, caller lists with duplicates and with the local peer, noise for live, finished and unknown '
         'ids, every fourth scenario on the logical clock (peer timeout 1/2/5). The query types, message kinds, action variants and quorum variants '
         'are enumerated from the table tools/gen_c15_dispatch.py extracts from the Rust source on every check (a name the harness has no '
         'constructor for invalidates the stream); all 11 QueryAction variants are decoded and their payload compared (target, key, record, '
         'provider, quorum echoed; the bytes of every SendMessage are decoded: request kind and key); per event the action and the dump of ALL live '
         'queries sorted by id (type tag + lookup state without the write-before-read counter | pending targets, n_succeeded, peers_to_succeed) are '
         'compared; prop_ok judges per query id: lookups by the single-query oracle on the projected events (a reply of a kind the lookup does not '
         'accept counts as a failure, a peer failure as a failure), send phases: terminal only when every target was reported on, success iff '
         'acknowledged sends >= clamped quorum, never idle with nothing open; PutRecordToPeers: finished at its first poll with exactly the given '
         'peers; nothing for an id that is not live',
 'trusted_base': ['SHA-256: distinct peers have distinct keys (the harness asserts that the 16 pool peers have pairwise distinct distances to both '
                  'targets). Everything else about distances is proved: XOR distances of distinct keys are distinct (C15_xor_dist_inj; U256 xor / '
                  'compare = N.lxor / < by C14_distance_compare_u256) and the model depends on the distance function only through the induced order, '
                  'so the ranks the harness ships stand for the real distances (C15_rank_invariance, C15_monotone_rank_ok)',
                  'std::time::Instant in FindNodeContext: the bulk of the timed cases runs on a logical clock realised by the hook verif_age_pending '
                  '(subtracts a duration from the stored send instants); the real Instant arithmetic is additionally sampled by the small wall-clock '
                  'stream',
                  'the request timeout that fails an unanswered request lives in executor.rs / mod.rs (READ_TIMEOUT, WRITE_TIMEOUT -> '
                  "register_response_failure; C16's subject); in C15 it is the rule 'a request outstanding for more than T time units is failed' of "
                  'the timed closed loop, emulated by the harness (discharged on the other side by C16_executor_complete / C16_executor_bounded / '
                  'C16_bounded_time)',
                  'several queries in one engine: the order in which QueryEngine::next_action polls its HashMap is an input of the model (the '
                  "implementation's choice is recorded and validated), concurrent queries are exercised untimed and on one shared target key; the "
                  'engine stream reads the acting query off the action (every QueryAction carries its id) and proves the rest irrelevant '
                  '(C15_eng_frame, C15_query_isolation)',
                  'tools/gen_c15_dispatch.py (regex-level translator of the match arms of query/mod.rs, the enums of message.rs / handle.rs and the '
                  'kad_message constructors): an arm it cannot read is reported as MISSING and fails the check'],
 'level_text': 'Proof: for every seed set, configuration and event history (any interleaving of next_action calls, responses with arbitrary peer '
               'lists, failures) the model keeps candidates/pending/queried pairwise disjoint and free of the local peer, sends to no peer twice and '
               'always to the closest uncontacted peer it knows, keeps at most alpha counting requests in flight (time-monotone histories), emits at '
               'most one terminal action after which nothing happens, resolves every request at most once (late answers ignored), cannot deadlock '
               'with nothing in flight (alpha >= 1). Termination: (a) closed loop under every fair adaptive environment: at most 8n+2 events; (b) in '
               'logical time WITHOUT assuming that anybody answers: with requests failed after T time units and an arbitrary (also silent) network, '
               'exactly one terminal action after at most (T+1)*n time units over n peers. Results: FIND_NODE / PUT_VALUE-lookup / '
               'ADD_PROVIDER-lookup success reports EXACTLY the k closest of all peers that responded (unique list; every other closer learned peer '
               "was contacted and did not respond; interface lemma for C16's send phase); GET_VALUE emits each accepted record exactly once, sends "
               'nothing once the quorum is met and reports success only when the quorum is really met (local record counted once) or everybody was '
               'tried; QueryFailed of any kind only when every learned peer was tried and nothing was obtained (no responder / no record incl. local '
               '/ no provider incl. locally known); GET_PROVIDERS reports after exhausting the learned peers the merge of all accepted and locally '
               'known provider entries: every provider once, strictly distance-sorted, addresses = union. Queries sharing an engine are isolated for '
               'every polling order (frame property, pr is write-before-read, state = own essential events). The model follows the code after the '
               'fixes F-C15a/b/c and is tied to it by the per-event differential run. ENGINE LEVEL (coq/C15/Engine.v, all eight query types, every '
               'entry point, any history from the empty engine incl. restarts of live ids and events for unknown ids): the dispatch functions of the '
               'model are proved equal to the tables extracted from the source (C15_dispatch_in_sync); every lookup entry is exactly a Model.v run '
               'of its recorded events (C15_eng_lookup_is_model), so every single-query theorem holds inside a shared engine; between two starts of '
               'an id at most one terminal action, none for an id that is not live, the id is gone afterwards (C15_eng_one_terminal, '
               '_terminal_removes, _stale_ignored); calls for another query leave a query untouched (C15_eng_frame); every register_peer_failure '
               'resolves the request/target in every query type, every register_response of ANY message kind and every response failure resolves a '
               'lookup request, every send notification resolves a send-phase target (C15_eng_resolves); a lookup accepts exactly the reply kind of '
               'its own request (C15_accepts_lookup) and sends exactly that request, to a peer that is neither local nor already contacted by that '
               'query (C15_eng_send_kind, C15_eng_send_fresh); FindNodeQuerySucceeded / PutRecordToFoundNodes / AddProviderToFoundNodes hand over '
               'the k closest responders of the recorded history with the original quorum, PutRecordToPeers exactly the given peers at its first '
               'poll (C15_eng_handover, C15_eng_to_peers); a send phase yields its one terminal action exactly when every target was reported on, '
               'success iff acknowledged sends >= clamped quorum (C15_eng_send_phase_terminates, _waits). DISTANCES: dist_inj is a theorem for the '
               'XOR metric (C15_xor_dist_inj) and ranks are as good as real distances (C15_rank_invariance).',
 'level_note': 'Trusted: Coq kernel, ExtrOcamlBasic extraction, harness and hooks, the regex-level table translator; SHA-256 gives distinct keys to '
               'distinct peers; the real Instant arithmetic is only sampled (the logical clock is a hook); HashMap polling order of a shared engine '
               'is an input of the model (every order is covered by the isolation / frame theorems); the request timeout itself (executor.rs) is '
               "C16's subject and appears here as a rule of the timed loop. Not modelled in C15: Kademlia::on_query_action (QueryAction -> "
               'KademliaEvent) and the routing-table origin of the seeds - both are modelled and tied in C16 (C16_compose_refines, '
               'C16_seeds_from_table). For the send phases the oracle recomputes the verdict from the notifications with the quorum clamp of '
               "PutToTargetPeersContext::new (min(n, max(len, 1)); len counts duplicates of the caller's list, the target set does not) - the "
               'stronger "success only if the quorum was really sent" is C16_quorum_honest. The engine\'s own peer timeout never fails a request, it '
               'only stops counting it against alpha (so more than alpha requests can be outstanding, at most alpha of them younger than the '
               'timeout).',
 'assumptions': ['the local peer is not among the seed candidates (discharged by composition in C16_seeds_from_table: seeds = RoutingTable::closest, '
                 'C14_no_local)',
                 'distinct peers have distinct SHA-256 keys (then dist_inj holds: C15_xor_dist_inj)',
                 'alpha >= 1 for progress and termination; times of next_action calls are non-decreasing for the parallelism bound',
                 'termination (a): fairness of the environment - after next_action returned nothing with a request outstanding, one outstanding '
                 'request is answered or failed before next_action is called again; termination (b): only that time advances and that a request '
                 'outstanding for more than T units is failed (nothing about the peers)',
                 'HashMap/HashSet iteration order is not observable (dumps are sorted; the polled query is an input)',
                 'engine theorems: none - they quantify over all histories from the empty engine (start of any type with any id, any entry point for '
                 'any id)'],
 'clause_map': [['never contacts the local node',
                 'C15_never_twice_never_local, C15_disjoint, C15_send_closest (p <> local); engine level: C15_eng_send_fresh, C15_eng_send_kind, '
                 'C15_eng_lookup_is_model (every engine send is a fresh Model.v send)',
                 'streams 1-3 (oracle: ASend p with p = local rejected), engine stream 4 (same oracle per query id)'],
                ['never contacts the same peer twice',
                 'C15_never_twice_never_local (NoDup sends), C15_eng_send_fresh (engine level), C15_resolved_once, C15_peer_action (next_peer_action '
                 'only repeats an outstanding request)',
                 'streams 1-4 (oracle: o_sent), seeded/C15 (self-listing responder) caught'],
                ['keeps at most the configured number of fresh unanswered requests in flight',
                 'C15_parallelism, C15_send_gate, C15_pr_irrelevant',
                 'streams 3a/3b/3c + timed engine scenarios (oracle: in_flight < alpha at every send); seeded/C15/c caught'],
                ['terminates with exactly one terminal result for every pattern of replies, failures and reply orderings',
                 'C15_one_terminal, C15_after_terminal, C15_progress, C15_measure, C15_productive_bound, C15_closed_loop, C15_timed_termination, '
                 'C15_fair_env_exists; all query types / every entry point: C15_eng_one_terminal, C15_eng_terminal_removes, C15_eng_stale_ignored, '
                 'C15_eng_resolves, C15_eng_send_phase_terminates, C15_eng_send_phase_waits, C15_eng_to_peers, C15_accepts_lookup, '
                 'C15_dispatch_in_sync; multi-query fair termination of the real loop: C16_fair_terminates',
                 'stream 2 (exhaustive reply orders x answered/failed), 3b (silent peers, (T+1)n bound), 4a dispatch matrix, 4b random engine '
                 'scenarios (oracle: no idle poll with nothing open, nothing after the terminal action, nothing for dead ids)'],
                ['on success the reported peers are peers that answered, sorted by distance to the target and at most the replication factor many',
                 'C15_find_result, C15_find_topk, C15_closest_responsive, C15_kclosest_unique, C15_lookup_interface, C15_eng_handover; distance '
                 'order: C15_rank_invariance, C15_xor_dist_inj',
                 'streams 1, 2, 4 (oracle found_ok on FindNodeQuerySucceeded / PutRecordToFoundNodes / AddProviderToFoundNodes); seeded/C15/b '
                 'caught'],
                ['every peer the lookup learned of that is closer to the target than the furthest reported one has been contacted',
                 'C15_find_result (4th conjunct), C15_closest_responsive, C15_send_closest',
                 'streams 1, 2, 4 (oracle found_ok: o_known vs o_sent); seeded/C15/b caught'],
                ['a value or provider lookup reports each item returned by a peer exactly once',
                 'C15_record_once, C15_providers_result, C15_merge_spec, C15_providers_exhaustive',
                 'streams 1, 2, 4 (oracle: APartial in o_got and not in o_emit; ARecDone needs every got pair emitted; provs_ok)'],
                ['a value lookup stops issuing requests as soon as its quorum is met',
                 'C15_quorum_stop, C15_record_quorum_honest, C15_failed_means_nothing',
                 'streams 1, 2, 4 (oracle: ASend of a KRecord lookup requires needed > known + got); corpus witnesses of F-C15b']]}
