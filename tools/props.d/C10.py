"""Configuration of ./check for C10 (see tools/props.py)."""
ENTRY = {'coq_dir': 'C10',
 'harness': 'c10',
 'cases': {'quick': 330, 'thorough': 2500},
 'consts': ['MAX_ADDRESSES',
            'SCORE_CONNECTION_ESTABLISHED',
            'SCORE_CONNECTION_FAILURE_NEG',
            'SCORE_ADDRESS_FAILURE_NEG',
            'SCORE_PUBLIC_ADDRESS_BONUS',
            'C10_DIAL_ERROR_LEAVES',
            'C10_ERROR_SCORE_ARMS',
            'C10_STORE_SITES',
            'C10_ENTRY_SITES'],
 'rule': 'every run starts with 43 systematic cases: (failure or success path: update_address_on_dial_failure, dial_address + DialFailure event, '
         'dial(peer) + OpenFailure events, dial(peer) + ConnectionOpened with errors, update_address_on_connection_established, dial_address + '
         'ConnectionEstablished) x (score of the address beforehand: untested private 0, untested global +1, established 100, failed -100, banned '
         'i32::MIN, raw +7, raw -7), each over EVERY constructible DialError variant (23 with the harness features: Timeout, 5 AddressError, 2 '
         'DnsError, 15 NegotiationError incl. the 6 ParseError kinds and WebSocket; values built by an exhaustive, wildcard-free table in the '
         'harness) on one stored address per variant, followed by a rediscovery of all addresses and the dial order; plus a saturation case (raw '
         'AddressStore inserts of i32::MIN, MIN+1, -100, -1, 0, 1, 100, MAX-1, MAX on new global and private addresses, then overwritten, failed, '
         'established, rediscovered). Then seeded random cases: a configuration (installed scripted transports tcp/ws, max_outgoing_connections none '
         'or 0..8) and a history of 6-220 (quick) / 50-400 (thorough) operations over <=8 peers on real Multiaddrs built from abstract shapes '
         '(ip4/ip6 of class unspecified/loopback/private/global, dns/dns4/dns6, tcp/udp, ws/wss/quic-v1, right/foreign/missing/duplicate /p2p, '
         'inserted/deleted/swapped/trailing components): register_listen_address (at the start and in between; the stored listen set is dumped), '
         'add_known_address with one or several addresses (evictions included), dial failures of a random kind and established connections through '
         "the manager's update functions, raw AddressStore inserts with scores from the whole i32 range (ends, neighbourhood of the constants, "
         'random), AddressStore::addresses(limit), stateless probes (supported_transport, routing, TCP and WebSocket multiaddr_to_socket_address), '
         'holding 0..8 established outbound connections to other peers, whole TransportManager::dial(peer) episodes on scripted transports (the '
         'address lists handed to the TCP and WebSocket open() are recorded, then either every attempt fails (OpenFailure on each transport) or one '
         'attempt succeeds after the earlier ones on its transport failed (ConnectionOpened with errors, ConnectionEstablished, accept, close); '
         'attempt i fails with kind errs[i mod |errs|] of a random list of kinds), whole TransportManager::dial_address episodes (stored / fresh / '
         'arbitrary shapes / registered listen addresses under the local or another peer id; then a DialFailure event of a random kind or '
         'ConnectionEstablished + accept + close), PublicAddresses add/remove (with, without, foreign peer id, empty); half of the long cases push '
         ">64 distinct addresses into one peer's store. After every operation the result and the full sorted (address, score) dump of the touched "
         "store (listen set / public set) are compared with the extracted Coq model; the implementation's own choices (HashSet insertion order of a "
         'multi-address add, evicted records as logged by AddressStore::insert, order among equal scores, lists given to open()) are inputs that the '
         'model validates. A case is non-trivial when its trace has >= 8 numbers; distinct = distinct (case, trace) pairs',
 'trusted_base': ['abstract multiaddress grammar: IPs are a class (unspecified/loopback/private/global) plus an id; the harness maps classes to real '
                  "ranges (127.1/16, 10.7/16, 8.8/16, ::, ::1, fd00::7:x, 2001:4860::x) so ip_network's is_global and std's "
                  'is_loopback/is_unspecified are exercised, but only on these ranges',
                  'a /p2p component always carries a valid peer id (type Protocol::P2p(PeerId) of multiaddr 0.18)',
                  'the harness is built with litep2p features verif+websocket; quic is compiled out: the QUIC branch of supported_transport / '
                  'dial_address, the QUIC routing, quic::listener::get_socket_address and NegotiationError::Quic(_) are modelled and covered by the '
                  'theorems but not exercised against the code',
                  'tools/gen_c10_errors.py (regex level) reads the variants of DialError and of the enums nested in it from src/error.rs and the '
                  'arms of the match in AddressStore::error_score + the constants of mod scores from address.rs into coq/gen/DialErrors.v (and the '
                  'names into harness/src/gen_c10_errors.rs); the model interprets the arm table, C10_error_variants_in_sync ties constructor '
                  'names/order/feature gates to the source, the harness classifies DialError values with exhaustive wildcard-free matches (a new '
                  'variant stops the build) and checks at start-up that the value it builds for every index path has, by its Debug name, the variant '
                  'name the source has at that path and that every compiled-in variant has a constructor; an arm the translator cannot read (guard, '
                  'binding, nested alternative, block body) is reported as a broken tie',
                  'dial(peer) and dial_address are driven end to end on the in-crate scripted transports (verif.rs); the harness does not call '
                  "dial(peer) when the peer's store holds an address of a transport that is not installed or one that does not name the peer "
                  "(reachable only through ill-formed dial results / raw inserts; the manager would wedge the peer in Opening, which is C05's "
                  'subject) - model and harness apply the same guard; every episode is driven to completion so that the peer is Disconnected again '
                  '(asserted by the harness)',
                  'two cfg(verif) logging statements inside add_known_address and AddressStore::insert record the HashSet iteration order and the '
                  'evicted records (thread-local, add-only)'],
 'level_text': 'Proof: for every configuration, capacity and history (listen addresses registered at any time, additions with any insertion order '
               'and eviction choices, dial failures of every kind, successes, raw inserts, rediscoveries, held connections, whole dial(peer) and '
               "dial_address episodes, public-address changes) each peer's store holds at most MAX_ADDRESSES distinct addresses and every stored "
               'score stays an i32 (the public bonus saturates at both ends); everything add_known_address lets through is unchanged, supported, not '
               'local w.r.t. the listen addresses registered so far and names the peer, and is_local is monotone in the listen set, so every '
               'remembered address is attributable, dialable and not local w.r.t. the listen addresses registered before the history (when '
               'dial_address is only handed acceptable addresses); without that condition every remembered address still names its peer and is '
               'parsed with that peer by the enabled transport it is routed to, because dial_address stores only what passes its own check (free '
               'capacity, not literally a listen address, exact host/tcp[/ws|wss]/p2p or host/udp/quic-v1/p2p shape, transport installed), and both '
               'checks agree on shapes; every address accepted by supported_transport is, over the whole component grammar, parsed by the enabled '
               'transport it is routed to with that peer id and a specified host; eviction happens only at the bound and removes a minimal-score '
               'record not above the newcomer, a newcomer is refused only below the minimum. DialError is modelled variant by variant (26 leaves, '
               'names/order/feature gates proved equal to the ones extracted from src/error.rs) and error_score is the interpretation of the match '
               'arms extracted from address.rs: every failure kind maps to a strictly negative i32 (never mistaken for a rediscovery), AddressError '
               'is the only kind mapped to i32::MIN, the rest to CONNECTION_FAILURE; a failure of any kind / a success on a stored address of any '
               'score re-scores exactly that address (store level and whole-state frame: other peers, listen/public addresses, held connections '
               'untouched); re-adding known addresses changes nothing and, while the additions fit under the bound, no addition of any addresses '
               'changes any recorded score; dial_address on a stored address keeps the record and re-scores exactly it with the result of the dial '
               '(failure of any kind or success), on a new address with room it is remembered with that score; addresses(limit) is a non-increasing '
               'top-min(limit,n) selection and its validator is sound and satisfiable; when dial(peer) tries addresses, the lists given to the '
               'transports merge into a valid addresses(limit) selection with limit = max_outgoing_connections minus established outbound '
               'connections (everything when unlimited), each address goes to the installed transport it is routed to, and the outcome re-scores '
               'exactly the attempts made (each failed one to the score of its error kind, established score for the one that connected); public '
               'addresses always end in /p2p/<local> (add/remove specified), the listen set holds each address with and without /p2p/<local>. The '
               "places where the manager writes into a peer's store (five, extracted from src/transport/manager/*.rs) are proved to be exactly the "
               "ones the model's operations cover. The model is tied to handle.rs/address.rs/mod.rs/limits.rs/listener.rs/addresses.rs/error.rs by a "
               'per-operation differential run with store dumps that drives every constructible DialError variant through every failure path on '
               'addresses of every score class.',
 'level_note': 'Trusted: Coq kernel, ExtrOcamlBasic extraction, harness and hooks (incl. the scripted transport), the regex translators; IP '
               'classification only on the mapped ranges; QUIC paths and NegotiationError::Quic proved on the model but not diffed (feature off); '
               'dial(peer) is not called on stores it could wedge on (guard, see trusted base). Observation (not judged a violation: dial_address is '
               'an explicit dial request, not an address offer): dial_address remembers addresses that add_known_address would refuse - unspecified '
               'hosts (/ip4/0.0.0.0/...) and loopback / same-port aliases of a listen address under another peer id; the trace oracle demands for '
               "them only attribution, an enabled transport's parser and not-literally-a-listen-address (witness in corpus/C10/kinds.case). The "
               "oracle judges scores by sign (failure < 0, success > 0 and equal to CONNECTION_ESTABLISHED); exact values are the model's business "
               '(diff).',
 'assumptions': ['dial results reported by transports outside dial(peer)/dial_address episodes and raw inserts concern addresses that were '
                 'acceptable for that peer (taken from the store) - needed only for attribution of stored addresses, not for the bound or the i32 '
                 'range',
                 'the strong attribution/not-local statement assumes dial_address is handed addresses that add_known_address would accept for the '
                 'peer they name; the weak one (names the peer, parsed by the enabled transport) needs no such assumption',
                 'not-local is claimed with respect to the listen addresses registered before an address was offered (an address remembered earlier '
                 'is not re-checked by the code when a listen address is registered later)',
                 'HashMap/HashSet iteration order only influences the insertion order of one add_known_address call, the choice among minimal '
                 'records and the order of equal scores (validated, not assumed)',
                 'usize: lengths are unbounded naturals; i32 scores are modelled as Z with saturation written out and proved to stay in range'],
 'aux_stream': {'tiers': ['quick', 'thorough'],
                'features': 'quic,rsa',
                'target_dir': 'target-quic',
                'args': '',
                'cases': {'quick': 110, 'thorough': 1200},
                'corpus': 'corpus/C10-aux'},
 'coq_deps': ['C14']}
