"""Configuration of ./check for C10 (see tools/props.py)."""
ENTRY = {'coq_dir': 'C10',
 'harness': 'c10',
 'cases': {'quick': 300, 'thorough': 2500},
 'consts': ['MAX_ADDRESSES',
            'SCORE_CONNECTION_ESTABLISHED',
            'SCORE_CONNECTION_FAILURE_NEG',
            'SCORE_ADDRESS_FAILURE_NEG',
            'SCORE_PUBLIC_ADDRESS_BONUS'],
 'rule': 'seeded random cases: a configuration (enabled transports tcp/ws, 0-3 listen addresses incl. 0.0.0.0/::/loopback) and a history '
         'of 6-220 (quick) / 50-400 (thorough) operations over <=8 peers on real Multiaddrs built from abstract shapes (ip4/ip6 of class '
         'unspecified/loopback/private/global, dns/dns4/dns6, tcp/udp, ws/wss/quic-v1, right/foreign/missing/duplicate /p2p, '
         'inserted/deleted/swapped/trailing components): add_known_address with one or several addresses, dial failures (connection and '
         "address errors) and established connections through the manager's update functions, addresses(limit) as used by dial(peer), and "
         'stateless probes (supported_transport, routing, TCP and WebSocket multiaddr_to_socket_address); half of the long cases push >64 '
         "distinct addresses into one peer's store. After every operation the result and the full sorted (address, score) dump of the "
         "touched store are compared with the extracted Coq model; the implementation's own choices (evicted record, order among equal "
         'scores) are inputs that the model validates. A case is non-trivial when its trace has >= 8 numbers; distinct = distinct (case, '
         'trace) pairs',
 'trusted_base': ['abstract multiaddress grammar: IPs are a class (unspecified/loopback/private/global) plus an id; the harness maps '
                  "classes to real ranges (127.1/16, 10.7/16, 8.8/16, ::, ::1, fd00::7:x, 2001:4860::x) so ip_network's is_global and "
                  "std's is_loopback/is_unspecified are exercised, but only on these ranges",
                  'a /p2p component always carries a valid peer id (type Protocol::P2p(PeerId) of multiaddr 0.18)',
                  'the harness is built with litep2p features verif+websocket; quic is compiled out: the QUIC branch of '
                  'supported_transport, the QUIC routing and quic::listener::get_socket_address are modelled and covered by the theorems '
                  'but not exercised against the code',
                  'dial(peer) itself is not driven: its address selection AddressStore::addresses(limit) and its routing function '
                  'supported_transports_addresses are called through hooks; limit = free outbound capacity comes from ConnectionLimits '
                  '(C06) and is an input here'],
 'level_text': 'Proof: for every configuration, capacity and history (additions, dial failures/successes, rediscoveries, any eviction '
               "choices) each peer's store holds at most MAX_ADDRESSES distinct addresses; everything add_known_address lets through is "
               'unchanged, supported, not local and names the peer; every address accepted by supported_transport is, over the whole '
               'component grammar, parsed by the enabled transport it is routed to with that peer id and a specified host; eviction '
               'happens only at the bound and removes a minimal-score record not above the newcomer, a newcomer is refused only below the '
               'minimum; dial results re-score exactly the address used; re-adding known addresses changes nothing; addresses(limit) is a '
               "non-increasing top-min(limit,n) selection, and the validator applied to the implementation's observed selection is proved "
               'sound and satisfiable. The model is tied to handle.rs/address.rs/mod.rs/listener.rs by a per-operation differential run '
               'with store dumps.',
 'level_note': 'Trusted: Coq kernel, ExtrOcamlBasic extraction, harness and hooks; IP classification only on the mapped ranges; QUIC paths '
               'proved on the model but not diffed (feature off); dial(peer) not driven end to end (selection and routing functions are); '
               'listen addresses are fixed during a history.',
 'assumptions': ['dial results reported by transports concern addresses that were acceptable for that peer (taken from the store) - needed '
                 'only for attribution of stored addresses, not for the bound',
                 'listen addresses do not change during a history',
                 'HashMap iteration order only influences the choice among minimal records and the order of equal scores (validated, not '
                 'assumed)',
                 'usize/i32: scores saturate as i32 (modelled); lengths are unbounded naturals']}
