"""Configuration of ./check for C10 (see tools/props.py)."""
ENTRY = {'coq_dir': 'C10',
 'harness': 'c10',
 'cases': {'quick': 300, 'thorough': 2500},
 'consts': ['MAX_ADDRESSES',
            'SCORE_CONNECTION_ESTABLISHED',
            'SCORE_CONNECTION_FAILURE_NEG',
            'SCORE_ADDRESS_FAILURE_NEG',
            'SCORE_PUBLIC_ADDRESS_BONUS'],
 'rule': 'seeded random cases: a configuration (installed scripted transports tcp/ws, max_outgoing_connections none or 0..8) and a history of 6-220 '
         '(quick) / 50-400 (thorough) operations over <=8 peers on real Multiaddrs built from abstract shapes (ip4/ip6 of class '
         'unspecified/loopback/private/global, dns/dns4/dns6, tcp/udp, ws/wss/quic-v1, right/foreign/missing/duplicate /p2p, '
         'inserted/deleted/swapped/trailing components): register_listen_address (at the start and in between), add_known_address with one or '
         "several addresses (evictions included), dial failures (connection and address errors) and established connections through the manager's "
         'update functions, AddressStore::addresses(limit), stateless probes (supported_transport, routing, TCP and WebSocket '
         'multiaddr_to_socket_address), holding 0..8 established outbound connections to other peers, and whole TransportManager::dial(peer) '
         'episodes on scripted transports: the address lists handed to the TCP and WebSocket open() are recorded, then either every attempt times '
         'out (OpenFailure on each transport) or one attempt succeeds after the earlier ones on its transport timed out (ConnectionOpened with '
         "errors, ConnectionEstablished, accept, close); half of the long cases push >64 distinct addresses into one peer's store. After every "
         'operation the result and the full sorted (address, score) dump of the touched store are compared with the extracted Coq model; the '
         "implementation's own choices (HashSet insertion order of a multi-address add, evicted records as logged by AddressStore::insert, order "
         'among equal scores, lists given to open()) are inputs that the model validates. A case is non-trivial when its trace has >= 8 numbers; '
         'distinct = distinct (case, trace) pairs',
 'trusted_base': ['abstract multiaddress grammar: IPs are a class (unspecified/loopback/private/global) plus an id; the harness maps classes to real '
                  "ranges (127.1/16, 10.7/16, 8.8/16, ::, ::1, fd00::7:x, 2001:4860::x) so ip_network's is_global and std's "
                  'is_loopback/is_unspecified are exercised, but only on these ranges',
                  'a /p2p component always carries a valid peer id (type Protocol::P2p(PeerId) of multiaddr 0.18)',
                  'the harness is built with litep2p features verif+websocket; quic is compiled out: the QUIC branch of supported_transport, the '
                  'QUIC routing and quic::listener::get_socket_address are modelled and covered by the theorems but not exercised against the code',
                  "dial(peer) is driven end to end on the in-crate scripted transports (verif.rs); the harness does not call it when the peer's "
                  'store holds an address of a transport that is not installed or one that does not name the peer (reachable only through ill-formed '
                  "dial results; the manager would wedge the peer in Opening, which is C05's subject) - model and harness apply the same guard; "
                  'every episode is driven to completion so that the peer is Disconnected again (asserted by the harness)',
                  'two cfg(verif) logging statements inside add_known_address and AddressStore::insert record the HashSet iteration order and the '
                  'evicted records (thread-local, add-only)'],
 'level_text': 'Proof: for every configuration, capacity and history (listen addresses registered at any time, additions with any insertion order '
               "and eviction choices, dial failures/successes, rediscoveries, held connections, whole dial(peer) episodes) each peer's store holds "
               'at most MAX_ADDRESSES distinct addresses; everything add_known_address lets through is unchanged, supported, not local w.r.t. the '
               'listen addresses registered so far and names the peer, and is_local is monotone in the listen set, so every remembered address is '
               'attributable, dialable and not local w.r.t. the listen addresses registered before the history; every address accepted by '
               'supported_transport is, over the whole component grammar, parsed by the enabled transport it is routed to with that peer id and a '
               'specified host; eviction happens only at the bound and removes a minimal-score record not above the newcomer, a newcomer is refused '
               'only below the minimum; dial results re-score exactly the address used; re-adding known addresses changes nothing; addresses(limit) '
               'is a non-increasing top-min(limit,n) selection and its validator is sound and satisfiable; when dial(peer) tries addresses, the '
               'lists given to the transports merge into a valid addresses(limit) selection with limit = max_outgoing_connections minus established '
               'outbound connections (everything when unlimited), each address goes to the installed transport it is routed to, and the outcome '
               're-scores exactly the attempts made (failure score for timed-out ones, established score for the one that connected). The model is '
               'tied to handle.rs/address.rs/mod.rs/limits.rs/listener.rs by a per-operation differential run with store dumps.',
 'level_note': 'Trusted: Coq kernel, ExtrOcamlBasic extraction, harness and hooks (incl. the scripted transport); IP classification only on the '
               'mapped ranges; QUIC paths proved on the model but not diffed (feature off); dial(peer) is not called on stores it could wedge on '
               '(guard, see trusted base); addresses stored through dial_address are outside the model.',
 'assumptions': ['dial results reported by transports outside dial(peer) episodes concern addresses that were acceptable for that peer (taken from '
                 'the store) - needed only for attribution of stored addresses, not for the bound',
                 'not-local is claimed with respect to the listen addresses registered before an address was offered (an address remembered earlier '
                 'is not re-checked by the code when a listen address is registered later)',
                 'HashMap/HashSet iteration order only influences the insertion order of one add_known_address call, the choice among minimal '
                 'records and the order of equal scores (validated, not assumed)',
                 'usize/i32: scores saturate as i32 (modelled); lengths are unbounded naturals']}
