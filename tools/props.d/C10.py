"""Configuration of ./check for C10 (see tools/props.py)."""
ENTRY = {'coq_dir': 'C10',
 'harness': 'c10',
 'cases': {'quick': 372, 'thorough': 2242},
 'consts': ['MAX_ADDRESSES',
            'SCORE_CONNECTION_ESTABLISHED',
            'SCORE_CONNECTION_FAILURE_NEG',
            'SCORE_ADDRESS_FAILURE_NEG',
            'SCORE_PUBLIC_ADDRESS_BONUS',
            'C10_DIAL_ERROR_LEAVES',
            'C10_ERROR_SCORE_ARMS',
            'C10_STORE_SITES',
            'C10_ENTRY_SITES'],
 'rule': 'Main stream (harness built with verif+websocket). Every run starts with 43 systematic cases: (failure or success path: '
         'update_address_on_dial_failure, dial_address + DialFailure event, dial(peer) + OpenFailure events, dial(peer) + ConnectionOpened with '
         'errors, update_address_on_connection_established, dial_address + ConnectionEstablished) x (score of the address beforehand: untested '
         'private 0, untested global +1, established 100, failed -100, banned i32::MIN, raw +7, raw -7), each over EVERY constructible DialError '
         'variant (23 in this build: Timeout, 5 AddressError, 2 DnsError, 15 NegotiationError incl. the 6 ParseError kinds and WebSocket; values '
         'built by an exhaustive, wildcard-free table in the harness) on one stored address per variant, followed by a rediscovery of all addresses '
         'and the dial order; plus a saturation case (raw AddressStore inserts of i32::MIN, MIN+1, -100, -1, 0, 1, 100, MAX-1, MAX on new global and '
         'private addresses, then overwritten, failed, established, rediscovered). Then 42 mixed-outcome cases (6 orders of the reports of the transports x the 7 prior scores): peer 1 has one address per DialError kind on EVERY installed transport (23 TCP + 23 WebSocket; 21 per transport in the QUIC build), one dial(peer) whose selection spans all of them; order 0: every other transport reports OpenFailure for all of its addresses (attempt i failing with kind codes[(i+shift) mod n], so every kind occurs), THEN WebSocket reports ConnectionOpened on its first address and the connection is established; 1: WebSocket opens first, the OpenFailure of the others arrives afterwards; 2/3: the same with TCP connecting; 4: one transport fails before and one after a ConnectionOpened that carries the errors of three earlier attempts; 5: every transport fails; then addresses(limit), a second dial in which everything fails, a rediscovery. Then 4 IP-classification cases: the node listens on '
         '/ip4/0.0.0.0/tcp/30 and, for ~1270 concrete addresses (first, last and neighbouring addresses of every range std / ip_network 0.4.1 treat '
         'specially: 0/8, 10/8, 100.64/10, 127/8, 169.254/16, 172.16/12, 192.0.0/24 with the two global exceptions, 192.0.2/24, 192.168/16, '
         '198.18/15, 198.51.100/24, 203.0.113/24, 224/4, 240/4, broadcast; two addresses of every /8; for IPv6 the neighbourhood of :: and ::1, '
         'fc00::/7, fe80::/10, fec0::/10, 2001:db8::/32, every multicast scope under four flag values, two addresses for every value of the first '
         'byte), supported_transport / routing / the parsers on /b/tcp/30/p2p/<p> and add_known_address of it (count 0 exactly for unspecified and '
         'loopback b, stored score = the public bonus exactly for global b). Then seeded random cases: a configuration (installed scripted '
         'transports tcp/ws, max_outgoing_connections none or 0..8) and a history of 6-220 (quick) / 50-400 (thorough) operations over <=8 peers on '
         'real Multiaddrs built from abstract shapes (ip4/ip6 of class unspecified/loopback/private/global in mapped ranges or - one host in eight - '
         'a concrete boundary / random address, dns/dns4/dns6, tcp/udp with ports 0..65535, ws/wss/quic-v1, right/foreign/missing/duplicate /p2p, '
         'inserted/deleted/swapped/trailing components): register_listen_address (at the start and in between; the stored listen set is dumped), '
         "add_known_address on the manager's handle and (a quarter) through a protocol's real TransportService (half of those without the trailing "
         'peer id), with one or several addresses (evictions included), dial failures of a random kind and established connections through the '
         "manager's update functions, raw AddressStore inserts with scores from the whole i32 range, AddressStore::addresses(limit), stateless "
         'probes, holding 0..8 established outbound connections to other peers, whole TransportManager::dial(peer) episodes on scripted transports '
         "(the address lists handed to each transport's open() are recorded, then either every attempt fails or one attempt succeeds after the "
         'earlier ones on its transport failed while each other transport of the selection - a base-3 digit of outcome / n - stays silent, reports OpenFailure for all its addresses before the ConnectionOpened event or after it; attempt i fails with kind errs[i mod |errs|]), whole TransportManager::dial_address episodes (stored '
         '/ fresh / arbitrary shapes / registered listen addresses under the local or another peer id; then a DialFailure event of a random kind, '
         "ConnectionEstablished + accept + close, or - one in eight - the transport's dial() returning an error), PublicAddresses add/remove; half "
         "of the long cases push >64 distinct addresses into one peer's store. Every 8th random case runs at the level of Litep2p: Litep2p::new with "
         "real TCP / WebSocket listeners on loopback addresses (free ports are probed, the case's abstract ports are translated) and "
         'Litep2pConfig::known_addresses (own listen addresses under other peer ids, loopback aliases on the listen ports, fresh and arbitrary '
         'addresses; a quarter configure >64 addresses for one peer), then Litep2p::add_known_address calls (returned counts); the calls made inside '
         "new() are observed one by one through the hooks' logs. Second stream `aux` (both tiers; harness built with litep2p's quic feature, "
         'corpus/C10-aux): the same generators with a scripted QUIC transport installed in 3 of 4 cases: QUIC addresses in every operation, a third '
         'list in dial(peer), QuicListener::get_socket_address in every probe, the 3 QuicError kinds in every sweep (26 kinds). After every '
         'operation the result and the full sorted (address, score) dump of the touched store (listen set / public set) are compared with the '
         "extracted Coq model; the implementation's own choices (HashSet insertion order of a multi-address add, evicted records as logged by "
         'AddressStore::insert, order among equal scores, lists given to open()) are inputs that the model validates. A case is non-trivial when its '
         'trace has >= 8 numbers; distinct = distinct (case, trace) pairs',
 'trusted_base': ['abstract multiaddress grammar: an IP component is a class (unspecified/loopback/private/global) plus an identifier. For the '
                  'mapped ranges (0.0.0.0, 127.1/16, 10.7/16, 8.8/16, ::, ::1, fd00::7:x, 2001:4860::x) the class is part of the wire code and '
                  'C10_mapped_ranges proves it is the class of the address; for concrete addresses (IPv4: any; IPv6: s0:s1:0:..:val:..:0) the class '
                  "is computed by coq/C10/IpClass.v, a hand transcription of std's is_unspecified / is_loopback and of ip_network 0.4.1's is_global "
                  '(version pinned by C10_ip_network_version; tied by the boundary sweep, not by extraction from the third-party source)',
                  'a /p2p component always carries a valid peer id (type Protocol::P2p(PeerId) of multiaddr 0.18); DNS names are h<id>.example.org; '
                  "/ws and /wss carry the path '/' only",
                  'tools/gen_c10_errors.py (regex level) reads the variants of DialError and of the enums nested in it from src/error.rs, the arms '
                  'of the match in AddressStore::error_score + the constants of mod scores from address.rs, the address-store write sites of '
                  'src/transport/manager/*.rs, every call of add_known_address / dial_address in src/**/*.rs, the order of register_listen_address / '
                  'add_known_address calls in Litep2p::new and the ip_network version of Cargo.lock into coq/gen/DialErrors.v (and the names into '
                  'harness/src/gen_c10_errors.rs); the model interprets the arm table, C10_error_variants_in_sync / C10_store_sites_in_sync / '
                  'C10_entry_sites_in_sync tie the tables to the model, the harness classifies DialError values with exhaustive wildcard-free '
                  'matches and checks at start-up that the value it builds for every index path has, by its Debug name, the variant name the source '
                  'has at that path and that every compiled-in variant has a constructor; an arm the translator cannot read is reported as a broken '
                  'tie',
                  'dial(peer) and dial_address are driven end to end on the in-crate scripted transports (verif.rs); the harness does not call '
                  "dial(peer) when the peer's store holds an address of a transport that is not installed or one that does not name the peer "
                  "(reachable only through ill-formed dial results / raw inserts; the manager would wedge the peer in Opening, which is C05's "
                  'subject) - model and harness apply the same guard; every episode is driven to completion so that the peer is Disconnected again '
                  '(asserted by the harness); Transport::open returning an error is not produced',
                  'cfg(verif) logging statements inside add_known_address (insertion order; per call: accepted count and eviction-log mark) and '
                  'AddressStore::insert (evicted records) (thread-local, add-only); Litep2p::verif_transport_manager; transport::quic::verif '
                  '(re-export of the QUIC address parser, a value of every QuicError variant)',
                  'Litep2p-level cases bind real loopback sockets (127.1.x.y) on ports probed at run time and retry with other ports when '
                  'Litep2p::new fails; the abstract ports of the case are translated both ways'],
 'level_text': 'Proof: for every configuration, capacity and history (listen addresses registered at any time, additions through the handle, a '
               "protocol's TransportService or Litep2p with any insertion order and eviction choices, dial failures of every kind, successes, raw "
               'inserts, rediscoveries, held connections, whole dial(peer) and dial_address episodes incl. a transport that refuses to start the '
               "dial, public-address changes) each peer's store holds at most MAX_ADDRESSES distinct addresses and every stored score stays an i32 "
               '(the public bonus saturates at both ends). Everything add_known_address lets through is unchanged, supported, not local w.r.t. the '
               'listen addresses registered so far and names the peer; through TransportService it is an offered address that names the peer or an '
               'offered address without a peer id with the id appended (C10_service_offer_filter); at Litep2p level (new() registers the listen '
               'addresses, then adds the configured known addresses, then Litep2p::add_known_address) every remembered address is supported, '
               "attributable, dialable and not local w.r.t. the node's listen addresses, with no assumption (C10_litep2p_level). is_local is "
               'monotone in the listen set, so every remembered address is attributable, dialable and not local w.r.t. the listen addresses '
               'registered before the history when dial_address is only handed acceptable addresses; without any condition on what dial_address is '
               'handed every remembered address names its peer, is parsed with that peer by the enabled transport it is routed to and - since the '
               "repair of dial_address - is not one of the node's own listen addresses under whatever peer id (C10_remembered_not_own_listen; for "
               'histories of API calls and complete episodes nothing is assumed at all: C10_api_histories), because dial_address stores only what '
               'passes its own check (free capacity, not a listen address literally or with the /p2p suffix taken off, exact host/tcp[/ws|wss]/p2p '
               'or host/udp/quic-v1/p2p shape, transport installed), and both checks agree on shapes; every address accepted by supported_transport '
               'is, over the whole component grammar, parsed by the enabled transport it is routed to with that peer id and a specified host. '
               "Concrete IP addresses: std's is_unspecified / is_loopback and ip_network's is_global are transcribed range by range and proved to be "
               "functions of the model's four classes (unspecified and loopback addresses are never global), so supported_transport, the public "
               "bonus and is_local_address's socket comparison on concrete addresses are what the model computes (C10_ip_classes_exact, "
               'C10_ip_predicates_concrete, C10_mapped_ranges). Eviction happens only at the bound and removes a minimal-score record not above the '
               'newcomer, a newcomer is refused only below the minimum. DialError is modelled variant by variant (26 leaves, names/order/feature '
               'gates proved equal to the ones extracted from src/error.rs) and error_score is the interpretation of the match arms extracted from '
               'address.rs: every failure kind maps to a strictly negative i32, AddressError is the only kind mapped to i32::MIN, the rest to '
               'CONNECTION_FAILURE; a failure of any kind / a success on a stored address of any score re-scores exactly that address (store level '
               'and whole-state frame); re-adding known addresses changes nothing and, while the additions fit under the bound, no addition changes '
               'any recorded score; dial_address on a stored address keeps the record and re-scores exactly it with the result of the dial, on a new '
               'address with room it is remembered with that score, and when the transport refuses to start the dial a stored address keeps its '
               'score and a new one is remembered as untested; addresses(limit) is a non-increasing top-min(limit,n) selection and its validator is '
               'sound and satisfiable; when dial(peer) tries addresses, the lists given to the TCP / WebSocket / QUIC transports merge into a valid '
               'addresses(limit) selection with limit = max_outgoing_connections minus established outbound connections (everything when unlimited), '
               'each address goes to the installed transport it is routed to, and the outcome re-scores exactly the attempts made - also when the selection spans several transports and some of them report OpenFailure before or after the ConnectionOpened of another one: every address reported failed carries the score of its error kind, the opened address the established score, nothing else changes (C10_dial_mixed_outcome, C10_dial_outcome_is_mixed); public addresses '
               'always end in /p2p/<local>, the listen set holds each address with and without /p2p/<local>. The five places where the manager '
               "writes into a peer's store and the ten places of the crate where an address is offered to the book (none in identify.rs / mdns.rs) "
               'are extracted from the source and proved to be the ones the model covers. KademliaPeer.address_store as modelled by C14 is proved an '
               'instance of this store (C10_kad_*). The model is tied to handle.rs/address.rs/mod.rs/limits.rs/listener.rs/quic '
               'listener/addresses.rs/error.rs/transport_service.rs/lib.rs by a per-operation differential run with store dumps in two harness '
               'builds (websocket; websocket+quic) that drives every DialError variant through every failure path on addresses of every score class.',
 'level_note': 'Trusted: Coq kernel, ExtrOcamlBasic extraction, harness and hooks (incl. the scripted transport), the regex translators; the '
               "transcription of ip_network 0.4.1's ranges (tied by the boundary sweep and the version pin only); dial(peer) is not called on stores "
               "it could wedge on (guard, see trusted base); peer_state.rs transitions and TransportManagerHandle::dial are C05's. Two defects of "
               "the unchanged code were found against the property text and repaired in the repo: F-C10a (dial_address remembered the node's own "
               'listen address under another peer id) and F-C10b (Litep2p::new filtered the configured known addresses against an empty listen set). '
               "Decision on dial_address: it is covered by 'an address offered for a peer is remembered only if' (the address book is one, the "
               "crate's own documentation lists dial_address among the ways addresses are learned); what remains an observation, not a violation: "
               'dial_address also remembers unspecified hosts (/ip4/0.0.0.0/...) and loopback / same-port aliases of a listen address - the text '
               "demands 'not one of the node's own listen addresses' (identity modulo the peer id, now enforced on both paths) and 'can be parsed "
               "and dialed by an enabled transport' (the transport's parser accepts them and the dial is attempted); add_known_address's alias "
               'heuristic and unspecified-host refusal go beyond the text (witness corpus/C10/kinds.case). The oracle judges scores by sign (failure '
               "< 0, success > 0 and equal to CONNECTION_ESTABLISHED); exact values are the model's business (diff).",
 'assumptions': ['C10_remembered_acceptable only: dial results reported by transports outside dial(peer)/dial_address episodes, raw inserts and the '
                 'addresses handed to dial_address concern addresses acceptable for that peer; C10_remembered_not_own_listen needs this only of the '
                 'raw dial results / raw inserts, C10_api_histories and C10_litep2p_level need nothing',
                 'not-local is claimed with respect to the listen addresses registered before an address was offered (an address remembered earlier '
                 "is not re-checked when a listen address is registered later); at Litep2p level the transports' listen addresses are registered "
                 'before anything is offered',
                 'HashMap/HashSet iteration order only influences the insertion order of one add_known_address call, the choice among minimal '
                 'records and the order of equal scores (validated, not assumed)',
                 'usize: lengths are unbounded naturals; i32 scores are modelled as Z with saturation written out and proved to stay in range',
                 "C10_kad_*: the sum of the inserted score and the public bonus is an i32 (C14's model adds the bonus without saturation; it uses 0 "
                 'and +-100)'],
 'aux_stream': {'tiers': ['quick', 'thorough'],
                'features': 'quic,rsa',
                'target_dir': 'target-quic',
                'args': '',
                'cases': {'quick': 152, 'thorough': 942},
                'corpus': 'corpus/C10-aux'},
 'coq_deps': ['C14'],
 'clause_map': [['an address offered for a peer is remembered only if it names that peer',
                 'C10_offer_filter, C10_remembered_dialable, C10_remembered_not_own_listen, C10_api_histories, C10_litep2p_level, '
                 'C10_dial_address_filter',
                 'main: ops 0/13/10/15 with right/foreign/missing/duplicate /p2p, store dump after every op; oracle add_ok / dial_ok_weak (names)'],
                ['(or no peer, in which case the id is appended)',
                 'C10_service_offer_filter (TransportService appends), C10_offer_filter (handle: an address without /p2p is not supported)',
                 'main: op 13 on the real TransportService, half of the offers without peer id'],
                ["is not one of the node's own listen addresses",
                 'C10_offer_filter (is_local = false), C10_listen_monotone, C10_listen_set, C10_remembered_not_own_listen, C10_api_histories, '
                 'C10_litep2p_level, C10_dial_address_filter, C10_entry_sites_in_sync (order in Litep2p::new), C10_ip_predicates_concrete (socket '
                 'comparison on concrete IPs)',
                 'main: listen ops + own listen addresses under local/other peer ids through ops 0/13/10/15 (corpus own_listen.case); Litep2p-level '
                 'cases with real listeners (corpus lp.case); IP sweep (loopback aliases of 0.0.0.0:30)'],
                ['can be parsed and dialed by an enabled transport',
                 'C10_accept_implies_dialable, C10_remembered_acceptable, C10_remembered_dialable, C10_supported_implies_dial_address, '
                 'C10_dial_tries (each address to the installed transport it is routed to)',
                 'main + aux: probe op (supported_transport, routing, TCP / WebSocket / QUIC parsers), lists handed to open() per transport; oracle '
                 'dial_ok / OProbe / ODial route checks'],
                ['the addresses remembered per peer never exceed the fixed bound',
                 'C10_bound, C10_bound_default, C10_step_preserves, C10_scores_in_i32, C10_saturation',
                 'main: fill cases (>64 addresses, also inside Litep2p::new); oracle store_ok on every dump'],
                ['when the bound is reached the lowest-scored address is the one displaced',
                 'C10_evict_min, C10_drop_only_below_min, C10_insert_frame, C10_choice_resolvable, C10_kad_evict_min',
                 'main: evicted records logged by AddressStore::insert are model inputs (validated); oracle kept_or_min / count_gone <= count_new'],
                ['dial successes and failures re-score exactly the address used',
                 'C10_rescore_exact, C10_failure_rescores_any_kind, C10_dial_failure_step, C10_established_step, C10_dial_address_known_step, '
                 'C10_dial_address_new_step, C10_dial_address_refused_step, C10_dial_all_fail, C10_dial_success, C10_dial_mixed_outcome, C10_dial_outcome_is_mixed, C10_dial_first_transport_failure_counts, C10_error_score_negative, '
                 'C10_address_error_only_banned, C10_error_score_table, C10_success_score_positive, C10_error_variants_in_sync, '
                 'C10_error_kinds_enumerated, C10_store_sites_in_sync, C10_kad_rescore_exact',
                 'main + aux: 43-case sweep (6 paths x 7 prior scores x every DialError kind; 26 kinds in aux) and 42-case mixed-outcome block (6 orders of OpenFailure / ConnectionOpened across transports x 7 prior scores x every kind); oracle rescore_ok / outcome_ok (every address reported failed in an OpenFailure of any transport or in ConnectionOpened.errors strictly negative, the opened address at CONNECTION_ESTABLISHED, the rest unchanged)'],
                ['and are not erased by later rediscovery',
                 'C10_rediscovery_keeps, C10_additions_keep_scores, C10_insert_frame',
                 'main: every sweep case ends with a rediscovery of all addresses; oracle add_ok (kept_or_min)'],
                ['a dial by peer id tries addresses in non-increasing score order',
                 'C10_dial_order, C10_dial_order_validator_sound, C10_dial_order_validator_complete, C10_dial_tries',
                 'main + aux: op 3 (addresses(limit)) and dial episodes; oracle addresses_ok on the merged lists, nonincreasing per list'],
                ['limited by free outbound capacity',
                 'C10_free_capacity, C10_dial_tries',
                 'main: op 6 holds 0..8 outbound connections under max_outgoing_connections none/0..8; oracle free_capacity'],
                ['for all multiaddress shapes (ip4/ip6/dns variants, ..., unspecified and loopback IPs, trailing components)',
                 'all of the above are stated over the whole component grammar; C10_ip_classes_exact, C10_mapped_ranges, C10_ip_network_version for '
                 'concrete IPs',
                 'main: shape generator + IP boundary sweep'],
                ['public / listen address bookkeeping used by the filter',
                 'C10_public_addresses_local, C10_public_add, C10_public_remove, C10_listen_set',
                 'main: ops 5/11/12 with dumps'],
                ['the same store type inside the Kademlia routing table',
                 'C10_kad_embedding, C10_kad_store_is_instance, C10_kad_addresses_is_instance, C10_kad_evict_min, C10_kad_rescore_exact',
                 "C14's own harness (coq/C14/AddrModel.v is diffed there)"]]}
