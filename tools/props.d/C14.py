"""Configuration of ./check for C14 (see tools/props.py)."""
ENTRY = {'coq_dir': 'C14',
 'harness': 'c14',
 'cases': {'quick': 300, 'thorough': 3000},
 'consts': ['NUM_BUCKETS',
            'K_BUCKET',
            'MAX_ADDRESSES',
            'C19_KAD_MAX_ADDRESSES',
            'SCORE_CONNECTION_ESTABLISHED',
            'SCORE_CONNECTION_FAILURE_NEG',
            'SCORE_PUBLIC_ADDRESS_BONUS'],
 'nontrivial_min_trace': 12,
 'rule': 'two seeded random streams against the real code, 2/3 table API and 1/3 Kademlia event loop, after the stored corpus cases (witnesses of '
         "F-C14a/b/c and the shape 'full bucket of connected peers, dial failure of the only address, newcomer' on both streams). Stream A (real "
         'RoutingTable, 256 buckets; operations carry explicit address numbers: with/without the /p2p suffix, private/public IP): (i) random '
         'histories: a local key (all-zero, all-one or random), 3-5 groups of 4-30 keys crafted into one bucket each (buckets 0, 1, 2-7, 254, 255 '
         'and random ones; raw key bytes through the verif_from_raw hook), scattered keys, in 30% of the long cases 10-60 SHA-256 keys of real peer '
         'ids (driven through the real add_known_peer / KBucketEntry::insert), 20-150 (quick) / 20-400 (thorough) operations concentrated on the '
         'groups so that buckets overflow: entry, insert, add_known_peer with every ConnectionType and with/without addresses, '
         'on_connection_established (dialer/listener), on_dial_failure, closest(target, k) for targets in uniformly drawn bucket indices, at '
         'distance 1..63 and 1..63 << 250, stored keys and the local key, k in {0,1,3,20,25,1000}, and the raw visiting order of ClosestBucketsIter; '
         '(ii) pressure cases (3 of 12): one bucket (5..255; 25% with real peer ids in bucket 255) is filled with 20 peers that are told to be '
         'connected (85%; two thirds inbound, i.e. without a scored address), then 10-45 operations on them — dial failures naming exactly the '
         'stored addresses / one of them / none / others, re-mentions with each ConnectionType, inserts, entry(), reconnects, disconnects, '
         'addresses() — then 1-5 newcomers of the same bucket (add / insert with every ConnectionType) interleaved with further dial failures; (iii) '
         'address cases (1 of 12): 1-5 peers, pools of 40-200 address numbers, add_known_peer with up to 45 and insert with up to 70 addresses, dial '
         'failures of up to 30, dialer connections, addresses() queries: the 64-record stores overflow (evicted record observed through the '
         'verif_log hook and validated by the model) and addresses() cuts at 32; (iv) extreme cases: distances 1, 2, 3, 2^255, 2^255+1, 2^256-1, '
         '2^248, 2^255-1, the local key under a second index and repeated keys, as peers and as targets; (v) four fixed-shape cases per run store '
         'all 63 six-bit distance patterns (shifted by 0, 123, 250 bits) and query all 64 patterns. Stream B (the REAL Kademlia::run loop polled by '
         'hand on a real TransportService, hooks of C16 plus a routing-table snapshot in the probe): peer ids are mined so that 21-30 of them fall '
         'into each of 2-3 buckets among 255..248 of the local SHA-256 key, replication factor k in {1,3,5,20,25}, 12% of the cases in '
         'RoutingTableUpdateMode::Manual; 30-140 (quick) / 40-300 (thorough) events: AddKnownPeer commands, connections established (outbound or '
         'inbound; with and without pending dials), a SECOND connection to a connected peer, one of two connections closed (primary or secondary), '
         'all connections closed, inbound FIND_NODE / GET_VALUE / GET_PROVIDERS requests whose reply bytes are captured from the substream carrier '
         'and decoded, inbound substreams that fail (disconnect_peer with the connection still open), dial failures (60% naming the stored '
         '/p2p-suffixed address), find_node queries whose outbound substreams are answered with FIND_NODE replies naming 1-26 peers (incl. the local '
         'peer, the responder, address-less peers) so that update_routing_table runs, put_record_to_peers (bare entry()). What the query engine '
         "decides (PeerContexts created, pending dials, RoutingTableUpdate events) is observed and written into the case as the step's model "
         'operations. In both streams, after every operation/step the outcome code resp. PeerContext set and the full content of every bucket that '
         'changed (stream A: key, has-address, connection and the whole address store with scores; stream B: key, has-address, connection) are '
         'compared with the extracted Coq model, closest results / replies / addresses() and visiting orders are compared element by element, and '
         'the final table is dumped. The oracle prop_ok judges each trace on its own: bucket bound, placement, uniqueness, has-address = store '
         'non-empty, closest = exactly the k closest addressed stored peers in strictly increasing distance, and GROUND-TRUTH connectedness — the '
         "set of peers that were told connected while stored and not disconnected since (Model.gt_step on the observed tables, not the table's flag) "
         'must each still be stored in the bucket of its distance after every operation. The first 40 cases are short so that the in-Coq vm_compute '
         'cross-check of the extraction can evaluate them. A case is non-trivial when its trace has >= 12 numbers; distinct = distinct (case, trace) '
         'pairs',
 'trusted_base': ['SHA-256 is not modelled (keys are 256-bit strings: 8 limbs on the wire, MSB-first bit lists in Coq); the U256 arithmetic of '
                  'types.rs (xor, leading zeros / ilog2, integer comparison, bit test, from_big_endian of the bytes) is modelled in coq/C14/U256.v '
                  'and proved equal to the list-of-bits operations; that the `uint` crate implements these integer operations is exercised by the '
                  'differential run',
                  'stream A: keys with chosen bytes cannot go through add_known_peer / KBucketEntry::insert (both recompute the key from the peer '
                  'id): for those the harness calls the real RoutingTable::entry and writes the returned slot exactly as these two functions do '
                  '(verif_overwrite / push_addresses + verif_set_connection hooks, incl. the rule that nothing overwrites Connected); SHA-256 keys '
                  'of real peer ids and all of stream B use the real functions. The table part of Kademlia::disconnect_peer (Occupied entry := '
                  'NotConnected) is transcribed in stream A and driven for real in stream B',
                  'stream B: the decisions of the query engine are inputs of the model that the harness reads off the implementation (probe snapshot '
                  'of `peers` / `pending_dials`, RoutingTableUpdate events); that the protocol hears of a connection only when the first one opens '
                  'and the last one closes is the behaviour of the real TransportService (properties C08/C09), which the stream drives, not a model '
                  'assumption',
                  'multiaddresses are numbers in the model (number, /p2p suffix present or not, private/public); HashMap-order dependent choices of '
                  'AddressStore (evicted minimal record, order of equal scores in addresses()) are observed and validated by the model, not '
                  'predicted',
                  'the dummy peer pushed by KBucket::entry carries a random PeerId; it is modelled as a node with the empty key and is assumed never '
                  'to equal a looked-up key (probability 2^-256)'],
 'level_text': 'Proof: for keys of any length L and any bucket size K, every table reachable by any history of table operations (entry / insert / '
               'add_known_peer / on_connection_established / on_dial_failure / disconnect) and every table reachable by any history of the Kademlia '
               'glue operations of mod.rs that write it (AddKnownPeer and bootstrap, on_connection_established, disconnect_peer, PeerContext '
               'creation, update_routing_table with arbitrary replies, on_dial_failure, bare entry(); a glue history is proved to BE the table '
               'history kflat) has L buckets of at most K nodes, every stored peer sits in the bucket given by the highest set bit of its XOR '
               'distance to the local key (so the local key is never stored; index undefined iff same key; top-bit difference -> last bucket), no '
               'peer is stored twice. Connectedness is judged by GROUND TRUTH, a ghost function of the history (`ghost`: a Connected claim — '
               'on_connection_established on a stored peer, add_known_peer(.., Connected) that left it stored, insert(.., Connected) through a '
               "Vacant slot — with no later disconnect; proved equal to 'the last connection-related operation was such a claim'): every ghost "
               'member is stored in its bucket with an entry that says Connected (C14_gt_connected_stored), stays a member and stays stored under '
               'every continuation without its disconnect — dial failures, re-mentions with any connection type, newcomers to its full bucket '
               '(C14_gt_connected_kept; same for glue histories, C14_kad_gt_*), and is returned by closest() unless k closer addressed peers fill '
               'the result. A key disappears from a bucket only when a NEW key of that bucket is stored, the bucket is full, and the displaced node '
               'is the first replaceable one (C14_displaced_only_for_room); a full bucket without a replaceable node rejects '
               '(C14_full_bucket_rejects). ClosestBucketsIter is modelled as the four-state machine of the code: it terminates, visits every bucket, '
               'and its order is the distance-sorted permutation of all buckets with at most one extra visit of bucket 0; closest(target, k) — and '
               'therefore every FIND_NODE / GET_VALUE / GET_PROVIDERS reply — is the first k elements of a strictly distance-increasing permutation '
               'of all stored peers with an address (sorted, duplicate-free, exactly the min(k, n) closest, never the local node) for all tables, '
               'targets and k outside the class of finding F-C14a; distances never tie. The address stores inside the entries are modelled '
               '(AddrModel.v: insert with capacity 64, public bonus, eviction of a minimal record, score updates; addresses() = best 32 by score): '
               'the table part of the rich run is Model.step, has-address = store non-empty is an invariant of all histories, stores stay <= 64 '
               'without duplicates, a dial failure re-scores exactly the failed address, a re-mention does not erase a score. The U256 arithmetic is '
               'proved equal to the bit-list model. REFUTED and recorded: duplicate-free inside the F-C14a class (upstream pins the double visit: '
               'reported, not repaired); before the repairs a Connected entry was downgraded by a mention (F-C14b: NotConnected; F-C14c: '
               'CanConnect/CannotConnect -> displaced by the next newcomer; C14_remention_displaces_refuted_before_fix), both fixed in the repo and '
               'pinned by corpus witnesses.',
 'level_note': 'Trusted: Coq kernel, ExtrOcamlBasic extraction, harness and hooks; SHA-256; in stream A crafted keys are written through the Vacant '
               'slot by the harness (mirroring add_known_peer / insert). Ground truth is what the table was TOLD while it held the peer: a '
               'connection established to a peer the table does not store leaves no trace (on_connection_established only updates an Occupied '
               'entry), so a peer that connects first and is learned later from a reply of a third peer — without a PeerContext — is stored '
               'NotConnected and is replaceable although its connection is open; disconnect_peer also runs on a failed substream while the '
               "connection is still open (by design of mod.rs). Both are the crate's notion of 'connected' (Kademlia-level, not transport-level) and "
               'are outside the statement; the theorems are stated relative to on_connection_established / disconnect_peer. Closing one of two '
               'connections to a peer does not reach Kademlia at all (the real TransportService reports only the last close; exercised in stream B). '
               'The reply handlers do not remove the requester from the reply (C14_reply_may_contain_requester; not demanded by the property) and '
               'closest() has no exclude parameter. Nothing in the crate ever writes CanConnect/CannotConnect into the table; peers are never '
               'removed from the table. In Manual update mode update_routing_table writes nothing (stream B: no table change on RoutingTableUpdate). '
               'Address order among equal scores and the evicted record among equal minima depend on HashMap order and are validated, not predicted.',
 'assumptions': ['all keys have the same length as the local key (256 bits in the code) — needed for placement/closest, not for the ground-truth '
                 'theorems',
                 "a dummy's random PeerId never hashes to a key that is looked up later",
                 'closest() / replies: the table is outside the F-C14a class, i.e. bucket 0 holds no addressed peer or bit 0 of '
                 'distance(local,target) is clear and target != local; inside the class the duplicate is a recorded finding',
                 'connectedness = told to the table while the peer is stored (on_connection_established / Connected claims) until disconnect_peer',
                 'address scores stay within 0, +-100 and the public bonus (the only values routing_table.rs writes), so i32 saturation never '
                 'applies']}
