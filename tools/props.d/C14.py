"""Configuration of ./check for C14 (see tools/props.py)."""
ENTRY = {'coq_dir': 'C14',
 'harness': 'c14',
 'cases': {'quick': 300, 'thorough': 3000},
 'consts': ['NUM_BUCKETS', 'K_BUCKET'],
 'nontrivial_min_trace': 12,
 'rule': 'seeded random cases against the real RoutingTable (256 buckets): a local key (all-zero, all-one or random), 3-5 groups of 4-30 '
         'keys crafted into one bucket each (buckets 0, 1, 2-7, 254, 255 and random ones; raw key bytes through the verif_from_raw hook), '
         'scattered keys, in 30% of the long cases 10-60 SHA-256 keys of real peer ids (driven through the real add_known_peer / '
         'KBucketEntry::insert), and a history of 20-150 (quick) / 20-400 (thorough) operations concentrated on the groups so that buckets '
         'overflow: entry, insert through the entry, add_known_peer with every ConnectionType and with/without addresses, '
         'on_connection_established (dialer/listener), on_dial_failure, closest(target, k) for targets in uniformly drawn bucket indices, '
         'targets at distance 1..63 and 1..63 << 250, stored keys and the local key, k in {0,1,3,20,25,1000}, and the raw bucket visiting '
         'order of ClosestBucketsIter. After every table operation the outcome code and the full content (key, has-address, connection) of '
         'every bucket that changed are compared with the extracted Coq model, closest results and visiting orders are compared element by '
         'element, and the final table is dumped. Four fixed-shape cases per run store all 63 six-bit distance patterns (shifted by 0, '
         '123, 250 bits) and query all 64 patterns as targets. The first 40 cases are short so that the in-Coq vm_compute cross-check of '
         'the extraction can evaluate them. A case is non-trivial when its trace has >= 12 numbers; distinct = distinct (case, trace) '
         'pairs',
 'trusted_base': ['SHA-256 and U256 arithmetic are not modelled: keys are 256-bit strings (8 limbs on the wire, MSB-first bit lists in '
                  'Coq); XOR, leading-zero count and comparison of the real U256 code are exercised by the differential run only',
                  'keys with chosen bytes cannot go through add_known_peer / KBucketEntry::insert (both recompute the key from the peer '
                  'id): for those the harness calls the real RoutingTable::entry and writes the returned slot exactly as these two '
                  'functions do (verif_overwrite / push_addresses + verif_set_connection hooks); SHA-256 keys of real peer ids use the '
                  'real functions',
                  'the dummy peer pushed by KBucket::entry carries a random PeerId; it is modelled as a node with the empty key and is '
                  'assumed never to equal a looked-up key (probability 2^-256)'],
 'level_text': 'Proof: for keys of any length L and any bucket size K, every table reachable by any history of entry / insert / '
               'add_known_peer / on_connection_established / on_dial_failure operations has L buckets of at most K nodes, every stored '
               'peer sits in the bucket given by the highest set bit of its XOR distance to the local key (so the local key is never '
               'stored), no peer is stored twice, and a Connected/CanConnect peer is never displaced by an operation on another key; the '
               'invariant is inductive from any state. ClosestBucketsIter is modelled as the four-state machine of the code: it '
               'terminates, visits every bucket, and its order is the distance-sorted permutation of all buckets with at most one extra '
               'visit of bucket 0; closest(target, k) is proved to be the first k elements of a strictly distance-increasing permutation '
               'of all stored peers with an address (hence sorted, duplicate-free, exactly the min(k, n) closest) for all tables, targets '
               'and k outside the class of finding F-C14a. The duplicate-free conjunct is REFUTED inside that class (bit 0 of '
               'distance(local,target) set or target = local, and bucket 0 holds an addressed peer): theorems C14_iter_once_refuted / '
               'C14_closest_nodup_refuted, reproduced on the real code by corpus/C14/f_c14a_bucket0_twice.case and recorded in '
               'KNOWN_FINDINGS.txt (upstream pins the double visit in a unit test, so it is reported, not repaired).',
 'level_note': 'Trusted: Coq kernel, ExtrOcamlBasic extraction, harness and hooks; U256/SHA-256 arithmetic only through the differential '
               'run; crafted keys are written through the Vacant slot by the harness (mirroring add_known_peer / insert); the address '
               'store is abstracted to non-empty/empty; the model filters address-less peers before the stable sort where the code sorts '
               'first; removal of peers (none exists in routing_table.rs) and the ConnectionType downgrade done by kademlia/mod.rs on '
               'disconnect are outside the model.',
 'assumptions': ['all keys have the same length as the local key (256 bits in the code)',
                 "a dummy's random PeerId never hashes to a key that is looked up later",
                 'AddressStore::insert never leaves a store empty (checked by the has-address flag in every bucket dump)',
                 'closest(): the table is outside the F-C14a class, i.e. bucket 0 holds no addressed peer or bit 0 of '
                 'distance(local,target) is clear and target != local; inside the class the duplicate is a recorded finding']}
