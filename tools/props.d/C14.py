"""Configuration of ./check for C14 (see tools/props.py)."""
ENTRY = {'coq_dir': 'C14',
 'harness': 'c14',
 'cases': {'quick': 300, 'thorough': 3000},
 'consts': ['NUM_BUCKETS', 'K_BUCKET', 'MAX_ADDRESSES', 'C19_KAD_MAX_ADDRESSES', 'SCORE_CONNECTION_ESTABLISHED',
            'SCORE_CONNECTION_FAILURE_NEG', 'SCORE_PUBLIC_ADDRESS_BONUS'],
 'nontrivial_min_trace': 12,
 'rule': 'two seeded random streams against the real code, 2/3 table API and 1/3 Kademlia event loop. Stream A (real RoutingTable, 256 '
         'buckets): a local key (all-zero, all-one or random), 3-5 groups of 4-30 keys crafted into one bucket each (buckets 0, 1, 2-7, '
         '254, 255 and random ones; raw key bytes through the verif_from_raw hook), scattered keys, in 30% of the long cases 10-60 SHA-256 '
         'keys of real peer ids (driven through the real add_known_peer / KBucketEntry::insert), and a history of 20-150 (quick) / 20-400 '
         '(thorough) operations concentrated on the groups so that buckets overflow: entry, insert through the entry, add_known_peer with '
         'every ConnectionType and with/without addresses, on_connection_established (dialer/listener), on_dial_failure, closest(target, '
         'k) for targets in uniformly drawn bucket indices, targets at distance 1..63 and 1..63 << 250, stored keys and the local key, k '
         'in {0,1,3,20,25,1000}, and the raw bucket visiting order of ClosestBucketsIter; four fixed-shape cases per run store all 63 '
         'six-bit distance patterns (shifted by 0, 123, 250 bits) and query all 64 patterns as targets. Stream B (the REAL Kademlia::run '
         'loop polled by hand on a real TransportService, hooks of C16 plus a routing-table snapshot in the probe): peer ids are mined so '
         'that 21-30 of them fall into each of 2-3 buckets among 255..248 of the local SHA-256 key (buckets overflow), replication factor '
         'k in {1,3,5,20,25}; 30-140 (quick) / 40-300 (thorough) events: AddKnownPeer commands, connections established (with and without '
         "pending dials; the transport manager's belief is forced so that dials are accepted) and closed, inbound FIND_NODE / GET_VALUE / "
         'GET_PROVIDERS requests whose reply bytes are captured from the substream carrier and decoded, inbound substreams that fail '
         '(disconnect_peer with the connection still open), dial failures, find_node queries whose outbound substreams are answered with '
         'FIND_NODE replies naming 1-26 peers (incl. the local peer, the responder, address-less peers) so that update_routing_table runs, '
         'put_record_to_peers (bare entry()). What the query engine decides (PeerContexts created, pending dials, peers a reply led '
         "update_routing_table to see: RoutingTableUpdate events) is observed and written into the case as the step's list of model "
         'operations. In both streams, after every operation/step the outcome code resp. PeerContext set and the full content (key, '
         'has-address, connection) of every bucket that changed are compared with the extracted Coq model, closest results / replies and '
         'visiting orders are compared element by element, and the final table is dumped. The first 40 cases are short so that the in-Coq '
         'vm_compute cross-check of the extraction can evaluate them. A case is non-trivial when its trace has >= 12 numbers; distinct = '
         'distinct (case, trace) pairs',
 'trusted_base': ['SHA-256 is not modelled (keys are 256-bit strings: 8 limbs on the wire, MSB-first bit lists in Coq); the U256 '
                  'arithmetic of types.rs (xor, leading zeros / ilog2, integer comparison, bit test, from_big_endian of the bytes) is '
                  'modelled in coq/C14/U256.v and proved equal to the list-of-bits operations (C14_index_is_ilog2_xor, '
                  'C14_distance_compare_u256, C14_bit_is_testbit, C14_bytes_distance_compare); that the `uint` crate implements these '
                  'integer operations is exercised by the differential run',
                  'stream A: keys with chosen bytes cannot go through add_known_peer / KBucketEntry::insert (both recompute the key from '
                  'the peer id): for those the harness calls the real RoutingTable::entry and writes the returned slot exactly as these '
                  'two functions do (verif_overwrite / push_addresses + verif_set_connection hooks, incl. the '
                  'Connected-is-not-overwritten-by-NotConnected rule); SHA-256 keys of real peer ids and all of stream B use the real '
                  'functions',
                  'stream B: the decisions of the query engine are inputs of the model that the harness reads off the implementation '
                  '(probe snapshot of `peers` / `pending_dials`, RoutingTableUpdate events); the model checks that table and PeerContext '
                  'set evolve consistently with them',
                  'the dummy peer pushed by KBucket::entry carries a random PeerId; it is modelled as a node with the empty key and is '
                  'assumed never to equal a looked-up key (probability 2^-256)'],
 'level_text': 'Proof: for keys of any length L and any bucket size K, every table reachable by any history of table operations (entry / '
               'insert / add_known_peer / on_connection_established / on_dial_failure / disconnect) and every table reachable by any '
               'history of the Kademlia glue operations of mod.rs that write it (AddKnownPeer and bootstrap, on_connection_established, '
               'disconnect_peer, PeerContext creation, update_routing_table with arbitrary replies, on_dial_failure, bare entry()) has L '
               'buckets of at most K nodes, every stored peer sits in the bucket given by the highest set bit of its XOR distance to the '
               'local key (so the local key is never stored), no peer is stored twice, a Connected/CanConnect peer is never displaced by '
               'an operation that does not name it, and an entry that says Connected keeps saying so under every glue operation except '
               'disconnect_peer for that very peer (after the repair of F-C14b; refuted for the code before it). ClosestBucketsIter is '
               'modelled as the four-state machine of the code: it terminates, visits every bucket, and its order is the distance-sorted '
               'permutation of all buckets with at most one extra visit of bucket 0; closest(target, k) — and therefore every FIND_NODE / '
               'GET_VALUE / GET_PROVIDERS reply, which sends it verbatim — is proved to be the first k elements of a strictly '
               'distance-increasing permutation of all stored peers with an address (sorted, duplicate-free, exactly the min(k, n) '
               'closest, never the local node, at most k) for all tables, targets and k outside the class of finding F-C14a. Sorting '
               'before or after dropping address-less peers is proved equivalent; the U256 arithmetic is proved equal to the bit-list '
               'model. The duplicate-free conjunct is REFUTED inside the F-C14a class (bit 0 of distance(local,target) set or target = '
               'local, and bucket 0 holds an addressed peer): C14_iter_once_refuted / C14_closest_nodup_refuted, reproduced on the real '
               'code by corpus/C14/f_c14a_bucket0_twice.case and recorded in KNOWN_FINDINGS.txt (upstream pins the double visit in a unit '
               'test, so it is reported, not repaired).',
 'level_note': 'Trusted: Coq kernel, ExtrOcamlBasic extraction, harness and hooks; SHA-256; in stream A crafted keys are written through '
               'the Vacant slot by the harness (mirroring add_known_peer / insert); the address store is abstracted to non-empty/empty; '
               "the query engine's choices enter stream B as observed inputs. The reply handlers do not remove the requester from the "
               'reply (C14_reply_may_contain_requester; not demanded by the property). disconnect_peer also runs on a failed substream '
               'while the connection is still open — by design of mod.rs; the theorem is therefore stated relative to disconnect_peer, not '
               'to the transport connection. Nothing in the crate ever writes CanConnect/CannotConnect into the table (no dial-failure '
               'downgrade exists); peers are never removed from the table.',
 'assumptions': ['all keys have the same length as the local key (256 bits in the code)',
                 "a dummy's random PeerId never hashes to a key that is looked up later",
                 'AddressStore::insert never leaves a store empty (checked by the has-address flag in every bucket dump)',
                 'closest() / replies: the table is outside the F-C14a class, i.e. bucket 0 holds no addressed peer or bit 0 of '
                 'distance(local,target) is clear and target != local; inside the class the duplicate is a recorded finding',
                 'routing-table update mode Automatic (in Manual mode update_routing_table writes nothing)']}
