"""Configuration of ./check for C20 (see tools/props.py)."""
ENTRY = {'coq_dir': 'C20',
 'harness': 'c20',
 'cases': {'quick': 4000, 'thorough': 40000},
 'consts': ['BITSWAP_MAX_MESSAGE_SIZE', 'BITSWAP_MAX_BATCH_SIZE', 'BITSWAP_EMPTY_MESSAGE_SIZE'],
 'nontrivial_min_trace': 6,
 'rule': 'three seeded case streams, mixed 50/46/4: (1) receiving — 1-6 (thorough 1-12) payload entries per case, prefixes built from '
         'versions {0,1,2,3,127,128,2^64-1}, codecs {raw,dag-pb,...,2^64-1}, all 12 compiled-in hash functions plus 8 unsupported codes, '
         'multihash lengths around the u8 limit, then byte-level mutations (truncation, trailing bytes, non-minimal and ten-byte varints, '
         'bit flips, empty prefix); payloads of 0 B-70 KB (1 MiB thorough) from a pool of 40 ids so that one prefix meets different data; '
         'the real block_to_response result (CID fields, digest bytes, payload identity) is compared with the model fed with digests the '
         'harness computed itself; (2) sending — queues of 0-60 (thorough 0-300) blocks with CID shapes giving 4-23 byte prefixes, data '
         'lengths around the limits and the varint length boundaries, limits drawn from {0..2^40} and in 4% of the cases the shipped '
         'limits with MiB-sized blocks; every batch of the real extract_next_batch, the encoded length of the real blocks_message and its '
         're-decoded (prefix bytes, data) entries are compared with the model; (3) end to end — two litep2p nodes over TCP loopback, the '
         'real send_response on one side and on_message_received on the other with the shipped limits: the blocks of every '
         "BitswapEvent::Response are compared with the model's messages; non-trivial = trace of >= 6 numbers; distinct = distinct (case, "
         'trace) pairs',
 'trusted_base': ['hash functions are abstract in the theorems (a function code -> data -> option digest); in the runs the digests are '
                  "computed by the harness with multihash-codetable's Code::digest, outside block_to_response",
                  'the crates unsigned-varint, cid, multihash, prost are modelled by hand (varint codec, CIDv0 rules, 64-byte limit, '
                  'protobuf length arithmetic) and diffed on the generated inputs only',
                  'usize arithmetic is treated as unbounded',
                  'the substream, codec and transport under send_response are exercised only by the end-to-end stream (TCP loopback), they '
                  'are not modelled'],
 'level_text': 'Proof: for every prefix byte string, payload and family of hash functions the block delivered by block_to_response is the '
               "received payload paired with the CID recomputed from it (digest under the prefix's hash code, prefix's version and codec); "
               'malformed, trailing-byte, unsupported-version/length and uncomputable prefixes are dropped and honest blocks are accepted '
               '(varint/prefix codec round trip proved). For every queue, size mix and pair of limits the messages written by '
               'send_response are non-empty, within the data limit and the encoded-size limit, and concatenated they are exactly the '
               'blocks that fit a message, once and in order; the loop terminates; with the shipped constants a block fits iff its data is '
               '<= MAX_BATCH_SIZE. The model is tied to bitswap/mod.rs by per-block, per-batch and per-message differential runs and an '
               'end-to-end run.',
 'level_note': 'Holds for the tree with the `fix:` commit (F-C20a: batches were bounded by data bytes only, so many tiny blocks made one '
               'over-long message that was dropped whole; C20_payload_bound_insufficient proves the old bound cannot work, the witness in '
               'corpus/C20 must now pass). Trusted: Coq kernel, extraction, harness and hooks; hash functions abstract; presences '
               '(presences_message is never split) and wantlist requests are not modelled.',
 'assumptions': ['no usize overflow in the size sums',
                 'the receiving peer in the end-to-end stream is litep2p itself',
                 'block presences are outside the property (they are sent in one unsplit message)']}
