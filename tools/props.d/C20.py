"""Configuration of ./check for C20 (see tools/props.py)."""
ENTRY = {'coq_dir': 'C20',
 'harness': 'c20',
 'cases': {'quick': 4000, 'thorough': 40000},
 'consts': ['BITSWAP_MAX_MESSAGE_SIZE', 'BITSWAP_MAX_BATCH_SIZE', 'BITSWAP_EMPTY_MESSAGE_SIZE'],
 'nontrivial_min_trace': 6,
 'rule': 'five seeded case streams, mixed 35/30/4/23/8: (1) receiving — 1-6 (thorough 1-12) payload entries per case, prefixes built from '
         'versions {0,1,2,3,127,128,2^64-1}, codecs {raw,dag-pb,...,2^64-1}, all 12 compiled-in hash functions plus 8 unsupported codes, '
         'multihash lengths around the u8 limit, then byte-level mutations (truncation, trailing bytes, non-minimal and ten-byte varints, '
         'bit flips, empty prefix); payloads of 0 B-70 KB (1 MiB thorough) from a pool of 40 ids so that one prefix meets different data; '
         'the real block_to_response result (CID fields, digest bytes, payload identity) is compared with the model fed with digests the '
         'harness computed itself; (2) sending — queues of 0-60 (thorough 0-300) blocks with CID shapes giving 4-23 byte prefixes, data '
         'lengths around the limits and the varint length boundaries, limits drawn from {0..2^40} and in 4% of the cases the shipped '
         'limits with MiB-sized blocks; every batch of the real extract_next_batch, the encoded length of the real blocks_message and its '
         're-decoded (prefix bytes, data) entries are compared with the model; (3) end to end — two litep2p nodes over TCP loopback, the '
         'real send_response on one side and on_message_received on the other with the shipped limits: the blocks of every '
         "BitswapEvent::Response are compared with the model's messages; (4) the real Bitswap::run event loop polled by hand on a "
         'harness-fed TransportService with three connected peers and in-memory substreams, 3-20 (thorough 3-40) operations per case: '
         'inbound substreams opened and replaced; frames encoded by a protobuf writer of the harness carrying wantlists (valid CIDv0/v1 '
         'with supported and unsupported hash codes, truncated/overlong/non-minimal/garbled CID bytes, trailing bytes, cancel and '
         'sendDontHave flags, want types {0,1,2,5,-1}), payload entries as in stream 1 and presences (types {0,1,2,-1}), delivered whole '
         'or in two pieces; substreams ended by a frame that is not protobuf, a frame cut anywhere then closed, an oversize or malformed '
         'length prefix, a clean close or a reset; BitswapHandle::send_request / send_response (presences and blocks mixed, 4 B-2 MiB+1) '
         'queued, written to substreams that take everything, stall after a byte budget (the paused tokio clock is advanced past '
         'WRITE_TIMEOUT), fail after a byte budget or cannot be opened; after every operation the BitswapEvents and every byte written '
         '(complete frames decoded again with the crate\'s prost schema: wantlist entries, presences, block prefixes and data, message '
         'lengths; and the length of an incomplete frame) are compared with the model; (5) presence batching — 0-60 (thorough 0-300) '
         'presences with limits {0..2^40}: every batch of the real extract_next_presence_batch, the length of the real presences_message '
         'and its decoded entries; non-trivial = trace of >= 6 numbers; distinct = distinct (case, trace) pairs',
 'trusted_base': ['hash functions are abstract in the theorems (a function code -> data -> option digest); in the runs the digests are '
                  "computed by the harness with multihash-codetable's Code::digest (and with Python's hashlib for the stored corpus), "
                  'outside block_to_response',
                  'the crates unsigned-varint, cid, multihash, prost are modelled by hand (varint codec, Cid::to_bytes/read_bytes, CIDv0 '
                  'rules, 64-byte limit, protobuf length arithmetic) and diffed on the generated inputs only',
                  'usize arithmetic is treated as unbounded',
                  'the event loop is observed through its events and the bytes it writes; its maps (pending_outbound, outbound, inbound) '
                  'are modelled for connected peers only: dialing, connection close and open_substream failures of the service are not',
                  'tokio (paused clock, select!), the TransportService and the unsigned-varint framing of Substream are exercised, not '
                  'modelled: an inbound substream is a sequence of decodable frames ended by one bad item',
                  'the TCP/noise/yamux stack under the end-to-end stream is not modelled'],
 'level_text': 'Proof: for every prefix byte string, payload and family of hash functions the block delivered by block_to_response is the '
               "received payload paired with the CID recomputed from it (digest under the prefix's hash code, prefix's version and codec); "
               'malformed, trailing-byte, unsupported-version/length and uncomputable prefixes are dropped and honest blocks are accepted '
               '(varint, prefix and CID byte codecs round trip). For every session (any requests, any peers, any number and order of '
               'messages) every block handed to the user hashes to its CID; an inbound substream delivers the events of its complete '
               'decodable frames and nothing from whatever ends it; a write that stalls or fails leaves complete frames and a piece of one, '
               'of which a receiver delivers the complete ones only. Wantlists: what send_request writes is what the peer reports; '
               'entries are judged one by one (invalid CID or want type dropped, the rest untouched). For every queue, size mix and '
               'limits the block messages and — after the second fix — the presence messages of send_response are non-empty, within '
               'the limits, and carry exactly what fits, once and in order; with the shipped constants every block <= MAX_BATCH_SIZE and '
               'every presence is sent. The model is tied to bitswap/mod.rs by differential runs of the hooked functions, of the real '
               'event loop on in-memory substreams and of two nodes over TCP.',
 'level_note': 'Holds for the tree with two `fix:` commits (F-C20a: batches bounded by data bytes only; F-C20b: all presences of a '
               'response in one unsplit message — in both cases an over-long message was dropped whole; the _insufficient theorems show '
               'the old code cannot respect a limit, the scaled witnesses in corpus/C20 must now pass). NOT provided by litep2p and '
               'therefore not claimed: matching of responses to requests. The loop keeps no want set; unsolicited and repeated blocks are '
               'delivered (C20_only_requested_refuted, C20_no_duplicate_delivery_refuted, confirmed on the real loop); '
               'C20_only_requested_with_want_filter / C20_no_duplicate_delivery_with_want_filter are about a client-side want set that '
               'exists only in the model. Also observed, outside the property text: cancel entries of a wantlist are reported as wants; a '
               'response whose send fails half-way is queued again whole, so blocks already written are written again on the next '
               'substream; a failed action silently drops every action queued behind it. Trusted: Coq kernel, extraction, harness and '
               'hooks; hash functions abstract.',
 'assumptions': ['no usize overflow in the size sums',
                 'the receiving peer in the end-to-end stream is litep2p itself',
                 'peers of the event-loop stream stay connected (no dial, no connection close)',
                 'only-requested / at-most-once delivery need a want set on the user side (not in litep2p)']}
