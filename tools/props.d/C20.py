"""Configuration of ./check for C20 (see tools/props.py)."""
ENTRY = {'coq_dir': 'C20',
 'harness': 'c20',
 'cases': {'quick': 4000, 'thorough': 40000},
 'consts': ['BITSWAP_MAX_MESSAGE_SIZE', 'BITSWAP_MAX_BATCH_SIZE', 'BITSWAP_EMPTY_MESSAGE_SIZE'],
 'nontrivial_min_trace': 6,
 'rule': 'eight seeded case streams, mixed 30/25/4/29/5/4/2/1: (1) receiving — 1-6 (thorough 1-12) payload entries per case, prefixes '
         'built from versions {0,1,2,3,127,128,2^64-1}, codecs {raw,dag-pb,...,2^64-1}, all 12 compiled-in hash functions plus 8 '
         'unsupported codes, multihash lengths around the u8 limit, then byte-level mutations (truncation, trailing bytes, non-minimal and '
         'ten-byte varints, bit flips, empty prefix); payloads of 0 B-70 KB (1 MiB thorough) from a pool of 40 ids so that one prefix '
         'meets different data; the real block_to_response result (CID fields, digest bytes, payload identity) is compared with the model '
         'fed with digests the harness computed itself; (2) sending — queues of 0-60 (thorough 0-300) blocks with CID shapes giving 4-23 '
         'byte prefixes, data lengths around the limits and the varint length boundaries, limits drawn from {0..2^40} and in 4% of the '
         'cases the shipped limits with MiB-sized blocks; every batch of the real extract_next_batch, the encoded length of the real '
         'blocks_message and its re-decoded (prefix bytes, data) entries are compared with the model; (3) end to end — two litep2p nodes '
         'over TCP loopback, the real send_response on one side and on_message_received on the other with the shipped limits: the blocks '
         "of every BitswapEvent::Response are compared with the model's messages; (4) the real Bitswap::run event loop polled by hand on a "
         'harness-fed TransportService and TransportManager with three peers and in-memory substreams, 3-20 (thorough 3-40) operations per '
         'case, a third of the cases opening with one of 12 scripted peer histories (connection lost with a queue waiting, commands to a '
         'peer that is gone, parked dials that succeed or fail, a dead connection, ...): inbound substreams opened and replaced; frames '
         'encoded by a protobuf writer of the harness carrying wantlists (valid CIDv0/v1 with supported and unsupported hash codes, '
         'truncated/overlong/non-minimal/garbled CID bytes, trailing bytes, cancel and sendDontHave flags, want types {0,1,2,5,-1}), '
         'payload entries as in stream 1 and presences (types {0,1,2,-1}), in 30% of the frames also fields the loop must ignore (legacy '
         '`blocks`, pendingBytes, `full`, unknown fields, the wantlist as two fields that protobuf merges), delivered whole or in two '
         'pieces; substreams ended by a frame that is not protobuf, a frame cut anywhere then closed, an oversize or malformed length '
         'prefix, a clean close or a reset; BitswapHandle::send_request / send_response (presences and blocks mixed, 4 B-2 MiB+1) queued, '
         'written to substreams that take everything, stall after a byte budget (the paused tokio clock is advanced past WRITE_TIMEOUT), '
         'fail after a byte budget or cannot be opened; ConnectionClosed / ConnectionEstablished / a connection whose command channel died '
         '/ DialFailure, and the answer of TransportManagerHandle::dial forced to NoAddressAvailable / Ok / AlreadyConnected / dial in '
         'progress; in 0.4% (thorough 0.8%) of the cases one bulk command of 40 000-80 000 entries (requests, presences, tiny blocks, in '
         'runs of 1,2,3,.. equal entries) so that the shipped MAX_MESSAGE_SIZE is what splits the real send_response and what the one '
         'message of the real send_request fits or exceeds; after every operation the BitswapEvents and every byte written (complete '
         "frames decoded again with the crate's prost schema: wantlist entries, presences, block prefixes and data, message lengths, "
         'entries run-length encoded; and the length of an incomplete frame) are compared with the model, and the oracle checks that the '
         "messages carry exactly the entries due at that point of the model's state, once and in order, each message within the limits; "
         '(5) presence batching — 0-60 (thorough 0-300) presences with limits {0..2^40}: every batch of the real '
         'extract_next_presence_batch, the length of the real presences_message, its decoded entries and its bytes (compared with the Coq '
         'encoder byte for byte); (6) the real send_request (through a one-line wrapper) on a substream over an in-memory carrier whose '
         'codec limit is drawn from {0..2^40} on both sides of the size of the one message (0-60, thorough 0-300 wants): Ok/Err, the bytes '
         'written, the decoded entries, the bytes compared with the Coq encoder; (7) blocks_message on 0-6 blocks given with their data '
         '(0-300 B): the bytes compared with the Coq encoder; (8) end to end again — a send_request of 0-9 wants followed by a '
         'send_response of 0-6 presences and 0-10 honest blocks (0 B-MAX_BATCH_SIZE+1) between the two nodes of stream 3: every '
         'BitswapEvent::Request / Response of the remote user, message by message; non-trivial = trace of >= 6 numbers; distinct = '
         'distinct (case, trace) pairs',
 'trusted_base': ['hash functions are abstract in the theorems (a function code -> data -> option digest); in the runs the digests are '
                  "computed by the harness with multihash-codetable's Code::digest (and with Python's hashlib for the stored corpus), "
                  'outside block_to_response',
                  'the crates unsigned-varint, cid, multihash are modelled by hand (varint codec, Cid::to_bytes/read_bytes, CIDv0 rules, '
                  '64-byte limit) and diffed on the generated inputs only; the protobuf encoder is the generic one of '
                  'coq/common/Protobuf.v (tied to prost by C19), the messages built with it are diffed byte for byte with request_message '
                  '/ presences_message / blocks_message',
                  'usize arithmetic is treated as unbounded in the batching theorems; the byte-length theorems state the 64-bit bound '
                  'explicitly',
                  "the event loop is observed through its events and the bytes it writes; the TransportService's connection table and the "
                  "TransportManager's answer to dial are driven by the harness (verif_new, verif_force_peer), not modelled: one connection "
                  'per peer, ConnectionEstablished only for a peer without connection',
                  'tokio (paused clock, select!, mpsc channels of 4096 entries that the harness never fills), the unsigned-varint framing '
                  'of Substream are exercised, not modelled: an inbound substream is a sequence of decodable frames ended by one bad item, '
                  'one operation is settled before the next is given',
                  'the TCP/noise/yamux stack under the end-to-end stream is not modelled'],
 'level_text': 'Proof: for every prefix byte string, payload and family of hash functions the block delivered by block_to_response is the '
               "received payload paired with the CID recomputed from it (digest under the prefix's hash code, prefix's version and codec); "
               'malformed, trailing-byte, unsupported-version/length and uncomputable prefixes are dropped and honest blocks are accepted '
               '(varint, prefix and CID byte codecs round trip). For every history of the node (any peers, commands, frames, substreams '
               'opening, stalling, failing, connections closing, dying and coming back, dials accepted, refused and failing) every block '
               'handed to the user hashes to its CID and every message written passes the size check; events come from complete decodable '
               'frames only; a write that stalls or fails leaves complete frames and a piece of one, of which a receiver delivers the '
               'complete ones only. Queues: queued commands always wait for exactly one answer of the service (no stuck queue, invariant '
               'over all histories) and every answer empties the queue or moves it on; a command for a peer that is gone is dropped '
               'silently or parked for the dial and then written completely and in order; peers do not interfere. Wantlists: what '
               'send_request writes (one message) is what the peer reports; entries are judged one by one. For every queue, size mix and '
               'limits the block messages and the presence messages (second fix) of a response are non-empty, within the limits, and carry '
               'exactly what fits, once and in order; with the shipped constants every block <= MAX_BATCH_SIZE and every presence is sent; '
               'every message that reaches the wire is within the limit (responses by batching, a request because the codec refuses a '
               'longer one). The sizes the batching counts are proved to be the byte lengths of the protobuf encodings, so the bounds hold '
               'for bytes on the wire. The model is tied to bitswap/mod.rs by differential runs of the hooked functions (entries and '
               'bytes), of the real event loop on in-memory substreams with a harness-fed service and manager (including bulk commands '
               'that reach the shipped message limit), and of two nodes over TCP.',
 'level_note': 'Holds for the tree with two `fix:` commits (F-C20a: batches bounded by data bytes only; F-C20b: all presences of a '
               'response in one unsplit message — in both cases an over-long message was dropped whole; the _insufficient theorems show '
               'the old code cannot respect a limit, the scaled witnesses in corpus/C20 and the full-size ones of '
               'corpus/C20/node_bulk.case must now pass). NOT provided by litep2p and therefore not claimed: matching of responses to '
               'requests. The loop keeps no want set; unsolicited and repeated blocks are delivered (C20_only_requested_refuted, '
               'C20_no_duplicate_delivery_refuted, confirmed on the real loop); C20_only_requested_with_want_filter / '
               'C20_no_duplicate_delivery_with_want_filter are about a client-side want set that exists only in the model. Also observed, '
               'outside the property text: an outgoing request with more wants than fit one message (32 000 always fit, '
               'C20_default_request_fits; about 95 000 CIDv1/sha2-256 wants do not) is refused by the codec and dropped together with what '
               "is queued behind it — requests are outside C20's text; the model follows the code (C20_request_single_message, "
               'C20_unsplit_request_insufficient, C20_oversized_request_refused, C20_oversized_request_drops_queue, '
               'C20_flush_stops_at_oversized_request; corpus/C20/obs_oversized_request.case, node_bulk.case); cancel entries of a wantlist '
               'are reported as wants (C20_request_ignores_cancel); a command whose send fails half-way on an established substream is '
               'queued again whole, so what was already written is written again on the next substream (C20_failed_send_retried_whole: '
               'at-least-once towards the remote), while a queue flushed to a fresh substream is dropped at the first failure; no failure '
               'of any kind (refused dial, dial failure, connection closed, write timeout) is reported to the user '
               '(C20_events_only_from_frames, C20_send_to_gone_peer_dropped). Trusted: Coq kernel, extraction, harness and hooks; hash '
               'functions abstract.',
 'assumptions': ['no usize overflow in the size sums (explicit as `< 2^64` in the byte-length theorems)',
                 'the receiving peer in the end-to-end stream is litep2p itself',
                 'the service reports at most one connection per peer to the loop and answers every substream request and accepted dial',
                 'only-requested / at-most-once delivery need a want set on the user side (not in litep2p)']}
