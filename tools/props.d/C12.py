"""Configuration of ./check for C12 (see tools/props.py)."""
ENTRY = {'coq_dir': 'C12',
 'harness': 'c12',
 'cases': {'quick': 1500, 'thorough': 60000},
 'consts': ['BACKPRESSURE_BOUNDARY', 'C12_TABLE_ITEMS'],
 'nontrivial_min_trace': 40,
 'rule': 'three streams of seeded cases (plus the stored witnesses). (1) SCHEDULER stream (first number 9001, a quarter of the cases): one '
         'notification stream built from the real NotificationHandle / NotificationSink / Connection / Substream code between scripted in-memory '
         'carriers, both endpoints send; nothing is spawned: each step is one call or ONE poll of one future (sync send through the handle, sync '
         'send through a clone of the NotificationSink of a chosen stream (current, earlier or not yet existing), create+poll / poll / drop a '
         'send_async future, one poll of a Connection task and one handle poll, each under a cooperative budget of 0..128 operations (or '
         'unconstrained), protocol opens / shuts down a Connection, protocol executes or fails to execute a queued ForceClose, carrier gates, '
         'transport kill), 20-140 steps quick, 40-500 thorough, chosen while the case runs so that polls and drops hit futures that are really '
         'pending; capacities {1,2,16}x{1,2,3,16}x{1,4,64}x{1,2,64} (sync, async, handle channel, command channel) and maximum sizes '
         '{8,16,64,100,30000,50000} drawn independently per endpoint. (2) QUIESCENCE stream (half of the cases): one user action of endpoint A, then '
         'all tasks run until nothing is runnable (15-90 actions quick, 30-400 thorough; bursts up to 5x a capacity, smaller receiver maximum in a '
         'third of the cases, stalls, local close of either end, kill, reopen). (3) START stream (first number 9002, a quarter of the cases): the '
         'real NotificationProtocol (real TransportService, HandshakeService, Connection tasks collected from the executor, NotificationHandle) of '
         'ONE endpoint with two remote peers played by scripted substreams; one operation = one injected transport event (connection established / '
         'closed, inbound substream, answer or failure of an open_substream request), one write of the remote on a carrier (a frame with a fresh '
         'tag: its handshake, then its notifications; EOF; write errors; flush completes; close of the substream pending / completes), ONE poll of '
         "next_event (the visiting order of the handshake service's HashMap is read from the implementation and given to the model), a user call "
         '(open_substream, close_substream, send_validation_result, send_sync_notification, drop of the handle), one poll of every Connection task, '
         'or ONE handle.next(); nothing is settled in between (several things happen between two polls); 20-140 operations quick, 30-260 thorough, '
         'chosen while the case runs (steps that move a stream forward with probability 35-85 %, else noise: slow closes, stale carriers, '
         'reconnects, rejected validations, the inbound-result-queued-and-outbound-fails pattern of F-C12b). After EVERY step/action/operation the '
         'result and a state dump are compared with the extracted Coq model (streams 1/2: send code, future outcome, user event with '
         'origin/stream/mode/tag/length; tasks alive, free slots of both queues incl. permits held by waiting senders, free slots of the handle '
         'channels, frames in the carriers, queued ForceClose commands, close notifications; stream 3: poll outcome, user event with '
         'peer/handshake/tag, PeerState of both peers, membership in the handshake service, its size (map + ready), tasks spawned/alive, '
         'pending_outbound, queued user events, service calls, and per carrier: unread frames, dropped, every frame written); the queue chosen by '
         'each tokio::select! of a Connection is read back through a cfg(verif) log and given to the model as hints; the extracted oracles re-check '
         'the property on the implementation trace alone (streams 1/2: per-direction '
         'FIFO/at-most-once/size/stream-confinement/alternation/one-ForceClose, sink-level sends accepted only for the live stream and refused only '
         'when full or ended; stream 3: every delivered notification is the NEXT frame AFTER the first one of an inbound substream of that peer, the '
         'handshake offered for validation / reported with Opened is the FIRST frame of a substream of that peer that was alive when the event was '
         'queued, at most once, and what the local side wrote on a carrier is its handshake first and once, then the notifications the user sent to '
         'that peer in sending order); a case is non-trivial when its trace has >= 40 numbers; distinct = distinct (case, trace) pairs',
 'trusted_base': ['tokio mpsc / batch-semaphore / PollSender / coop internals are exercised through the real crate; the model describes them at the '
                  'level of permits (FIFO hand-over, release on drop, one reserved slot, budget = number of receives per poll) and the per-step diff '
                  'of free-permit counts is what ties the two',
                  'streams 1/2: the harness plays the part of NotificationProtocol when it wires a stream (the cfg(verif) constructor '
                  'ProtocolSide::open transcribes the Validating->Open arm of on_handshake_event; executing ForceClose = killing both carriers) and '
                  'starts with empty carriers; that this is what the real protocol hands over is no longer trusted: stream 3 drives the real '
                  'NotificationProtocol + HandshakeService and C12_start_inbound_clean / C12_start_outbound_clean prove it of their model',
                  "the byte carriers are the harness's own AsyncRead/AsyncWrite objects (streams 1/2: a pipe that accepts whole writes while its "
                  'gate is open; stream 3: scripted read buffer, write error, flush and shutdown gates); yamux windowing and partial writes belong '
                  'to C04',
                  'payloads carry their identity (streams 1/2: origin, mode, stream and tag in the first four bytes, length >= 4; stream 3: a '
                  'two-byte tag, all tags of a case pairwise distinct)',
                  "in the quiescence stream notifications larger than the SENDER's maximum are generated only in single-mode cases (a pop refused "
                  'before the next flush is invisible on the carrier); the scheduler stream reads the select! log and has no such limit',
                  'stream 3 runs in real time well below the 5 s / 10 s timers of the protocol (they are armed and never fire within a case), uses '
                  'channel capacities (64 / 4096) no case fills, and generates slow substream closes only for substreams held by Connection tasks (a '
                  "pending close inside a protocol handler parks the whole event loop: C11's bounded driver covers parked handlers)"],
 'level_text': 'Proof, for EVERY list of scheduler steps (any interleaving of both users, both handles, both Connection tasks, the protocols and the '
               'carriers; no fairness or quiescence assumed), every configuration and every merge order, in both directions at once: per stream and '
               'per sending mode the notifications delivered to the peer form a prefix of those accepted, also together with what is still in flight '
               '(C12_per_mode_fifo, C12_pending_prefix, C12_first_delivered_is_first_accepted); while the transport is up and both Connections run '
               'nothing accepted is lost (C12_no_loss_while_open); a send of one endpoint leaves the reverse direction untouched; delivered streams '
               'never go backwards and a notification is reported only while the handle holds the sink of its own stream (repaired code; the '
               'original filter is refuted); Opened/Closed alternate; oversize notifications are never delivered; the handle channel never exceeds '
               'its capacity counting the reserved slot and a Connection without a slot does not read. send_sync through the handle is a single step '
               'with four outcomes, through a clone of the sink a single step with three (no handle state touched), at most one ForceClose per '
               'stream, and once the protocol has executed it every later poll of either Connection ends it. send_async: completes at once iff a '
               'permit is free, else waits; capacity never exceeded counting held permits; no permit free while a live sender waits; permits handed '
               'over in FIFO order; a dropped future returns its permit. LIVENESS: stage-wise progress (sender drains, receiver moves the head of '
               'the carrier, handle reports the head of its channel) composed into eventual delivery under a fair scheduler: from ANY reachable '
               'state in which the stream is open at both ends and left alone, n >= (notifications under way) rounds that poll both Connections and '
               'both users deliver everything accepted, in either direction and mode (delivered = accepted), and the stream stays open '
               '(C12_eventual_delivery, C12_fair_round_progress). THE START OF A STREAM (Start.v: the real peer state machine of '
               'NotificationProtocol with all handlers a connected peer can reach, HandshakeService with its HashMap order as an input, the '
               'Connection tasks, the handle; substreams are values that carry who consumed which frame): an invariant over ALL histories of single '
               "calls and single polls (C12_start_invariant) gives: the handshake service consumed exactly ONE frame of a Connection's inbound "
               'substream, the first one the remote wrote on THAT substream, and everything after it is handed to the handle in order or still '
               'unread (C12_start_inbound_clean, C12_start_first_forwarded_is_first_sent); the local handshake is the first and only frame the '
               'handshake service wrote on each substream (C12_start_outbound_clean); two such endpoints compose (C12_start_end_to_end); the '
               'handshake offered for validation was read from the substream that will carry the stream; no entry of `ready` outlives its substream '
               '(C12_start_ready_belongs); the ORIGINAL HandshakeService is refuted on two witnesses (F-C12b, repaired); a Connection that waits for '
               'its substreams to close over several polls is silent; a dropped NotificationHandle ends the stream at the next needed slot. The '
               'quiescence stream is proved to be a special schedule. Orders and mappings hard-wired in the models (biased select! and its branch '
               'order, stages of Connection::poll_next and close_connection, try_send/send, error mapping, forget() sites) are extracted from the '
               'source on every check (C12_tables_in_sync). Both models are tied to the code by per-step differential runs with state dumps.',
 'level_note': 'Trusted: Coq kernel, ExtrOcamlBasic extraction, harness and hooks, tokio channel/semaphore internals below the permit level. One '
               'scheduler step is one poll of one future: interleavings INSIDE a poll (threads preempted mid-poll on a multi-thread runtime) are '
               'covered only as far as every shared object is a tokio channel whose operations are atomic. Liveness is proved for the round-robin '
               'schedule with quiescent users (no sends during the drain) and polls whose budget exceeds what is queued; wake-ups are not modelled '
               'because the schedule is explicit. Model.v keeps close_connection atomic and has no dropped handle (its harness polls a closing task '
               'until it is done); both are modelled, diffed on the real protocol and proved silent/terminating in Start.v, whose Connection has no '
               "backpressure (few small frames; backpressure is Model.v's subject). The two models meet at Connection::new: Start.v proves what the "
               'substreams hold at that moment, Model.v starts there with empty carriers; the composition is stated (C12_start_end_to_end for two '
               "Start endpoints; C12_start_end_to_end_linked with the carrier hypothesis derived from C04's reader model) but Model.v and Start.v "
               'are not one state machine. In Start.v the 5 s / 10 s timers never fire, dialing is off, and a debug_assert!(false) of the Rust code '
               'is the outcome `stuck` (never reached in any run). NotificationHandle::send_async_notification (the &mut-borrowing wrapper) is '
               'covered as the same lookup + the modelled sink-level future; try_open/try_close_substream_batch do not affect delivery. '
               'Partial-write faults of the Substream sink (the transport takes part of a queued frame, answers Pending, and the frame must be '
               'resumed at that byte, not rewritten) are the subject of C04 and are caught there: the quick tier of C04 visits every split point of '
               'small frames on poll_flush / poll_ready / send_framed over the scripted carrier and over real yamux (seeded change seeded/C12/e: '
               './check C04 reports a VIOLATION with a replay); the end-to-end stream of C12 runs a Connection over carriers that take whole frames.',
 'assumptions': ['channel capacities >= 1 (tokio panics on 0)',
                 'a stream is set up again only after both Connection tasks of the previous one have finished; each endpoint joins a stream at most '
                 'once. This restricts the scheduler model (Model.open_stream refuses otherwise) and is NOT guaranteed by the code: the attempt to '
                 "derive it from C11 (coq/Link/C11_C12.v) produced the reachable counter-witness C12_setup_condition_not_provided_by_C11 - in C11's "
                 'model of the repaired NotificationProtocol a stream of a peer is closed by the user while its Connection task is slow to close, '
                 'the remote re-opens, the user accepts: peer state Open 1 with Connection task 0 of the same peer still alive and closing (since '
                 'the repair of the late NotificationStreamClosed the protocol reports the close at once). C11 guarantees the alternation of the '
                 'user-visible events and that the handle holds the newest sink, not that the old Connection has finished; the overlap is handled by '
                 'the stream-identifier filter (C11_lazy_notification_in_its_period) and the fresh sink of the new stream (C11_gate_is_newest_sink), '
                 "outside C12's scheduler model",
                 'relative order between the two sending modes is not claimed (matches the property text)',
                 'C12_eventual_delivery: `drainable` (stream open at both ends and left alone, sizes within both maxima, both users have seen '
                 'Opened, poll budget above the queue lengths) and at least as many fair rounds as notifications under way; satisfiable: '
                 'C12_example_drainable',
                 'C12_start_end_to_end: the carrier delivers a prefix of what was written, in order - no longer only cited: DISCHARGED by the link '
                 'coq/Link/C04_C12.v (C12_start_end_to_end_linked, C12_start_carrier_prefix_linked: for any injective reading `enc` of the frame '
                 "labels as byte strings, what C04's incremental reader returns from any prefix of C04's wire encoding of A's writes, under any read "
                 "script, is a prefix of A's writes; an instance of C04_reader_roundtrip, the contract C13_carrier_contract uses); left as a "
                 "hypothesis there: every frame A wrote fits the codec (`Fits`, start_send's size check), and C04's model of the Substream reader is "
                 'tied to src/substream/mod.rs by ./check C04'],
 'proof_files': ['Properties', 'StartProperties'],
 'clause_map': [["Notifications accepted for sending to a peer through one sending mode are delivered to that peer's user at most once and in "
                 'sending order',
                 'C12_per_mode_fifo, C12_pending_prefix, C12_first_delivered_is_first_accepted, C12_directions_independent; at the start of the '
                 'stream C12_start_inbound_clean, C12_start_outbound_clean, C12_start_first_forwarded_is_first_sent, C12_start_end_to_end, '
                 'C12_start_invariant, C12_start_validated_handshake, C12_start_ready_belongs (original code: C12_start_stale_ready_refuted, '
                 'C12_start_stale_ready_sender_refuted; repaired: C12_start_witnesses_repaired)',
                 'scheduler + quiescence streams (oracle fifo_ok per direction and mode); start stream (oracle: delivered = next frame after the '
                 'first of an inbound substream; written = handshake first and once, then the sent tags in order); corpus start.case'],
                ['within one uninterrupted open period none is skipped once a later one has been delivered',
                 'C12_no_loss_while_open, C12_per_mode_fifo (prefix: no gaps), C12_reserve_before_read, C12_no_read_without_slot; liveness: '
                 'C12_outbound_progress, C12_inbound_progress, C12_handle_progress, C12_fair_round_progress, C12_eventual_delivery',
                 'scheduler stream under budgets and gates; quiescence stream bursts; start stream (delivered indices consecutive from 1)'],
                ['a closed stream delivers a prefix of what was sent',
                 'C12_per_mode_fifo, C12_pending_prefix, C12_stream_confinement, C12_reopen_order, C12_events_alternate, '
                 'C12_unrepaired_filter_refuted, C12_force_close_closes, C12_start_closing_is_silent, C12_start_handle_gone_closes',
                 'close/kill/reopen cycles in all three streams; slow closes and dropped handle in the start stream'],
                ['The synchronous send never blocks and reports a clogged channel instead',
                 'C12_sync_nonblocking, C12_sink_sync_nonblocking, C12_clog_once, C12_force_close_closes, C12_tables_in_sync (try_send, Full -> '
                 'ChannelClogged, Closed -> NoConnection)',
                 'scheduler stream steps 0 and 12 with capacities 1/2/16 (all outcomes occur), command-channel overflow'],
                ['the asynchronous send waits for capacity',
                 'C12_async_send, C12_async_completion, C12_async_capacity, C12_async_waits, C12_async_work_conserving, C12_async_fifo_handover, '
                 'C12_async_drop_returns_permit, C12_tables_in_sync (send)',
                 'scheduler stream steps 1-3 (futures created, polled, dropped), permits in the state dump'],
                ['a notification larger than the configured maximum is never delivered',
                 'C12_oversize_never_delivered',
                 'sizes max+1..max+3 on either side in streams 1/2'],
                ['for all ... configurations and stream close/reopen cycles (quantifier)',
                 'every theorem quantifies over cfg, hint lists and step lists; C12_quiescence_is_a_schedule; C12_tables_in_sync ties the hard-wired '
                 'orders',
                 'capacity/maximum tables of the generators; tools/gen_c12_tables.py']],
 'coq_deps': ['C04', 'C11', 'Link']}
