"""Configuration of ./check for C12 (see tools/props.py)."""
ENTRY = {'coq_dir': 'C12',
 'harness': 'c12',
 'cases': {'quick': 1500, 'thorough': 60000},
 'consts': ['BACKPRESSURE_BOUNDARY'],
 'nontrivial_min_trace': 40,
 'rule': 'seeded random action scripts (15-90 actions quick, 30-400 thorough; plus the stored witnesses) over one notification stream '
         'built from the real NotificationHandle / NotificationSink / Connection / Substream code between scripted in-memory carriers: '
         'capacities {1,2,16}x{1,2,16}x{1,4,64} (sync, async, user channel), maximum sizes {8,16,64,100,30000,50000} with a smaller '
         'receiver maximum in a third of the cases, notification sizes from 4 bytes to beyond the maximum, bursts up to 5x a capacity '
         'through one or both modes, carrier write/read stalls, user reads, handle polls, local close of either end, transport kill, '
         'reopen; after EVERY action both Connection tasks are run to quiescence and the send result, the events seen by the users and a '
         '12-number dump (tasks alive, free slots of the three channels, blocked/completed async sends, frames in the carrier, ForceClose '
         'and close notifications) are compared with the extracted Coq model; the merge order chosen by tokio::select! is read back from '
         'the carrier and given to the model as hints; a case is non-trivial when its trace has >= 40 numbers; distinct = distinct (case, '
         'trace) pairs',
 'trusted_base': ['tokio mpsc FIFO order, semaphore fairness for blocked send() callers and PollSender reservation semantics are exercised '
                  'through the real crate but not modelled below the channel level',
                  'the harness plays the part of NotificationProtocol when it wires a stream (the cfg(verif) constructor transcribes the '
                  'Validating->Open arm of on_handshake_event); ForceClose is answered by killing both carriers',
                  "the byte carrier is the harness's own AsyncRead/AsyncWrite pipe (accepts whole writes while its gate is open); yamux "
                  'windowing and partial writes belong to C04',
                  'payloads are >= 4 bytes (mode, period and tag are encoded in the first four bytes)',
                  "notifications larger than the SENDER's maximum are generated only in single-mode cases (a pop that is refused before "
                  'the next flush is invisible on the carrier, so the merge hint could not be reconstructed); the theorems cover the mixed '
                  'case'],
 'level_text': 'Proof: for every configuration, action script and merge order, the notifications delivered to the receiving user per '
               'period and per sending mode form a prefix of those accepted (C12_per_mode_fifo, also with the still-queued ones), and '
               'while both Connection tasks run nothing accepted is lost (C12_no_loss_while_open: accepted = delivered ++ user channel ++ '
               'carrier ++ sink ++ next_notification ++ queue, per mode); oversize notifications are never delivered; the user channel '
               'never exceeds its capacity counting the reserved slot and the receiver does not read without one; delivered periods never '
               'decrease; send_sync is a single step with four outcomes raising ForceClose only when the clogged flag is clear, and over '
               'any script at most one ForceClose is raised per period (C12_clog_once); send_async only queues and a blocked sender '
               'remains only while the queue is full. The model is tied to connection.rs/handle.rs/substream by a per-action differential '
               'run with state dumps.',
 'level_note': 'Trusted: Coq kernel, ExtrOcamlBasic extraction, harness and hooks, tokio channel semantics. Atomic-handler abstraction: '
               'one scripted action then quiescence on a current-thread runtime; races between the user task and the protocol task (an '
               "Opened event arriving while the handle drains stale notifications) and tokio's coop budget are not exhibited. The reverse "
               'direction of the stream is idle.',
 'assumptions': ['channel capacities >= 1 (tokio panics on 0)',
                 'a stream is reopened only after both Connection tasks of the previous period have finished (guaranteed by '
                 "NotificationProtocol's peer state, C11)",
                 'relative order between the two sending modes is not claimed (matches the property text)']}
