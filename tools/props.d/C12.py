"""Configuration of ./check for C12 (see tools/props.py)."""
ENTRY = {'coq_dir': 'C12',
 'harness': 'c12',
 'cases': {'quick': 1500, 'thorough': 60000},
 'consts': ['BACKPRESSURE_BOUNDARY'],
 'nontrivial_min_trace': 40,
 'rule': 'two streams of seeded cases (plus the stored witnesses) over one notification stream built from the real NotificationHandle / '
         'NotificationSink / Connection / Substream code between scripted in-memory carriers. (1) SCHEDULER stream (every second case): both '
         'endpoints send; nothing is spawned: each step is one call or ONE poll of one future (sync send, create+poll / poll / drop a send_async '
         'future, one poll of a Connection task and one handle poll, each under a cooperative budget of 0..128 operations (or unconstrained), '
         'protocol opens / shuts down a Connection, protocol executes or fails to execute a queued ForceClose, carrier gates, transport kill), '
         '20-140 steps quick, 40-500 thorough, chosen while the case runs so that polls and drops hit futures that are really pending; capacities '
         '{1,2,16}x{1,2,3,16}x{1,4,64}x{1,2,64} (sync, async, handle channel, command channel) and maximum sizes {8,16,64,100,30000,50000} drawn '
         'independently per endpoint. (2) QUIESCENCE stream: one user action of endpoint A, then all tasks run until nothing is runnable (15-90 '
         'actions quick, 30-400 thorough; bursts up to 5x a capacity, smaller receiver maximum in a third of the cases, stalls, local close of '
         'either end, kill, reopen). After EVERY step/action the result (send code, future outcome, user event with origin/stream/mode/tag/length) '
         'and a state dump (tasks alive, free slots of the sync and async queues incl. permits held by waiting senders, free slots of the handle '
         'channels, frames in the carriers, queued ForceClose commands, close notifications) are compared with the extracted Coq model; the queue '
         'chosen by each tokio::select! is read back through a cfg(verif) log and given to the model as hints; the extracted oracle re-checks '
         'per-direction FIFO/at-most-once/size/stream-confinement/alternation/one-ForceClose on the implementation trace alone; a case is '
         'non-trivial when its trace has >= 40 numbers; distinct = distinct (case, trace) pairs',
 'trusted_base': ['tokio mpsc / batch-semaphore / PollSender / coop internals are exercised through the real crate; the model describes them at the '
                  'level of permits (FIFO hand-over, release on drop, one reserved slot, budget = number of receives per poll) and the per-step diff '
                  'of free-permit counts is what ties the two',
                  'the harness plays the part of NotificationProtocol when it wires a stream (the cfg(verif) constructor transcribes the '
                  'Validating->Open arm of on_handshake_event); executing ForceClose = killing both carriers',
                  "the byte carrier is the harness's own AsyncRead/AsyncWrite pipe (accepts whole writes while its gate is open); yamux windowing "
                  'and partial writes belong to C04',
                  'payloads are >= 4 bytes (origin, mode, stream and tag are encoded in the first four bytes)',
                  "in the quiescence stream notifications larger than the SENDER's maximum are generated only in single-mode cases (a pop refused "
                  'before the next flush is invisible on the carrier); the scheduler stream reads the select! log and has no such limit'],
 'level_text': 'Proof, for EVERY list of scheduler steps (any interleaving of both users, both handles, both Connection tasks, the protocols and the '
               'carriers; no fairness or quiescence assumed), every configuration and every merge order, in both directions at once: per stream and '
               'per sending mode the notifications delivered to the peer form a prefix of those accepted, also together with what is still in flight '
               '(C12_per_mode_fifo, C12_pending_prefix); while the transport is up and both Connections run nothing accepted is lost '
               '(C12_no_loss_while_open); a send of one endpoint leaves the reverse direction untouched; delivered streams never go backwards and a '
               'notification is reported only while the handle holds the sink of its own stream (repaired code; the original filter is refuted); '
               'Opened/Closed alternate; oversize notifications are never delivered; the handle channel never exceeds its capacity counting the '
               'reserved slot and a Connection without a slot does not read. send_sync is a single step with four outcomes, at most one ForceClose '
               'per stream, and once the protocol has executed it every later poll of either Connection ends it. send_async: completes at once iff a '
               'permit is free, else waits; capacity never exceeded counting held permits; no permit free while a live sender waits; permits handed '
               'over in FIFO order; a dropped future returns its permit. Stage-wise progress: a poll of the sending Connection with a writable '
               'carrier sends everything parked or queued, a poll of the receiving Connection with a free slot moves the head of the carrier to the '
               'handle, a handle poll reports the head of its channel. The quiescence stream is proved to be a special schedule. The model is tied '
               'to connection.rs/handle.rs/substream by a per-step differential run with state dumps.',
 'level_note': 'Trusted: Coq kernel, ExtrOcamlBasic extraction, harness and hooks, tokio channel/semaphore internals below the permit level. One '
               'scheduler step is one poll of one future: interleavings INSIDE a poll (threads preempted mid-poll on a multi-thread runtime) are '
               'covered only as far as every shared object is a tokio channel whose operations are atomic. Liveness is limited to '
               'C12_force_close_closes and the three per-stage progress theorems (no end-to-end eventual-delivery theorem under a fairness '
               'assumption; wake-ups are not modelled because the schedule is arbitrary). Connection polls are modelled and driven under the '
               'cooperative budget of tokio (a poll cut short after k pops of its outbound loop, a slot of the handle channel handed over but not '
               'yet collected); only close_connection is kept atomic (the harness polls a task that has begun to close until it is done, which is '
               'one of the real schedules).',
 'assumptions': ['channel capacities >= 1 (tokio panics on 0)',
                 "a stream is set up again only after both Connection tasks of the previous one have finished (guaranteed by NotificationProtocol's "
                 'peer state, C11); each endpoint joins a stream at most once',
                 'relative order between the two sending modes is not claimed (matches the property text)'],
 'proof_files': ['Properties', 'StartProperties']}
