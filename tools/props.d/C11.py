"""Configuration of ./check for C11 (see tools/props.py)."""
ENTRY = {'coq_dir': 'C11',
 'harness': 'c11',
 'cases': {'quick': 1500, 'thorough': 40000},
 'consts': [],
 'rule': 'seeded histories of <= 70 (quick) / <= 150 (thorough) events over <= 3 peers with both auto-accept settings, dialing on/off, '
         'dialable/undialable peers: per-peer scripts that open a stream (user-initiated, remote-initiated, simultaneous) and end it (user '
         'close, remote close, disconnect, slow closes), interleaved at random, with 0-100 % random noise events, lost and swapped steps; '
         'events: connection established/closed, inbound/outbound substream, open failure, dial failure, handshake success/failure per '
         'direction, validation accept/reject (also stale and duplicated), negotiation timer, user open/close/force-close, remote close of '
         'an open stream, delayed and released substream closes, dead command channel. The real NotificationProtocol::next_event is polled '
         'once per ready event; after every event the user events, the calls on the TransportService and a dump (peer state incl. '
         "inbound/outbound sub-state and pending substream id, handshake-service membership, the handle's peers/pending-validation gate, "
         'pending_outbound, live Connection tasks) are compared with the extracted Coq model; a case is non-trivial when its trace has >= '
         '100 numbers',
 'trusted_base': ['the scripted byte carrier (SubstreamType::Verif) stands for yamux/TCP substreams: reads, flushes and shutdowns complete '
                  'exactly when the case says so',
                  'Connection tasks are polled by the harness (collecting Executor) after every event; the user drains the '
                  'NotificationHandle after every event',
                  'the 10 s handshake timeout of HandshakeService and the keep-alive downgrade of TransportService are not exercised (a '
                  'handshake timeout is the same NegotiationError event as a failed handshake); the 5 s timer is fired through a hook'],
 'level_text': 'Partial proof. Proved about the model (all configurations, unbounded histories): the per-peer event grammar (Opened/Closed '
               'alternate, no OpenFailure while open) for histories in which Connection tasks close promptly, by an inductive invariant '
               'tying live Connection tasks, PeerState::Open, the handle gate and the grammar state together (C11_alternation), with a '
               'machine-checked counterexample when closes are slow (C11_alternation_refuted, known finding class 1); Opened is only '
               'emitted from a state whose inbound substream was accepted (C11_opened_needs_accepted_inbound, any state); Closed is '
               'emitted in the step that handles a disconnect or a user close of an open stream (C11_closed_on_disconnect, '
               'C11_closed_on_user_close); the kept-failed-id wedge is exhibited (C11_open_answered_refuted, known finding class 2). '
               'Checked on every trace by the oracle but NOT proved: absence of stuck/Poisoned states (debug_assert!(false)) under the '
               'environment guards, isolation between peers, the accept-origin of the accepted inbound state, the open-request ledger. The '
               'model is tied to mod.rs/connection.rs/negotiation.rs/handle.rs by a per-event differential run with state dumps (0 '
               'disagreements in 120 000 histories).',
 'level_note': 'Handlers are atomic in the model: `.await`s inside a handler (a full user event channel parks the loop) are not modelled; '
               'notifications themselves (C12) are not modelled; the stale-shutdown defect was repaired (fix: commit) and its witness '
               'stays in the corpus; two findings are recorded in KNOWN_FINDINGS.txt.',
 'assumptions': ['events arrive as the TransportService contract allows (C08): established/closed alternate per peer, substream results '
                 'only for requested ids on the live connection, handshake events only for substreams handed to the HandshakeService; '
                 'these are the guards of Model.main_handler',
                 'alternation additionally assumes Connection tasks close promptly (no Gate / gated TaskDie event)']}
