"""Configuration of ./check for C11 (see tools/props.py)."""
ENTRY = {'coq_dir': 'C11',
 'harness': 'c11',
 'cases': {'quick': 1500, 'thorough': 40000},
 'consts': [],
 'rule': 'seeded histories of <= 70 (quick) / <= 150 (thorough) events over <= 3 peers with both auto-accept settings, dialing on/off, '
         'dialable/undialable peers: per-peer scripts that open a stream (user-initiated, remote-initiated, simultaneous) and end it (user '
         'close, remote close, disconnect, slow closes), interleaved at random, with 0-100 % random noise events, lost and swapped steps; '
         'events: connection established/closed, inbound/outbound substream, open failure, dial failure, handshake success/failure per '
         'direction, validation accept/reject (also stale and duplicated), negotiation timer, remote notifications (also a last one right '
         'before the remote closes), user open/close/force-close, remote close of an open stream, delayed and released substream closes, '
         'dead command channel. The real NotificationProtocol::next_event is polled once per ready event; after every event the user '
         'events, the calls on the TransportService and a dump (peer state incl. inbound/outbound sub-state and pending substream id, '
         "handshake-service membership, the handle's peers/pending-validation gate, pending_outbound, live Connection tasks) are compared "
         'with the extracted Coq model; a case is non-trivial when its trace has >= 100 numbers',
 'trusted_base': ['the scripted byte carrier (SubstreamType::Verif) stands for yamux/TCP substreams: reads, flushes and shutdowns complete '
                  'exactly when the case says so',
                  'Connection tasks are polled by the harness (collecting Executor) after every event; the user drains the '
                  'NotificationHandle after every event',
                  'the 10 s handshake timeout of HandshakeService and the keep-alive downgrade of TransportService are not exercised (a '
                  'handshake timeout is the same NegotiationError event as a failed handshake); the 5 s timer is fired through a hook'],
 'level_text': 'Proof about the model (all configurations, unbounded histories), tied to the Rust code by a per-event differential run. '
               'C11_no_stuck: no history reaches a stuck state (debug_assert!(false) / Poisoned), by an inductive invariant relating '
               'PeerState, pending_outbound, handshake-service membership, the requests in flight at the TransportService and its '
               'connection state; the environment guards are the explicit predicate `enabled` (C11_guards_are_the_environment, '
               'C11_no_stuck_feasible; C11_no_stuck_needs_environment_refuted shows they are needed). C11_isolation: a step for peer p '
               "leaves every other peer's state, handshake membership, gate entries, connection state and requests in flight untouched and "
               'only talks about p. C11_alternation: Opened/Closed alternate, no OpenFailure and NotificationReceived only between Opened '
               'and Closed, for histories in which Connection tasks close promptly (C11_alternation_refuted: finding class 1 otherwise). '
               'C11_opened_needs_accepted_inbound, C11_accepted_only_by_accept, C11_inbound_needs_accept: every Opened is preceded by a '
               'user Accept or an auto-accept (auto_accept and an outbound substream initiated) for that peer. C11_open_answered, '
               'C11_quiescent_nothing_owed, C11_at_most_one_answer: the open-request ledger outside finding class 2 and without replaced '
               'validations (both hypotheses shown necessary by _refuted witnesses). C11_closed_on_disconnect, C11_closed_on_user_close.',
 'level_note': 'Handlers are atomic in the model: `.await`s inside a handler (a full user event channel parks the loop) are not modelled; '
               "sending notifications (C12) is not modelled, receiving them only as far as the handle's gate and the event order go; the 5 "
               's negotiation timer counts as an outstanding obligation in the ledger without being modelled as armed/disarmed; the '
               'stale-shutdown defect was repaired (fix: commit), two findings are recorded in KNOWN_FINDINGS.txt, the replaced-validation '
               'auto-reject is reported as an observation.',
 'assumptions': ['events arrive as the TransportService contract allows (C08): established/closed alternate per peer, substream results '
                 'only for requested ids on the live connection, handshake events only for substreams handed to the HandshakeService; '
                 'these are the guards of Model.main_handler',
                 'alternation additionally assumes Connection tasks close promptly (no Gate / gated TaskDie / gated NotifyDie event)',
                 'the ledger theorem excludes finding class 2 (class2_step) and histories in which a ValidateSubstream replaces an '
                 'unanswered one (drops)']}
