"""Configuration of ./check for C11 (see tools/props.py)."""
ENTRY = {'assumptions': ['events arrive as the TransportService contract allows (C08): established/closed alternate per peer, substream results only for '
                 'requested ids on the live connection; these are the guards of Model.main_handler, spelled out as `enabled`; the guard for '
                 'handshake events is discharged by the component model (C11_hs_events_only_for_held_substreams)',
                 'the ledger theorem excludes finding class 3 (class3_step)',
                 "bounded-channel model: while the loop is parked no other event is scheduled; tokio's mpsc semaphore serves waiting senders in "
                 'arrival order; C11_capacity_only_delays: no poll is cut short by the capacity (poll_cut)'],
 'cases': {'quick': 1500, 'thorough': 40000},
 'clause_map': [['for each peer the user sees stream-opened and stream-closed events strictly alternating',
                 'C11_alternation (all histories), C11_lazy_alternation (late-polling user, all schedules), C11_user_view_is_protocol_view, '
                 'C11_alternation_before_fix_refuted',
                 'eager and lazy streams: oracle `grammar` on every trace; corpus w1, w3, w11'],
                ['receives notifications only between the two',
                 'C11_alternation / C11_lazy_alternation (UNotif clause), C11_gate_is_newest_sink, C11_lazy_notification_in_its_period, '
                 'C11_lazy_queue_lifecycle_only',
                 'Notify/NotifyDie events; stream tag of every delivered notification (oracle ntags_ok); corpus w4, w10, w12; gen_lstale'],
                ['can send notifications only between the two',
                 'C11_send_gate, C11_send_gate_closed, C11_stale_sink_errors',
                 'send operations (kinds 20-24), wire frames per stream period (oracle clause 8)'],
                ['never sees an open-failure for a stream that is currently open',
                 'C11_alternation (UFail clause), C11_timer_only_cancels_waiting, C11_no_stale_timer_kill',
                 'oracle `grammar`; timers fired by hook and by real sleeping (w7-w9, w13)'],
                ['a request to open a stream to a connected peer with no negotiation in progress is answered by exactly one of opened or '
                 'open-failure',
                 'C11_open_answered, C11_quiescent_nothing_owed, C11_at_most_one_answer, C11_no_dead_substream_id, '
                 'C11_open_answered_before_fix_refuted; exception: C11_open_answered_class3_refuted (finding class 3)',
                 'oracle clauses 5 (ans, also per peer of a batch), 6 (leave), 7 (owed); corpus w2, w5, w6'],
                ['an inbound stream is opened only after the user accepted it (or auto-accept applies)',
                 'C11_opened_needs_accepted_inbound, C11_accepted_only_by_accept, C11_inbound_needs_accept',
                 'oracle clause 3 (acc); both auto_accept settings'],
                ['when the connection to a peer is lost an open stream is reported closed',
                 'C11_closed_on_disconnect, C11_closed_on_user_close (every reachable state, same step)',
                 'oracle clause 4 (cl), no slow-close escape any more'],
                ['no interleaving makes the protocol panic or stop serving other peers',
                 'C11_no_stuck, C11_no_stuck_feasible, C11_guards_are_the_environment, C11_lazy_no_stuck, C11_isolation, C11_runs_are_reachable; '
                 'handshake events only for held substreams: C11_hs_events_only_for_held_substreams, C11_hs_negotiated_hands_out',
                 'catch_unwind around every step (stuck marker 2), per-peer dump diff, oracle clause 1 (iso); HandshakeService stream (oracle '
                 'hcheck)'],
                ['bounded user event channel / late-polling user (quantifier: all schedules)',
                 'C11_lazy_alternation, C11_lazy_no_stuck, C11_event_channel_no_loss, C11_event_channel_step, C11_poll_delivers_oldest, '
                 'C11_capacity_only_delays',
                 'lazy stream (kind 25 polls), channel fill and parked flag diffed']],
 'consts': [],
 'coq_dir': 'C11',
 'harness': 'c11',
 'level_note': "Sending: channel capacities / clogging are C12's; receiving: the handle gate, the stream identifier and the event order. In the "
               "bounded-channel model a parked handler's effects are applied when it parks and only its post-await calls are held back (nothing else "
               'runs meanwhile, the protocol state is not dumped while parked); one handle.next() sees only the events that are inside the channel '
               '(poll_events). The main model treats the HandshakeService as membership bits and lets a handshake event happen at any time for a '
               'held substream (the original service could also hand out a result queued for a removed substream: repaired, F-C12b); the component '
               'model HSModel.v is tied to the real service by its own case stream. Defects repaired in the repo (fix: commits): stale shutdown '
               'notice, superseded validation request, failed substream id adopted by the next open request (former class 2), '
               'NotificationStreamClosed reported late by the Connection task only (former class 1); finding recorded: class 3 (pinned by an '
               'upstream integration test); observations (outside the property text): a stale 5 s timer cancels a newer attempt early; while a '
               'failed substream id is still remembered (PeerState::Closed{pending_open}) inbound substreams are refused until the user opens or the '
               'peer reconnects. Formerly observed here, now repaired as F-C12b: HandshakeService::remove_* left a completed handshake queued in '
               '`ready`, which pop_event later matched with a NEW substream of the same peer and direction.',
 'level_text': 'Proof about the model (all configurations, unbounded histories), tied to the Rust code by a per-event differential run. Event '
               'grammar for EVERY history, slow Connection tasks included (C11_alternation: Opened/Closed alternate, no OpenFailure and every '
               'NotificationReceived between the two; invariant C11_user_view_is_protocol_view; C11_closed_on_disconnect, C11_closed_on_user_close '
               'in every reachable state; C11_delivered_close_kills_nothing) since the repair of finding class 1 (before-fix refutation about the '
               'old model kept in coq/C11/Before.v), and for the late-polling user behind a bounded event channel, for every capacity and every '
               'schedule of events and polls (C11_lazy_alternation). No stuck state (C11_no_stuck, explicit environment predicate `enabled`, '
               'C11_lazy_no_stuck); isolation between peers (C11_isolation); inbound streams only after an accept '
               '(C11_opened_needs_accepted_inbound, C11_accepted_only_by_accept, C11_inbound_needs_accept); the open-request ledger outside finding '
               'class 3 (C11_open_answered, C11_quiescent_nothing_owed, C11_at_most_one_answer; the exclusion is shown necessary), no dead substream '
               'id in any reachable state (C11_no_dead_substream_id, repair of finding class 2 with before-fix refutation); the sending side '
               '(C11_send_gate, C11_send_gate_closed, C11_stale_sink_errors); received notifications and the stream identifier '
               '(C11_gate_is_newest_sink, C11_lazy_notification_in_its_period, C11_lazy_queue_lifecycle_only); the 5 s timers as armed/fired state '
               '(C11_timers_fire_once, C11_waiting_attempt_has_timer, C11_timer_only_cancels_waiting, C11_no_stale_timer_kill; '
               'C11_stale_timer_cancels_newer_attempt_refuted is an observation); the bounded user event channel (C11_event_channel_no_loss, '
               'C11_event_channel_step, C11_poll_delivers_oldest, C11_capacity_only_delays); the HandshakeService as a component (HSModel.v): '
               'handshake events only for substreams it holds (C11_hs_events_only_for_held_substreams: the guard hsI/hsO of the main model as a '
               'theorem of the component), C11_hs_negotiated_hands_out, C11_hs_error_keeps_substream, C11_hs_timeout_fails, C11_hs_keys_unique, '
               'C11_hs_removed_is_silent; C11_hs_stale_ready_refuted is the defect of the original service (F-C12b, repaired in the repo by the C12 '
               'round), C11_hs_stale_ready_repaired / C11_hs_calls_forget / C11_hs_removed_stays_silent the repaired behaviour.',
 'rule': 'seeded histories of <= 70 (quick) / <= 150 (thorough) events over <= 3 peers with both auto-accept settings, dialing on/off, '
         'dialable/undialable peers: per-peer scripts that open a stream (user-initiated, remote-initiated, simultaneous) and end it (user close, '
         'remote close, disconnect, slow closes of every kind: the Connection task of a closed stream finishes after a new stream to the peer was '
         'set up, with and without a NotificationSink clone kept by the user, the old task alone finishing while the new stream is closing too), '
         'interleaved at random, with 0-100 % random noise events, lost and swapped steps; events: connection established/closed, inbound/outbound '
         'substream, open failure with every SubstreamError variant, dial failure, handshake success/failure per direction, validation accept/reject '
         '(also stale, duplicated and superseded), negotiation timer (hook-fired; real 5 s expiry and the real 10 s NEGOTIATION_TIMEOUT of the '
         'HandshakeService in thorough-tier corpus cases), remote notifications (also a last one right before the remote closes; the payload names '
         'the stream), user open/close/force-close, open_substream_batch / close_substream_batch for several peers in one command (the order the '
         'implementation took the peers in is read from it), sends through the handle and through a kept NotificationSink clone in every state '
         '(before Opened, while open, after Closed, never opened) with the frames written to the substreams observed, an open stream ended by the '
         'remote closing, an error frame or a write error, delayed and released substream closes (all tasks of a peer, or all but its newest), '
         'command channel of the connection closed or clogged. Of the protocol cases three quarters run with a user who drains the handle after '
         'every event: the real NotificationProtocol::next_event is polled once per ready event and after every event the user events, return '
         'values, wire frames, the calls on the TransportService and a dump (peer state incl. sub-states and pending substream id, handshake-service '
         "membership, the handle's peers/pending-validation gate, pending_outbound, live Connection tasks, timers armed so far) are compared with "
         'the extracted Coq model. One quarter runs with a user event channel of capacity 1-7 and a user who polls the handle only now and then '
         '(kind 25; one eighth of these are built around notifications left over from an earlier stream period): the parked next_event() future is '
         'kept alive, deliveries (with the stream tag of every notification), service calls, the handle gate, the channel fill and the parked flag '
         'are compared after every step. 8 % of all cases (first number 7000) drive the real HandshakeService on its own: the calls '
         'NotificationProtocol makes on it, carrier events per substream (handshake frame arrives, remote closes, writes fail, flushes complete), '
         'expiry of single negotiation timers, polls; the order in which poll_next visits its map is read from the implementation before every poll; '
         'results, map membership and queue length are compared after every operation; a case is non-trivial when its trace has >= 100 numbers',
 'trusted_base': ['the scripted byte carrier (SubstreamType::Verif) stands for yamux/TCP substreams: reads, flushes and shutdowns complete exactly '
                  'when the case says so; substream closes inside protocol handlers complete at once',
                  'Connection tasks are polled by the harness (collecting Executor); in the eager cases the user drains the NotificationHandle after '
                  'every event',
                  'the keep-alive downgrade of TransportService is not exercised; the 5 s timers and the 10 s handshake timeout are futures_timer '
                  '(real time): fired through hooks in random cases and by really sleeping in thorough-tier corpus cases',
                  'the bounded-channel driver keeps a parked next_event() future alive through an unsafe self-reference and tells a parked handler '
                  'from an idle poll by input-queue lengths (cfg(verif) hook code)',
                  'channel capacities of the per-stream sync/async notification channels are not modelled (C12); the lazy-user model leaves out send '
                  'operations and batch commands; try_ variants of the handle API, set_handshake and the exit paths of the event loop (handle '
                  'dropped, service closed) are not exercised; of the results of TransportService::dial only Ok (command sent) and '
                  'NoAddressAvailable are produced',
                  'a batch command is the sequence of its single-peer commands (each touches only its own peer: C11_isolation): expanded by the '
                  'Glue, not a constructor of the model']}
