"""Configuration of ./check for C11 (see tools/props.py)."""
ENTRY = {'coq_dir': 'C11',
 'harness': 'c11',
 'cases': {'quick': 1500, 'thorough': 40000},
 'consts': [],
 'rule': 'seeded histories of <= 70 (quick) / <= 150 (thorough) events over <= 3 peers with both auto-accept settings, dialing on/off, '
         'dialable/undialable peers: per-peer scripts that open a stream (user-initiated, remote-initiated, simultaneous) and end it (user '
         'close, remote close, disconnect, slow closes), interleaved at random, with 0-100 % random noise events, lost and swapped steps; '
         'events: connection established/closed, inbound/outbound substream, open failure, dial failure, handshake success/failure per '
         'direction, validation accept/reject (also stale, duplicated and superseded), negotiation timer (hook-fired; real 5 s expiry in '
         'thorough-tier corpus cases), remote notifications (also a last one right before the remote closes), user open/close/force-close, '
         'sends through the handle and through a kept NotificationSink clone in every state (before Opened, while open, after Closed, '
         'never opened) with the frames written to the substreams observed, remote close of an open stream, delayed and released substream '
         'closes, dead command channel. Three quarters of the cases run with a user who drains the handle after every event: the real '
         'NotificationProtocol::next_event is polled once per ready event and after every event the user events, return values, wire '
         'frames, the calls on the TransportService and a dump (peer state incl. sub-states and pending substream id, handshake-service '
         "membership, the handle's peers/pending-validation gate, pending_outbound, live Connection tasks, timers armed so far) are "
         'compared with the extracted Coq model. One quarter runs with a user event channel of capacity 1-5 and a user who polls the '
         'handle only now and then (kind 25): the parked next_event() future is kept alive, deliveries, service calls, the handle gate, '
         'the channel fill and the parked flag are compared after every step; a case is non-trivial when its trace has >= 100 numbers',
 'trusted_base': ['the scripted byte carrier (SubstreamType::Verif) stands for yamux/TCP substreams: reads, flushes and shutdowns complete '
                  'exactly when the case says so',
                  'Connection tasks are polled by the harness (collecting Executor); in the eager cases the user drains the '
                  'NotificationHandle after every event',
                  'the 10 s handshake timeout of HandshakeService and the keep-alive downgrade of TransportService are not exercised (a '
                  'handshake timeout is the same NegotiationError event as a failed handshake); the 5 s timers are futures_timer (real '
                  'time): they are fired through a hook in random cases and by really sleeping in thorough-tier corpus cases',
                  'the bounded-channel driver keeps a parked next_event() future alive through an unsafe self-reference and tells a parked '
                  'handler from an idle poll by input-queue lengths (cfg(verif) hook code)',
                  'channel capacities of the per-stream sync/async notification channels are not modelled (C12); the lazy-user model '
                  'leaves out send operations'],
 'level_text': 'Proof about the model (all configurations, unbounded histories), tied to the Rust code by a per-event differential run. No '
               'stuck state (C11_no_stuck, explicit environment predicate `enabled`, C11_lazy_no_stuck for the bounded channel); isolation '
               'between peers (C11_isolation); event grammar incl. NotificationReceived under prompt closes (C11_alternation; class 1 '
               'otherwise); inbound streams only after an accept (C11_opened_needs_accepted_inbound, C11_accepted_only_by_accept, '
               'C11_inbound_needs_accept); the open-request ledger outside finding classes 2 and 3 (C11_open_answered, '
               'C11_quiescent_nothing_owed, C11_at_most_one_answer, both exclusions shown necessary); Closed on disconnect / user close; '
               'the sending side (C11_send_gate: a frame reaches the wire only in a send operation, with that message, through the sink of '
               'a running task of that peer, through the handle only while the gate is open and only into the period whose sink the handle '
               'holds; C11_send_gate_closed, C11_stale_sink_errors); the 5 s timers as armed/fired state (C11_timers_fire_once, '
               'C11_waiting_attempt_has_timer, C11_timer_only_cancels_waiting, C11_no_stale_timer_kill; '
               'C11_stale_timer_cancels_newer_attempt_refuted is an observation); the bounded user event channel with a late-polling user '
               '(C11_event_channel_no_loss, C11_event_channel_step, C11_poll_delivers_oldest, C11_capacity_only_delays).',
 'level_note': "Sending: channel capacities / clogging are C12's; receiving: only the handle gate and the event order. In the "
               "bounded-channel model a parked handler's effects are applied when it parks and only its post-await calls are held back "
               '(nothing else runs meanwhile, the protocol state is not dumped while parked). Defects repaired: stale shutdown notice, '
               'superseded validation request (fix: commits); findings recorded: classes 1-3; observations: a stale 5 s timer cancels a '
               'newer attempt early; with a late-polling user a notification of stream period 1 can be handed out in period 2 (the handle '
               'only checks `peers.contains_key`).',
 'assumptions': ['events arrive as the TransportService contract allows (C08): established/closed alternate per peer, substream results '
                 'only for requested ids on the live connection, handshake events only for substreams handed to the HandshakeService; '
                 'these are the guards of Model.main_handler, spelled out as `enabled`',
                 'alternation additionally assumes Connection tasks close promptly (no Gate / gated TaskDie / gated NotifyDie event)',
                 'the ledger theorem excludes finding class 2 (class2_step) and class 3 (class3_step)',
                 "bounded-channel model: while the loop is parked no other event is scheduled; tokio's mpsc semaphore serves waiting "
                 'senders in arrival order']}
