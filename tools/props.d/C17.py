"""Configuration of ./check for C17 (see tools/props.py)."""
ENTRY = {'coq_dir': 'C17',
 'harness': 'c17',
 'cases': {'quick': 600, 'thorough': 100000},
 'consts': ['DEFAULT_MAX_RECORDS',
            'DEFAULT_MAX_RECORD_SIZE_BYTES',
            'DEFAULT_MAX_PROVIDER_KEYS',
            'DEFAULT_MAX_PROVIDER_ADDRESSES',
            'DEFAULT_MAX_PROVIDERS_PER_KEY',
            'KAD_MAX_ADDRESSES',
            'DEFAULT_PROVIDER_TTL_SECS',
            'DEFAULT_PROVIDER_REFRESH_INTERVAL_SECS',
            'C17_STORE_CALL_SITES'],
 'rule': 'one harness stream with three kinds of seeded cases (40% / 35% / 25%) plus the stored witnesses of corpus/C17 and one case that '
         'prints the compiled MemoryStoreConfig::default(). (1) legacy: random histories (10-120 ops quick, 20-500 thorough) of '
         'get/put/get_providers/put_provider/put_local_provider/remove_local_provider on the real MemoryStore and the real clock, <=8 '
         'keys, <=10 providers, configurations from {0,1,2,3,default}, expiries far from the clock. (2) timed: the same store on a '
         'logical clock (hook store_clock, 1 unit = 1 ms, non-decreasing readings chosen by the case) with record expiries at, one unit '
         'before and one unit after the reading, provider_ttl in {0,1,2,5,40}, put_local_provider with quorums All/One/N(1)/N(2)/N(20), '
         'next_action() polled until Pending under tokio\'s paused clock (refresh interval in {0,1,3,10,25}) and direct calls of '
         'Record::is_expired / ProviderRecord::is_expired. (3) kad: the REAL Kademlia::run loop (polled by hand, tokio paused, 1 tick = '
         '10 s) configured through every ConfigBuilder setter, both validation modes, replication factor {1,2,20}: inbound PUT_VALUE '
         '(publisher none / known / unknown / undecodable, ttl 0..5), ADD_PROVIDER (0-2 entries, sender or third party, undecodable '
         'peer id / connection type, 0..70 addresses with duplicates and junk), GET_VALUE, GET_PROVIDERS as protobuf bytes on in-memory '
         'carriers, the commands PutRecord / PutRecordToPeers / StoreRecord / StartProviding / StopProviding / GetRecord / GetProviders, '
         'and time passing (stored expiries aged by the loop itself, tokio clock advanced, refresh actions observed). After every '
         'operation the returned value / served answer and a full sorted dump of records (value id, length, publisher, expiry), '
         'provider lists in stored order (peer, distance rank, address count, expiry), local_providers with quorum and the number of '
         'pending refresh futures are compared with the extracted Coq model. prop_ok re-judges the property text on the '
         'implementation\'s trace alone (bounds, sortedness, freshness of everything returned or served, nothing fresh withheld, TTL '
         'monotonicity, closest-retained refinement, refresh only for provided keys, remote peers add only themselves, Manual mode). '
         'Non-trivial: trace >= 8 numbers; distinct = distinct (case, trace) pairs.',
 'trusted_base': ['SHA-256: the distance between provider and key enters the model as its rank among the pool (computed with the real '
                  'ProviderRecord::distance; the harness asserts that the distances of its pool are pairwise distinct); '
                  'C17_no_provider_twice_xor reduces "equal distance <=> equal peer" to "distinct peers have distinct hashes"',
                  'store_clock hook: the three clock reads of store.rs go through `fn now()`, which is Instant::now() without the verif '
                  'feature (C17_source_tables_covered: exactly one Instant::now() left in store.rs, three calls of the helper); legacy '
                  'and kad cases run on the real clock',
                  'kad stream: real time that elapses inside a case (ms) makes the implementation\'s clock read later than the model\'s by '
                  'less than half a tick (5 s); comparisons between whole ticks cannot flip; wire TTLs are compared rounded to ticks',
                  'tokio::time::sleep under the paused clock (1 ms granularity; all logical times are whole ms)',
                  'the probe inside Kademlia::run (one more add-only statement: log of RefreshProvider actions; the at-select snapshot '
                  'also carries the store; an ageing request is applied there)'],
 'level_text': 'Proof: the store invariant (all five size bounds, key uniqueness, strictly distance-sorted duplicate-free provider lists) '
               'is inductive over every operation history, clock reading and configuration with max_providers_per_key >= 1; reads are '
               'characterised completely (exactly the stored entries whose expiry lies strictly after the clock reading: '
               'C17_get_complete, C17_get_providers_complete, expiry boundary `now >= expires`), over whole histories '
               '(C17_history_fresh); TTL monotonicity and the put_provider refinement (delete old entry, insert sorted, keep the '
               'closest) as before. New: the refresh machinery (lazy futures, quorum map) is modelled - a refresh is announced only '
               'for a key provided at that moment, with the stored quorum, never earlier than the refresh interval after the '
               'successful put_local_provider that scheduled it, and a due future is never skipped; the Kademlia event loop around '
               'the store is modelled event by event - everything it does to the maps is a sequence of the six store operations, so '
               'the invariant holds after every history of network messages, commands and timer expiries in both validation modes; '
               'a remote peer can add only itself as a provider, cannot add a record in Manual mode, cannot touch local '
               'registrations; GET_VALUE / GET_PROVIDERS answers carry exactly the stored unexpired entries. '
               'C17_source_tables_covered ties the model to the source shape (store methods, the 13 call sites of the store, enum '
               'variants, configuration fields / defaults / setters, clock reads), regenerated on every check.',
 'level_note': 'Trusted: Coq kernel, ExtrOcamlBasic extraction, harness and hooks. Not modelled: SHA-256 (distances are ranks), the '
               'query engine behind the commands (routing table kept empty), message.rs record_to_schema/record_from_schema beyond '
               'ttl = 0 <-> no expiry (whole-second rounding is hidden by the 10 s tick), a full event channel (await inside a '
               'handler), HashMap order (dumps sorted), the order in which several refresh futures that are due at once are handled '
               '(observed and validated as a permutation). Observations outside the property text (theorems / witnesses, not '
               'findings): local_providers is not bounded by max_provider_keys and pending_provider_refresh by nothing '
               '(C17_local_registrations_outlive_provider_keys, C17_refresh_futures_unbounded); remove_local_provider hits '
               'debug_assert!(false) when the local provider was displaced or pruned; an incoming record with ttl 0 is stored '
               'without expiry and its publisher is taken from the wire unchecked; record_to_schema sends ttl 0 ("never expires") '
               'for a record with less than one second left; a GET_PROVIDERS answer lists up to MAX_ADDRESSES public addresses for '
               'the local node regardless of max_provider_addresses.',
 'assumptions': ['max_providers_per_key >= 1 (as in the property text)',
                 'HashMap iteration order is not observable (dumps are sorted)',
                 'clock readings are non-decreasing (std::time::Instant) - used only by C17_refresh_after_interval',
                 'distinct peers have distinct SHA-256 hashes (C17_no_provider_twice_xor)'],
 'clause_map': [
     ['never holds more records / larger values / more provider keys / more providers per key / more addresses per provider than configured',
      'C17_bounds_sorted, C17_step_preserves, C17_timed_bounds_sorted, C17_loop_bounds_sorted (through the event loop), C17_loop_address_bound, C17_default_config',
      'all three case kinds: inv_b on every dumped state (prop_ok), full state diff'],
     ['never returns an expired record or provider',
      'C17_get_fresh, C17_get_providers_fresh, C17_get_complete, C17_get_providers_complete, C17_expiry_boundary_record, C17_expiry_boundary_provider, C17_history_fresh, C17_provider_expiry, C17_served_record_fresh, C17_served_providers_fresh',
      'timed cases (expiry = clock reading, +-1), is_expired called directly; kad cases: served answers checked against the previous dump'],
     ['a stored record with an expiry is never replaced by one that expires earlier',
      'C17_ttl_monotone, C17_put_lookup, C17_put_other',
      'legacy + timed: per-put judgement in step_ok; kad: rel_le on every key present before and after an event'],
     ['providers kept sorted by distance; at the bound only the closest retained; re-announcement updates in place',
      'C17_bounds_sorted (strict sortedness), C17_put_provider_spec, C17_no_provider_twice, C17_no_provider_twice_xor',
      'spec_put recomputed by prop_ok on the implementation\'s lists; stored order dumped'],
     ['reads delete nothing but expired entries of the asked key',
      'C17_get_pure, C17_get_providers_pure',
      'others_same_* / same_but_* in step_ok'],
     ['(callers) what enters the store: validation mode, sender = provider, address truncation, publisher / expiry on receipt',
      'C17_loop_only_store_ops, C17_manual_mode_no_remote_record, C17_remote_adds_only_sender, C17_remote_keeps_local_registrations, C17_loop_address_bound, C17_source_tables_covered',
      'kad cases on the real Kademlia::run; corpus w3'],
     ['(oracle) prop_ok judges the property text, not "equals the model"',
      'C17_oracle_invariant_sound, C17_oracle_invariant_complete, C17_oracle_spec_is_theorem_spec',
      'driver ok on implementation and model traces of every case'],
     ['(refresh) local providers are re-announced: only provided keys, stored quorum, not before the interval, none skipped',
      'C17_local_providers_sync, C17_refresh_only_provided, C17_refresh_after_interval, C17_poll_fires_all_due, C17_refresh_future_count, C17_loop_refresh_armed, C17_default_refresh_before_expiry',
      'timed cases (next_action under the paused clock, deadline +-1 ms); kad cases (refresh actions of the loop)']]}
