"""Configuration of ./check for C17 (see tools/props.py)."""
ENTRY = {'coq_dir': 'C17',
 'harness': 'c17',
 'cases': {'quick': 400, 'thorough': 100000},
 'consts': ['DEFAULT_MAX_RECORDS',
            'DEFAULT_MAX_RECORD_SIZE_BYTES',
            'DEFAULT_MAX_PROVIDER_KEYS',
            'DEFAULT_MAX_PROVIDER_ADDRESSES',
            'DEFAULT_MAX_PROVIDERS_PER_KEY'],
 'rule': 'seeded random operation histories (10-120 ops quick, 20-500 thorough) over <=8 keys and <=10 providers with configurations drawn '
         'from {0,1,2,3,default}; after every operation the returned value and the full sorted store dump of the real MemoryStore are '
         'compared with the extracted Coq model; a case is non-trivial when its trace has >= 8 numbers; distinct = distinct (case, trace) '
         'pairs',
 'trusted_base': ['SHA-256 distance between provider and key enters the model as a rank supplied by the harness (computed with the real '
                  'code); equal distance <=> equal peer is assumed',
                  'std::time::Instant: expiries are placed >= 1000 s in the future or < 1 ms after harness start, so that wall-clock drift '
                  'cannot flip a comparison'],
 'level_text': 'Proof: the store invariant (all five size bounds, key uniqueness, strictly distance-sorted duplicate-free provider lists) '
               'is proved inductive over every operation history and configuration with max_providers_per_key >= 1; freshness of reads, '
               'TTL monotonicity and the put_provider refinement (delete old entry, insert sorted, keep the closest) are theorems about '
               'the model; the model is tied to store.rs by a per-operation differential run with full state dumps.',
 'level_note': 'Trusted: Coq kernel, ExtrOcamlBasic extraction, the harness and hooks; SHA-256 distances enter as ranks; Instant-based '
               'expiry is exercised only far from the comparison boundary; the refresh timer of local providers is not modelled.',
 'assumptions': ['max_providers_per_key >= 1 (as in the property text)', 'HashMap iteration order is not observable (dumps are sorted)']}
