"""Configuration of ./check for C18 (see tools/props.py)."""
ENTRY = {
    'coq_dir': 'C18',
    'harness': 'c18',
    'cases': {'quick': 15000, 'thorough': 400000},
    'consts': ['MAX_INLINE_KEY_LENGTH', 'MULTIHASH_IDENTITY_CODE', 'PEER_ID_MULTIHASH_SIZE', 'PEER_ID_SITES',
               'PEER_ID_PARSE_SITES', 'PEER_ID_ADMITTED_KEY_TYPES', 'C18_KEY_TYPE_RSA', 'C18_KEY_TYPE_ED25519',
               'C18_KEY_TYPE_SECP256K1', 'C18_KEY_TYPE_ECDSA'],
    'nontrivial_min_trace': 4,
    # second build of the harness with the cargo features under which the TLS certificate parser (QUIC) and RSA
    # identity keys exist; thorough tier only (the build alone takes minutes)
    'aux_stream': {'tiers': ['thorough'], 'features': 'quic,rsa', 'target_dir': 'target-quic', 'args': '--aux 1',
                   'cases': {'thorough': 15000}, 'corpus': 'corpus/C18-aux'},
    'rule': 'seeded inputs of eight kinds, each run through litep2p, the extracted Coq model and libp2p-identity 0.2.14 (three-way): '
            '(1) byte strings built around multihashes of codes {0x00,0x11,0x12,0x13,0x16,0xb220,random u64} x digest lengths 0-70 with '
            'declared!=actual lengths, zero-padded / over-long / overflowing / cut varints, trailing and missing bytes, and random strings -> '
            'PeerId::from_bytes, and on the same input TryFrom<Vec<u8>>, binary Deserialize, Multihash::from_bytes + TryFrom<Multihash> / '
            "from_multihash (all must agree); (2) their base58 texts with invalid characters, extra leading/trailing '1', substitutions -> "
            'PeerId::from_str, and on the same input str::parse, human-readable Deserialize, serde_json, /p2p/<text> and /ipfs/<text> '
            '(all must agree); (3) binary /p2p multiaddress components with the same varint styles on the protocol id and length -> '
            'Multiaddr::try_from + try_from_multiaddr; (4) protobuf key blobs of 0-100 bytes from a protobuf-aware mutator (field order, '
            'repeated and unknown fields of every wire type, non-minimal varints, key types 0-4 and out of range, wrong lengths, bit flips, '
            "truncation, random) -> from_public_key_protobuf, RemotePublicKey::from_protobuf_encoding + to_peer_id versus the reference's "
            'try_decode_protobuf + to_peer_id; (5) random Ed25519 keypairs with canonical or mutated encodings pushed through the real Noise '
            'identity check with a valid signature, plus from_public_key / From / to_peer_id / is_public_key on the key; (6) textual '
            'multiaddresses made of p2p, ipfs (legacy alias) and p2p-circuit components with malformed variants -> Multiaddr::from_str + '
            'try_from_multiaddr; (7) pairs of ids (equal, one byte apart, same digest under the other code, one digest a prefix of the '
            'other) -> PartialEq, Ord/PartialOrd in both directions, Hash, against equality and lexicographic order of to_bytes and equality '
            'of to_base58; (8) PeerId::random draws. Every accepted id is rendered to bytes, base58 and a /p2p component (compared with the '
            'model) and converted back through nine paths (from_bytes, from_str/Display, Protocol::P2p via the infallible From, binary '
            'multiaddr, textual multiaddr, serde_json, binary serde both ways, TryFrom<Vec<u8>>/From<PeerId> for Vec<u8>, '
            'Multihash/multiaddr::PeerId); result class (value / reject / PANIC) is compared. Thorough tier, second stream (harness rebuilt '
            'with --features quic,rsa): (9) the same keypair cases through a TLS certificate whose libp2p extension carries the (mutated) '
            'encoding, parsed and verified by crypto::tls::certificate::parse as QUIC does; (10) rust-libp2p\'s RSA test keys (2048/3072/4096) '
            'with mutated protobuf framing / DER through from_protobuf_encoding + to_peer_id, the Noise identity check and the TLS '
            'certificate, with real RSA signatures. A case is non-trivial when its trace has >= 4 numbers',
    'trusted_base': ["SHA-256 is not modelled: digests are supplied by the harness (sha2 crate) and compared with litep2p's "
                     'multihash-codetable digest; theorems quantify over every hash function',
                     'the prost protobuf decoder, the curve25519 point check and the X.509 parser are not modelled: for key blobs the accept '
                     'bit and decoded key are an oracle taken from RemotePublicKey::from_protobuf_encoding (a parameter `dec` in the '
                     'theorems); only the canonical form 08 01 12 20 || key is decided by the model; agreement of the accept bit with the '
                     'reference decoder is checked differentially (Ed25519)',
                     'the reference is libp2p-identity 0.2.14 as linked into the harness (multiaddr::PeerId is the same type); its admission '
                     'rule is also transcribed as ref_admits. Its `rsa` feature does not build offline (asn1_der missing), so for RSA the '
                     'reference rule (SHA-256 of 08 00 12 len SubjectPublicKeyInfo) is transcribed from its source and checked on its own '
                     'test vector in a unit test of the fix',
                     'multihash 0.19.5, unsigned-varint 0.8.0, bs58 0.5.1, multiaddr 0.18.2 (whose text form uses multibase/base-x, a second '
                     'base58 implementation: one model, compared differentially) are modelled from their source as read; versions pinned by Cargo.lock',
                     'tools/gen_c18_sites.py (regex-level skeleton extractor: the places of the crate that make a PeerId from key material); '
                     'type-directed `.into()` conversions outside functions named to_peer_id are invisible to it',
                     'signature verification is a boolean parameter of the handshake models; the harness supplies valid signatures'],
    'level_text': 'Proof: for the executable model of PeerId (multihash bytes = varint code, varint length, digest with the Multihash<64> '
                  'limit and the unsigned-varint minimal/overflow/truncation rules; admission; derivation from a key encoding; bs58; the '
                  'binary /p2p component; the textual multiaddress over p2p/ipfs/p2p-circuit; serde in both forms and JSON; the derived '
                  'Eq/Ord) it is proved that id -> bytes/text/component/textual address/serde/JSON -> id is the identity on every valid id, '
                  'that every parser and constructor (incl. PeerId::random) yields valid ids (the invariant behind the infallible conversion '
                  "to multiaddr::PeerId), that litep2p's admission predicate equals the reference's, that every derivation entry point of "
                  'the crate (from_public_key, both From impls, PublicKey/ed25519/RemotePublicKey::to_peer_id, the local ids, the Noise '
                  'identity check and the TLS certificate parser) is one function `derive` of the canonical key encoding and independent of '
                  'the received bytes (C18_single_derivation, with the list of derivation sites extracted from the source on every check and '
                  'proved equal to the model\'s table), that Ed25519 ids are the identity multihash of 08 01 12 20 || key and injective in '
                  'the key, RSA ids the SHA-256 multihash of the canonical message, that two valid ids are equal iff their bytes / texts / '
                  'components are and that the derived Ord is the byte order, that base58 is a bijection, and that accepted inputs are '
                  'canonical unless a varint uses its 10th byte (a refuted full statement with witness is kept). The model is tied to the '
                  'Rust code by a three-way differential run.',
    'level_note': 'Trusted: Coq kernel, ExtrOcamlBasic extraction, harness and hooks; SHA-256, prost, the curve check, X.509 parsing and '
                  'signature verification enter as parameters/oracles; agreement with the reference implementation is differential testing '
                  "plus transcribed rules, not a proof about the reference's code. The TLS-certificate and RSA paths exist only under cargo "
                  'features quic/rsa and are run in the thorough tier (second harness build); in the quick tier they are covered by the '
                  'derivation-site table only. Textual multiaddresses with protocols other than p2p/ipfs/p2p-circuit are outside the model. '
                  'Secp256k1 and ECDSA identity keys are rejected by litep2p (UnknownKeyType), so there is no id to compare.',
    'assumptions': ['bytes are below 256 and texts are ASCII (other inputs are rejected by model and code alike)',
                    'Multihash<64> values keep the bytes beyond `size` zero (true of wrap and from_bytes; PeerId never truncates) — the '
                    'derived Ord compares the whole array; exercised by the pair cases'],
}
