"""Configuration of ./check for C18 (see tools/props.py)."""
ENTRY = {'coq_dir': 'C18',
 'harness': 'c18',
 'cases': {'quick': 15000, 'thorough': 250000},
 'consts': ['MAX_INLINE_KEY_LENGTH',
            'MULTIHASH_IDENTITY_CODE',
            'PEER_ID_MULTIHASH_SIZE',
            'PEER_ID_SITES',
            'PEER_ID_PARSE_SITES',
            'PEER_ID_ADMITTED_KEY_TYPES',
            'C18_KEY_TYPE_RSA',
            'C18_KEY_TYPE_ED25519',
            'C18_KEY_TYPE_SECP256K1',
            'C18_KEY_TYPE_ECDSA'],
 'nontrivial_min_trace': 4,
 'aux_stream': {'tiers': ['thorough'],
                'features': 'quic,rsa',
                'target_dir': 'target-quic',
                'args': '--aux 1',
                'cases': {'thorough': 15000},
                'corpus': 'corpus/C18-aux'},
 'rule': 'three-way run (litep2p, the extracted Coq model, libp2p-identity 0.2.14) over eleven kinds of input. A systematic prelude, the '
         'same in every run, enumerates what is small enough: codes {0x00,0x11,0x12,0x13,0x16,0xb220} x every digest length 0..70 in '
         'canonical form as bytes, base58 text, /p2p component and AddressRecord peer; one key blob of every length 0..100; key types '
         '{0..5,127,128,2^31-1,2^31,2^32,2^32+1,2^32+2,2^64-1} x Data lengths {0,1,31,32,33,64} in canonical framing. Then seeded cases: '
         '(1) byte strings around multihashes with declared!=actual lengths, zero-padded / over-long / overflowing / cut varints, trailing '
         'and missing bytes, random strings -> PeerId::from_bytes and, on the same input, TryFrom<Vec<u8>>, binary Deserialize, a '
         'human-readable deserializer that hands over bytes, Multihash::from_bytes + TryFrom<Multihash> / from_multihash (all must agree); '
         "(2) their base58 texts with invalid characters, extra '1's, substitutions -> PeerId::from_str (with the error variant B58 / "
         'MultiHash), str::parse, human-readable Deserialize, a binary deserializer that hands over a string, serde_json, /p2p/<text>, '
         '/ipfs/<text>; (3) binary /p2p components with the same varint styles on protocol number and length -> Multiaddr::try_from + '
         'try_from_multiaddr; (4) protobuf key blobs of 0-100 bytes from a protobuf-aware mutator -> from_public_key_protobuf (SHA-256 '
         'computed by the model), the message as the real prost decoder reads it (type, Data), RemotePublicKey::from_protobuf_encoding + '
         "to_peer_id versus the model's decoder + admission (only the curve check is an oracle bit) and the reference's "
         'try_decode_protobuf + to_peer_id; (5) Ed25519 keypairs with canonical or mutated encodings through the real Noise identity check '
         'with a valid signature, plus from_public_key, both From impls, PublicKey/ed25519 to_peer_id, is_public_key on the own key, '
         'another key and the legacy SHA-256 id, and (one case in eight) Litep2p::new().local_peer_id(); (6) textual multiaddresses of p2p '
         '/ ipfs / p2p-circuit components; (7) pairs of ids -> PartialEq, Ord/PartialOrd both ways, Hash against the byte order; (8) '
         'PeerId::random draws; (11) a peer id and ANY binary multiaddress '
         '(ip4/ip6/tcp/udp/quic-v1/ws/wss/dns4/memory/webrtc-direct/p2p-circuit/p2p components, byte-level /p2p variants, damage) -> '
         'try_from_multiaddr, AddressRecord::new, AddressRecord::from_multiaddr. Every accepted id is rendered to bytes, base58 and a /p2p '
         'component (compared with the model) and converted back through nine paths (Display and Debug included); result class (value / '
         'reject / PANIC) is compared. Thorough tier, second stream (harness rebuilt with --features quic,rsa): (9) the keypair cases '
         'through a TLS certificate whose libp2p extension carries the (mutated) encoding, parsed and verified by '
         "crypto::tls::certificate::parse, plus the crate's own certificate generator; (10) rust-libp2p's RSA test keys with mutated "
         'protobuf framing / DER through from_protobuf_encoding + to_peer_id, the Noise identity check and the TLS certificate with real '
         'RSA signatures (model: prost decoder, admission with the rsa feature, SHA-256 of the canonical message; the X.509 parser is an '
         'oracle bit only for non-canonical DER). A case is non-trivial when its trace has >= 4 numbers',
 'trusted_base': ['SHA-256 is an executable Gallina function (coq/common/Sha256.v, FIPS 180-4) checked on the NIST vectors inside Coq and '
                  "against litep2p's multihash-codetable digest on every blob longer than 42 bytes and every RSA key; nothing is proved "
                  'about it beyond "32 bytes out"; the theorems that mention a hash hold for every hash function',
                  'the curve25519 point check (ed25519_dalek::VerifyingKey::from_bytes) and the X.509 / DER parser of RSA keys are not '
                  'modelled: one oracle bit per case (`on_curve`, `x509` parameters of the theorems), the X.509 bit is consulted only when '
                  'the Data field is not the canonical SubjectPublicKeyInfo. The prost decoder IS modelled (coq/common/Protobuf.v + '
                  'fold_keymsg) and diffed field by field',
                  'the reference is libp2p-identity 0.2.14 as linked into the harness (multiaddr::PeerId is the same type); its admission '
                  'rule is also transcribed as ref_admits. Its protobuf decoder (quick-protobuf) is only compared differentially. Its '
                  '`rsa` feature does not build offline (asn1_der missing), so for RSA the reference rule (SHA-256 of 08 00 12 len '
                  'SubjectPublicKeyInfo) is transcribed from its source and checked on its own test vector in a unit test of the fix',
                  'multihash 0.19.5, unsigned-varint 0.8.0, bs58 0.5.1, multiaddr 0.18.2 (protocol table: coq/C19/Formats.v; text form '
                  'uses multibase/base-x, a second base58 implementation: one model, compared differentially) are modelled from their '
                  'source as read; versions pinned by Cargo.lock',
                  'tools/gen_c18_sites.py (regex-level extractor: derivation sites, parse sites, key-admission match arms, KeyType enum); '
                  'type-directed `.into()` conversions outside functions named to_peer_id are invisible to it — but the `multihash` field '
                  'is private to src/peer_id.rs, so every PeerId comes out of one of the listed constructors',
                  'signature verification is a boolean parameter of the handshake models; the harness supplies valid signatures'],
 'level_text': 'Proof: for the executable model of PeerId (multihash bytes with the Multihash<64> limit and the unsigned-varint rules; '
               'admission; derivation from a key encoding with SHA-256 itself; the prost decoder of keys.proto and the key admission of '
               'RemotePublicKey; bs58; the binary /p2p component and general binary multiaddresses; the textual multiaddress over '
               'p2p/ipfs/p2p-circuit; serde in both forms and JSON; the derived Eq/Ord; AddressRecord::new / from_multiaddr) it is proved '
               'that id -> bytes / text / component / any address ending in /p2p / textual address / serde / JSON -> id is the identity on '
               'every valid id; that every parser and constructor (incl. derive with SHA-256, PeerId::random) yields valid ids, which '
               "satisfy the reference's admission rule (the invariant behind the infallible conversion to multiaddr::PeerId, used by "
               "AddressRecord::new); that litep2p's admission predicate equals the reference's; that derive is the identity multihash up "
               'to 42 bytes and the SHA-256 multihash above (closed form); that every derivation entry point of the crate is `derive` of '
               'the canonical key encoding (site table extracted from the source), and composed with the modelled decoder: whatever bytes '
               'a remote sends, an accepted identity has the id of the canonical encoding of the admitted key, Ed25519 ids are the '
               'identity multihash of 08 01 12 20 || key, injective in the key and self-describing; that exactly Ed25519 (and RSA under '
               'the cargo feature) of the four KeyType entries is admitted (tables extracted from keys.proto and the match arms); that two '
               'valid ids are equal iff their bytes / texts / components are and the derived Ord is the byte order; that base58 is a '
               'bijection; and canonicality EXACTLY: an accepted byte string / text / component is the rendering of its id iff it has the '
               'canonical length, the other accepted inputs are 9 or 18 bytes longer (a 10-byte varint) — the full statement is refuted '
               'with a witness (known finding class 1) and the re-encoding check that would repair it is shown to differ from the real '
               'parser exactly on that class, which the reference accepts. The model is tied to the Rust code by a three-way differential '
               'run.',
 'level_note': 'Trusted: Coq kernel, ExtrOcamlBasic extraction, harness and hooks; the curve check, X.509 parsing and signature '
               'verification enter as parameters/oracle bits; SHA-256 is executable and tested, not proved; agreement with the reference '
               "implementation is differential testing plus transcribed rules, not a proof about the reference's code. The TLS-certificate "
               'and RSA paths exist only under cargo features quic/rsa and are run in the thorough tier (second harness build); in the '
               'quick tier they are covered by the derivation-site table only. Identify::new and TransportManagerBuilder::build are '
               'covered by the site table and (the latter) through Litep2p::new. Textual multiaddresses with protocols other than '
               'p2p/ipfs/p2p-circuit are outside the model (binary ones are inside). Secp256k1 and ECDSA identity keys are rejected by '
               'litep2p (UnknownKeyType), so there is no id to compare. `impl TryFrom<keys_proto::PublicKey> for crypto::PublicKey` has no '
               'caller in the crate (dead code; its admission arm is in the extracted table). Canonicality vs. reference agreement: the '
               'statement demands "accepts exactly what the reference accepts"; the over-long forms are accepted by the reference too, the '
               'multiaddress path never shows litep2p the bytes, so no repair is made in litep2p (C18_strict_parser) and class 1 stays a '
               'recorded finding about the title word "canonical".',
 'assumptions': ['bytes are below 256 and texts are ASCII (other inputs are rejected by model and code alike)',
                 'Multihash<64> values keep the bytes beyond `size` zero (true of wrap and from_bytes; PeerId never truncates) — the '
                 'derived Ord compares the whole array; exercised by the pair cases',
                 'kinds 5/9: the public key in the case is the one of the secret key (the harness recomputes it) and is a curve point',
                 'kind 10: the X.509 parser accepts the canonical SubjectPublicKeyInfo of a valid RSA key as that key (the oracle bit '
                 'covers every other Data field)'],
 'coq_deps': ['C19'],
 'clause_map': [['"The peer id of a public key is the identity multihash of its protobuf encoding when that encoding is at most 42 bytes '
                 'and its SHA-256 multihash otherwise"',
                 'C18_derive_sha256 (closed, SHA-256 itself), C18_derive_inline, C18_derive_hashed, C18_ed25519_inline, C18_ed25519_id, '
                 'C18_rsa_id, C18_key_encoding_is_message, C18_single_derivation + C18_derivation_sites (every entry point is this '
                 'function)',
                 'kind 4 (blob of every length 0..100: from_public_key_protobuf vs derive sha256), kinds 5/9/10 (from_public_key, From, '
                 'to_peer_id, Noise, TLS, Litep2p::new)'],
                ['"identical to what the reference libp2p implementation derives"',
                 'C18_remote_identity_canonical, C18_remote_identity_one_id, C18_identity_encoding_irrelevant (the id depends on the '
                 'admitted key only); the reference side is differential',
                 'kind 4 (refacc = acc, refpid = pid), kind 5/9 (refpid, reference encode_protobuf = to_protobuf_encoding), kind 10 '
                 '(transcribed RSA rule)'],
                ['"Parsing from bytes, base58 text or a multiaddress accepts exactly what the reference accepts"',
                 'C18_admits_reference, C18_infallible_conversion, C18_parsed_p2p_has_id, C18_parse_sites, C18_text_error_variant (which '
                 'error); C18_strict_parser (why no canonicalising repair)',
                 'kinds 1, 2, 3, 6, 11: refacc / refsame flags on every case, entry-point agreement flags'],
                ['"and never panics"',
                 'totality of the model functions; C18_parsed_valid / C18_parsed_text_valid / C18_parsed_component_valid / '
                 'C18_addr_text_valid / C18_multiaddr_id_valid / C18_derived_valid / C18_derived_roundtrip / C18_random_valid + '
                 'C18_infallible_conversion (the expect() in From<PeerId> for multiaddr::PeerId cannot fire), C18_is_public_key_total, '
                 'C18_address_record_new',
                 'every case runs under catch_unwind (PANIC mark in the trace); accepted_tail performs the infallible conversion on every '
                 'accepted id; kind 11 drives AddressRecord::new'],
                ['"converting any accepted peer id to bytes, text, a multiaddress component or its serialized form and back yields the '
                 'same peer id"',
                 'C18_bytes_roundtrip, C18_text_roundtrip, C18_component_roundtrip, C18_component_is_multiaddr, '
                 'C18_multiaddr_trailing_p2p, C18_multiaddr_roundtrip, C18_addr_text_roundtrip, C18_serde_roundtrip, C18_serde_sound, '
                 'C18_bytes_normalise, C18_b58_decode_encode, C18_b58_encode_decode, C18_eq_iff_bytes, C18_ord_is_bytes_order, '
                 'C18_text_alphabet',
                 'flags f1..f9 of every accepted case (kinds 1, 2, 3, 6, 8), renderings compared with the model'],
                ['title: "canonical"',
                 'C18_bytes_canonical_iff, C18_text_canonical_iff, C18_component_canonical_iff, C18_bytes_header, '
                 'C18_bytes_noncanonical_length, C18_bytes_canonical_partial, C18_text_canonical_partial, C18_addr_text_canonical_partial, '
                 'C18_bytes_canonical_refuted (finding class 1), C18_varint_minimal, C18_varint_roundtrip; canonical key encoding: '
                 'C18_ed25519_encoding_roundtrip, C18_ed25519_encoding_unique, C18_keymsg_roundtrip, C18_key_admission_canonical',
                 'canon_ok on kinds 1-3 (input = rendering), known_class 1 = exactly +9/+18 bytes (bytes, text) or the listed sums '
                 '(component)'],
                ['quantifier: "all ed25519 keys and all protobuf-encoded key blobs of 0..100 bytes"',
                 'C18_key_admission_sound, C18_key_admission_other_types, C18_key_types, C18_admission_tables, C18_ed25519_try_from_bytes, '
                 'C18_ed25519_injective, C18_is_public_key_own, C18_is_public_key_true, C18_is_public_key_other',
                 'kind 4 (message fields as read by the real prost decoder vs decode_keymsg; acc vs admit_key), systematic key-type x '
                 'length sweep'],
                ['anchor: src/transport/manager/address.rs', 'C18_address_record_new, C18_address_record_components', 'kind 11']]}
