"""Configuration of ./check for C18 (see tools/props.py)."""
ENTRY = {'coq_dir': 'C18',
 'harness': 'c18',
 'cases': {'quick': 15000, 'thorough': 400000},
 'consts': ['MAX_INLINE_KEY_LENGTH', 'MULTIHASH_IDENTITY_CODE', 'PEER_ID_MULTIHASH_SIZE'],
 'nontrivial_min_trace': 4,
 'rule': 'seeded inputs of five kinds, each run through litep2p, the extracted Coq model and libp2p-identity 0.2.14 (three-way): (1) byte '
         'strings built around multihashes of codes {0x00,0x11,0x12,0x13,0x16,0xb220,random u64} x digest lengths 0-70 with '
         'declared!=actual lengths, zero-padded / over-long / overflowing / cut varints, trailing and missing bytes, and random strings -> '
         "PeerId::from_bytes; (2) their base58 texts with invalid characters, extra leading/trailing '1', substitutions -> "
         'PeerId::from_str; (3) binary /p2p multiaddress components with the same varint styles on the protocol id and length -> '
         'Multiaddr::try_from + try_from_multiaddr; (4) protobuf key blobs of 0-100 bytes from a protobuf-aware mutator (field order, '
         'repeated and unknown fields of every wire type, non-minimal varints, key types 0-4 and out of range, wrong lengths, bit flips, '
         "truncation, random) -> from_public_key_protobuf, RemotePublicKey::from_protobuf_encoding + to_peer_id versus the reference's "
         'try_decode_protobuf + to_peer_id; (5) random Ed25519 keypairs with canonical or mutated encodings pushed through the real Noise '
         'identity check with a valid signature. Every accepted id is rendered to bytes, base58 and a /p2p component (compared with the '
         'model) and converted back through nine paths (from_bytes, from_str/Display, Protocol::P2p via the infallible From, binary '
         'multiaddr, textual multiaddr, serde_json, binary serde, TryFrom<Vec<u8>>, Multihash/multiaddr::PeerId); result class (value / '
         'reject / PANIC) is compared; a case is non-trivial when its trace has >= 4 numbers',
 'trusted_base': ["SHA-256 is not modelled: the digest of a key blob is supplied by the harness (sha2 crate) and compared with litep2p's "
                  'multihash-codetable digest',
                  'the prost protobuf decoder and the curve25519 point check are not modelled: for key blobs the accept bit and decoded '
                  'key are an oracle taken from RemotePublicKey::from_protobuf_encoding; only the canonical form 08 01 12 20 || key is '
                  'decided by the model; agreement of the accept bit with the reference decoder is checked differentially',
                  'the reference is libp2p-identity 0.2.14 as linked into the harness (multiaddr::PeerId is the same type); its admission '
                  'rule is also transcribed as ref_admits',
                  'multihash 0.19.5, unsigned-varint 0.8.0, bs58 0.5.1, multiaddr 0.18.2 are modelled from their source as read; their '
                  'versions are pinned by Cargo.lock'],
 'level_text': 'Proof: for the executable model of PeerId (multihash bytes = varint code, varint length, digest with the Multihash<64> '
               'limit and the unsigned-varint minimal/overflow/truncation rules; admission; derivation from a key encoding; bs58; the '
               'binary /p2p component) it is proved that id -> bytes/text/component -> id is the identity on every valid id, that every '
               'parser and constructor yields valid ids (the invariant behind the infallible conversion to multiaddr::PeerId), that '
               "litep2p's admission predicate equals the reference's, that Ed25519 ids are the identity multihash of 08 01 12 20 || key "
               'and are injective in the key, that base58 is a bijection, and that accepted inputs are canonical unless a varint uses its '
               '10th byte (a refuted full statement with witness is kept). The model is tied to the Rust code by a three-way differential '
               'run.',
 'level_note': 'Trusted: Coq kernel, ExtrOcamlBasic extraction, harness and hooks; SHA-256, prost and the curve check enter as oracles; '
               'agreement with the reference implementation is differential testing plus a transcribed admission rule, not a proof about '
               "the reference's code. serde and the textual multiaddr are exercised by the harness only (not modelled). The "
               'TLS-certificate caller of the same derivation is not exercised.',
 'assumptions': ['bytes are below 256 and texts are ASCII (other inputs are rejected by model and code alike)',
                 'the `rsa` cargo feature is off in the harness build (RSA keys keep the received-bytes derivation)']}
