#!/usr/bin/env python3
"""usage: tools/seed_prompt.py C05 c  -> prints the prompt for an independent seeding sub-agent (round letter c, d, ...).
The prompt contains only the property text and summaries of earlier seeded changes (so that a new one differs);
nothing about the checks in /verif."""
import json, sys, os, glob
pid, rnd = sys.argv[1], sys.argv[2]
V = os.path.dirname(os.path.dirname(os.path.abspath(__file__)))
prop = [json.loads(l) for l in open(V + "/properties.jsonl") if json.loads(l)["id"] == pid][0]
prev = []
for m in sorted(glob.glob(V + "/seeded/%s/meta.json" % pid) + glob.glob(V + "/seeded/%s/*/meta.json" % pid)):
    try:
        prev.append(json.load(open(m)).get("summary", "")[:400])
    except Exception:
        pass
D = "/tmp/seed/%s%s" % (pid, rnd)
print(f"""You are testing how robust a verification effort for the Rust crate paritytech/litep2p is. You get ONE semantic property of
the crate and your own scratch git worktree of the repository at {D} (already created; `cd {D}`). Work ONLY inside {D}
(never touch /repo or /verif; do not read /verif). The sandbox is offline; build with
`CARGO_NET_OFFLINE=true CARGO_TARGET_DIR={D}/target cargo test --offline ...`.

THE PROPERTY ({pid}: {prop['title']})
Statement: {prop['statement']}
Quantifier: {prop['quantifier']['text']}
Why the existing tests cannot settle it: {prop['why_tests_cant']}
Anchors (files / state / functions): {json.dumps(prop['anchors'])}

YOUR TASK: produce ONE realistic change to the crate's source (src/**, not tests) that BREAKS this property while the crate
still compiles (default features and `--features websocket`, also `--features verif,websocket`) and the EXISTING test suite
still passes (`cargo test --offline --lib` and the integration tests `cargo test --offline --test mod` etc. that touch the
changed code — run at least the lib tests fully and the relevant integration tests). The change must look like something a
maintainer could plausibly write (a refactor, an optimisation, a "simplification", an off-by-one, a reordered await, a
dropped branch, a changed data structure, an early return), NOT a sabotage that ordinary use would expose at once.
It must need something SPECIFIC to manifest: a particular interleaving, a fault at a particular point, a multi-step sequence
of operations, an unusual input, or two cooperating sites that each look fine alone.

Code under `#[cfg(feature = "verif")]` and files named `verif*.rs` are test instrumentation of another team: do not modify
them, do not depend on them, and make sure your change also compiles with `--features verif,websocket`.

Earlier seeded changes for this property (do something DIFFERENT: another function, another mechanism, another trigger):
""" + "\n".join("  - " + p for p in prev) + f"""

DELIVER, in {D}/SEEDED/ (create the directory):
  patch.diff  — `git diff -- src` of your change ONLY (no tests, no demo), relative to the worktree's HEAD; must apply with `git apply`.
  demo.diff   — a diff that ADDS a demonstration (a new file under tests/ or a new #[test] inside an existing `mod tests`), relative
                to HEAD and independent of patch.diff (it must apply on the clean tree, and patch.diff must apply after it).
                The demonstration must PASS on the clean tree and FAIL with your change, deterministically (run it 3 times each way).
                Use a shell `timeout` in demo_command if a hang is the failure mode.
  meta.json   — {{"summary": what you changed and where, "why_it_breaks": ..., "needs_to_manifest": the specific situation,
                 "commands_run": [what you ran and the results, incl. the existing suite with the change],
                 "demo_command": the exact shell command that runs the demo from the worktree root (with CARGO_TARGET_DIR={D}/target and --offline),
                 "demo_fails_with_change": true, "demo_passes_without": true}}
Before finishing: `git stash`-free verification — check out a clean tree (`git checkout -- . && git clean -fd tests src`), apply demo.diff,
run the demo (must pass), apply patch.diff, run the demo (must fail), and run `cargo test --offline --lib` with the change (must pass).
Leave the worktree in the state "clean tree + demo.diff + patch.diff applied". Finish with a 10-line report.
""")
