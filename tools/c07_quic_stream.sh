#!/bin/bash
# C07: the end-to-end fault-script stream over QUIC. Run by the thorough tier of ./check C07 (cfg thorough_streams) and
# by hand; the harness is built a second time with its optional `quic` feature into harness/target-quic (that feature
# changes the transport set litep2p is compiled with, so the default build of the harness does not have it):
#     source /work/<ID>/env.sh; tools/c07_quic_stream.sh [seed] [report-level cases] [one scenario per N of them]
# Builds harness/ with `--features quic` into harness/target-quic, runs the C07 stream with every scenario over
# QUIC, runs the extracted model (ocaml/build/C07/driver, built by ./check C07) on the same cases and prints
# disagreements and oracle verdicts. Exit 0 iff implementation and model agree on every case and every prop_ok
# failure lies in a known class (a suspect end-to-end scenario is confirmed by three solo replays first: real time).
# With --quic 1 the loop-level cases (kind 3) drive the real QuicConnection::start as well.
set -e
V="$(cd "$(dirname "$0")/.." && pwd)"
SEED=${1:-1}; CASES=${2:-1000}; EVERY=${3:-4}
D=$V/ocaml/build/C07/driver
[ -x "$D" ] || { echo "run ./check C07 first (extracted model missing)"; exit 2; }
W=$V/work/C07-quic; mkdir -p "$W"
if ! (cd "$V/harness" && CARGO_NET_OFFLINE=true CARGO_TARGET_DIR="$V/harness/target-quic" timeout 3000 cargo build --offline --features quic > "$W/build.log" 2>&1); then
  grep -E "^error" -A8 "$W/build.log" | head -40
  echo "C07 quic stream: the harness does not build with --features quic"
  exit 3
fi
grep -E "Finished" "$W/build.log" || true
"$V/harness/target-quic/debug/verif-harness" c07 --seed "$SEED" --cases "$CASES" --e2e-every "$EVERY" --quic 1 \
    --out-cases "$W/q.cases" --out-trace "$W/q.impl"
"$D" run < "$W/q.cases" > "$W/q.model"
"$D" ok "$W/q.cases" "$W/q.impl" > "$W/q.ok"
python3 - "$W" "$V" "$D" <<'PY'
import os, subprocess, sys
w, v, drv = sys.argv[1], sys.argv[2], sys.argv[3]
c = open(w + "/q.cases").read().splitlines(); t = open(w + "/q.impl").read().splitlines()
m = open(w + "/q.model").read().splitlines(); ok = open(w + "/q.ok").read().split()
bad = [i for i in range(len(c)) if t[i] != m[i]]
fail = [i for i, x in enumerate(ok) if x == "0"]
quic = sum(1 for x in c if x.startswith("1 ") and ((int(x.split()[2]) >> 1) & 3) == 2)
loop = sum(1 for x in c if x.startswith("3 "))

# The end-to-end scenarios run in real time (a step counts as settled after 200 ms of quiet): on a loaded machine a
# late event shows up as a disagreement. A suspect end-to-end case (kind 1) is therefore run again, alone, three
# times; it counts only if it fails again at least once. Report-level, back-pressure and loop-level cases (kinds
# 0, 2, 3) do not depend on time and always count.
def again(i):
    rc_ = os.path.join(w, "retry.case")
    open(rc_, "w").write("case: %s\n" % c[i])
    for _ in range(3):
        subprocess.run([os.path.join(v, "harness/target-quic/debug/verif-harness"), "c07", "--replay", rc_, "--quic", "1",
                        "--out-cases", w + "/r.cases", "--out-trace", w + "/r.impl"], stderr=subprocess.DEVNULL)
        rm = subprocess.run([drv, "run"], stdin=open(w + "/r.cases"), capture_output=True, text=True).stdout.splitlines()
        ro = subprocess.run([drv, "ok", w + "/r.cases", w + "/r.impl"], capture_output=True, text=True).stdout.split()
        ri = open(w + "/r.impl").read().splitlines()
        if ri != rm or any(x == "0" for x in ro):
            return True
    return False

suspects = sorted(set(bad + fail))
confirmed = [i for i in suspects if not c[i].startswith("1 ") or again(i)]
transient = [i for i in suspects if i not in confirmed]
bad = [i for i in bad if i in confirmed]; fail = [i for i in fail if i in confirmed]
print("C07 quic stream: %d cases (%d QUIC scenarios, %d QUIC loop-level cases), %d disagreements, %d oracle failures outside known classes, %d in known class, %d transient (end-to-end, not reproduced in three replays)" % (
    len(c), quic, loop, len(bad), len(fail), sum(1 for x in ok if x.startswith("k")), len(transient)))
for i in (bad + fail)[:5]:
    print("case:", c[i]); print("# impl: ", t[i]); print("# model:", m[i])
if bad or fail:
    os.makedirs(os.path.join(v, "replays"), exist_ok=True)
    rp = os.path.join(v, "replays", "C07-quic.case")
    i = (fail + bad)[0]
    open(rp, "w").write("# property C07 fails on this QUIC case (disagreement with the model or oracle prop_ok = false on the implementation's trace);\n"
                        "# it needs the harness built with `--features quic`: harness/target-quic/debug/verif-harness c07 --replay <this file> --quic 1 ...\n"
                        "case: %s\n# impl:  %s\n# model: %s\n" % (c[i], t[i], m[i]))
    print("STREAM-VIOLATION " + rp)
sys.exit(1 if bad or fail else 0)
PY
