#!/bin/bash
# C07: the end-to-end fault-script stream over QUIC. Run by the thorough tier of ./check C07 (cfg thorough_streams) and
# by hand; the harness is built a second time with its optional `quic` feature into harness/target-quic (that feature
# changes the transport set litep2p is compiled with, so the default build of the harness does not have it):
#     source /work/<ID>/env.sh; tools/c07_quic_stream.sh [seed] [report-level cases] [one scenario per N of them]
# Builds harness/ with `--features quic` into harness/target-quic, runs the C07 stream with every scenario over
# QUIC, runs the extracted model (ocaml/build/C07/driver, built by ./check C07) on the same cases and prints
# disagreements and oracle verdicts. Exit 0 iff implementation and model agree on every case and every prop_ok
# failure lies in a known class.
set -e
V="$(cd "$(dirname "$0")/.." && pwd)"
SEED=${1:-1}; CASES=${2:-1000}; EVERY=${3:-4}
D=$V/ocaml/build/C07/driver
[ -x "$D" ] || { echo "run ./check C07 first (extracted model missing)"; exit 2; }
W=$V/work/C07-quic; mkdir -p "$W"
if ! (cd "$V/harness" && CARGO_NET_OFFLINE=true CARGO_TARGET_DIR="$V/harness/target-quic" timeout 3000 cargo build --offline --features quic > "$W/build.log" 2>&1); then
  grep -E "^error" -A8 "$W/build.log" | head -40
  echo "C07 quic stream: the harness does not build with --features quic"
  exit 3
fi
grep -E "Finished" "$W/build.log" || true
"$V/harness/target-quic/debug/verif-harness" c07 --seed "$SEED" --cases "$CASES" --e2e-every "$EVERY" --quic 1 \
    --out-cases "$W/q.cases" --out-trace "$W/q.impl"
"$D" run < "$W/q.cases" > "$W/q.model"
"$D" ok "$W/q.cases" "$W/q.impl" > "$W/q.ok"
python3 - "$W" <<'PY'
import sys
w = sys.argv[1]
c = open(w + "/q.cases").read().splitlines(); t = open(w + "/q.impl").read().splitlines()
m = open(w + "/q.model").read().splitlines(); ok = open(w + "/q.ok").read().split()
bad = [i for i in range(len(c)) if t[i] != m[i]]
fail = [i for i, v in enumerate(ok) if v == "0"]
quic = sum(1 for x in c if x.startswith("1 ") and ((int(x.split()[2]) >> 1) & 3) == 2)
print("C07 quic stream: %d cases (%d QUIC scenarios), %d disagreements, %d oracle failures outside known classes, %d in known class" % (
    len(c), quic, len(bad), len(fail), sum(1 for v in ok if v.startswith("k"))))
for i in (bad + fail)[:5]:
    print("case:", c[i]); print("# impl: ", t[i]); print("# model:", m[i])
if fail:
    import os
    v = os.path.dirname(os.path.dirname(w))
    os.makedirs(os.path.join(v, "replays"), exist_ok=True)
    rp = os.path.join(v, "replays", "C07-quic.case")
    i = fail[0]
    open(rp, "w").write("# property C07 fails on this QUIC scenario (oracle prop_ok = false on the implementation's trace);\n"
                        "# it needs the harness built with `--features quic`: harness/target-quic/debug/verif-harness c07 --replay <this file> ...\n"
                        "case: %s\n# impl:  %s\n# model: %s\n" % (c[i], t[i], m[i]))
    print("STREAM-VIOLATION " + rp)
sys.exit(1 if bad or fail else 0)
PY
