#!/usr/bin/env python3
"""Skeleton extractor for C19: every place of the crate where bytes can be parsed, sliced or
used to size an allocation, and every place where a substream codec (frame limit) is chosen.

Scans all of src/**/*.rs (regex level; comments, strings and char literals blanked; `#[cfg(test)]`
items, `mod tests`/`mod mock` bodies, files under a `tests/` or `mock/` directory, `verif*.rs`
hook files and the uncompiled `transport/s2n-quic/` removed) for these tokens:

  DECODE kinds (reported in every file)
    1  decode      `::decode..(` / `.decode..(`            prost / codec / bs58 / yasna decode calls
    2  from_bytes  `from_bytes..(`, `try_from_bytes(`, `from_be/le_bytes(`   PeerId / Multihash / Prefix / key / integer constructors
    3  try_from    `Type::try_from(` / `.try_into(`        checked conversions (Multiaddr, Protocol, enums ..)
    4  parse       `parse..(`                              str::parse, Packet::parse, certificate parse ..
    5  read_       `read_..(`                              read_exact, read_message, read_bytes, read_payload_size ..
    6  protobuf    `from_protobuf_encoding(`
    7  varint      `decode::<ty>(` / `UviBytes`            unsigned-varint decoders
    8  utf8        `from_utf8..(`
    9  from_str    `from_str(`
   20..24, 29      entry points of third-party wire parsers, one kind per callee:
                   20 `tokio_tungstenite::accept_async(`, 21 `tokio_tungstenite::client_async_tls(`, 29 any other
                   tungstenite accept* / client* / connect* / WebSocketStream::from_* call, 22 str0m `.handle_input(`, 23 `yamux::Connection::new(`,
                   24 `.poll_next_inbound(`
  BUFFER kinds (reported only in files that contain at least one DECODE-kind site or define a
  `poll_read` / `poll_next` / `decode` / `dh` function: the files that handle wire bytes; a new
  parsing file gets its buffer sites listed as soon as it parses)
   10  with_capacity  `with_capacity(`
   11  vec_n          `vec![x; n]`
   12  grow           `.resize(` / `.reserve(` / `zeroed(` / `.set_len(`
   13  cursor         `.split_to(` / `.split_off(` / `.split_at(` / `.advance(` / `.truncate(` / `.get_uN(`
   14  slice          `[a..b]` with a non-trivial bound (not `[..]`), `.get(a..b)`
  CODEC sites (separate table): constructor uses `ProtocolCodec::Identity(..)` /
  `ProtocolCodec::UnsignedVarint(..)` (not match arms) with the argument text, i.e. which frame
  limit each protocol configures.

  PANIC-PATH sites (separate table `panic_sites`, every file): places where the crate itself can
  panic on a value, i.e. where "cannot happen" is an unchecked claim about a value that may have
  been DECODED FROM REMOTE BYTES one step earlier
   30  expect         `.expect(`
   31  unwrap         `.unwrap()`
   32  unreachable    `unreachable!(`
   33  panic          `panic!(`
   34  todo           `unimplemented!(` / `todo!(`
   35  assert         `assert!(` / `assert_eq!(` / `assert_ne!(` (not `debug_assert*`: compiled out of release builds)
   36  into_maddr_peer  a CALL of the conversion `From<PeerId> for multiaddr::PeerId` (which `expect`s):
                      `Protocol::P2p(<..>.into())`, `== / != <..>.into()`, `multiaddr::PeerId::from / try_from(`
  coq/C19/PanicSites.v classifies each (value from the network + the invariant that keeps it safe and
  the theorem that the producing decoder's accepted set implies it / own state machine / local
  configuration / encoder) and proves `panic_sites_match`: a new `expect`, or a new place that
  converts a peer id, breaks ./check C19 until it is classified.

Definitions (`fn name(`) are not sites. Each site is (file, enclosing fn, kind) with duplicates
kept (a second call in the same function is a new entry); sorted.  Written to
coq/gen/DecodeSites.v on every check; coq/C19/Sites.v holds the hand-written classification of
every site (model with theorems / harness only / not covered / not fed by wire bytes, and the
harness kind that drives it) and proves `sites_match` and `codecs_match` against the generated
lists - so a NEW decode site, allocation site or codec choice in the source (or one that moves to
another function) breaks a proof obligation of ./check C19 until it is classified.

`python3 tools/gen_c19_sites.py --table` prints the inventory table (markdown) by joining the
generated list with the classification in coq/C19/Sites.v; `--skeleton` prints Coq table lines
for sites that Sites.v does not list yet."""
import os
import re
import sys

HERE = os.path.dirname(os.path.abspath(__file__))
sys.path.insert(0, HERE)
from gen_c18_sites import blank, enclosing_fn  # noqa: E402

OUT = os.path.join(HERE, "..", "coq", "gen", "DecodeSites.v")
SITES_V = os.path.join(HERE, "..", "coq", "C19", "Sites.v")

DECODE_KINDS = [
    (1, "decode", r"(?:::|\.)\s*decode\w*\s*\("),
    (2, "from_bytes", r"\b(?:try_)?from_bytes\w*\s*\(|\bfrom_[bl]e_bytes\s*\("),
    (3, "try_from", r"\b[A-Za-z_]\w*(?:<[^<>()]*>)?::try_from\s*\(|\.\s*try_into\s*\("),
    (4, "parse", r"\bparse\w*\s*(?:::<[^<>()]*>)?\s*\("),
    (5, "read_", r"\bread_\w+\s*\("),
    (6, "protobuf", r"\bfrom_protobuf_encoding\s*\("),
    (7, "varint", r"\bdecode::\w+\s*\(|\bUviBytes\b(?!\s*;)"),
    (8, "utf8", r"\bfrom_utf8\w*\s*\("),
    (9, "from_str", r"\bfrom_str\s*\("),
    # entry points of third-party wire parsers, one kind per callee
    (20, "ws_accept", r"\btokio_tungstenite::accept_async\s*\("),
    (21, "ws_connect", r"\btokio_tungstenite::client_async_tls\s*\("),
    (29, "ws_other", r"\b(?:tokio_)?tungstenite::(?!accept_async\s*\(|client_async_tls\s*\()(?:accept|client|connect)\w*\s*\(|"
                     r"\bWebSocketStream::from_\w+\s*\("),
    (22, "str0m_input", r"\.\s*handle_input\s*\("),
    (23, "yamux_new", r"\byamux::Connection::new\s*\("),
    (24, "yamux_inbound", r"\.\s*poll_next_inbound\s*\("),
]
BUFFER_KINDS = [
    (10, "with_capacity", r"\bwith_capacity\s*\("),
    (11, "vec_n", r"\bvec!\s*\[[^;\[\]]*;[^\[\]]*\]"),
    (12, "grow", r"\.\s*(?:resize|reserve|set_len)\s*\(|\bzeroed\s*\("),
    (13, "cursor", r"\.\s*(?:split_to|split_off|split_at|advance|truncate|get_[ui]\d+(?:_le)?)\s*\("),
    (14, "slice", r"\[[^\[\]\n;]*\.\.[^\[\]\n;]*\]|\.\s*get(?:_mut)?\s*\([^()\n]*\.\.[^()\n]*\)"),
]
PANIC_KINDS = [
    (30, "expect", r"\.\s*expect\s*\("),
    (31, "unwrap", r"\.\s*unwrap\s*\(\s*\)"),
    (32, "unreachable", r"\bunreachable!\s*\("),
    (33, "panic", r"\bpanic!\s*\("),
    (34, "todo", r"\b(?:unimplemented|todo)!\s*\("),
    (35, "assert", r"(?<![\w_])assert(?:_eq|_ne)?!\s*\("),
    (36, "into_maddr_peer", r"\bP2p\s*\((?:[^()]|\([^()]*\))*\.\s*into\s*\(\s*\)\s*\)|[!=]=\s*[\w.]+\.\s*into\s*\(\s*\)|"
                            r"\bmultiaddr::PeerId::(?:from|try_from)\s*\("),
]
KIND_NAMES = {k: n for k, n, _ in DECODE_KINDS + BUFFER_KINDS + PANIC_KINDS}
# a file without decode tokens still handles wire bytes when it implements one of these
WIRE_FN_RX = r"\bfn\s+(?:poll_read|poll_next|decode|dh)\b"
CODEC_RX = r"\bProtocolCodec::(Identity|UnsignedVarint)\s*\("


def source_files(repo):
    root = os.path.join(repo, "src")
    paths = []
    for d, _, fs in os.walk(root):
        for f in fs:
            if f.endswith(".rs"):
                paths.append(os.path.relpath(os.path.join(d, f), repo))
    keep = []
    for rel in sorted(paths):
        parts = rel.split(os.sep)
        if "tests" in parts or "mock" in parts or "s2n-quic" in parts:
            continue
        if parts[-1] in ("tests.rs", "mock.rs") or re.fullmatch(r"verif(_\w+)?\.rs", parts[-1]):
            continue
        keep.append(rel)
    return keep


def match_brace(s, i):
    d = 0
    for j in range(i, len(s)):
        if s[j] == "{":
            d += 1
        elif s[j] == "}":
            d -= 1
            if d == 0:
                return j + 1
    return len(s)


VERIF_ATTR = r'#\[cfg\((?:all\()?\s*feature\s*=\s*"verif"[^\]]*\]'
TEST_ATTR = r'#\[cfg\((?:all\()?\s*test\b[^\]]*\]'


def blank_attr(orig, s, attr_rx):
    """Blank everything that carries the attribute (matched on the ORIGINAL text, the feature name
    is a string literal): from the attribute to the end of the item, field, match arm or statement."""
    out = list(s)
    for m in re.finditer(attr_rx, orig):
        j = m.end()
        # skip further attributes and doc comments
        while True:
            m2 = re.match(r"\s*(?:#\[[^\]]*\]|///[^\n]*\n)", orig[j:])
            if not m2:
                break
            j += m2.end()
        head = re.match(r"\s*(\w+)", s[j:])
        is_item = bool(head) and head.group(1) in (
            "pub", "fn", "impl", "mod", "use", "struct", "enum", "const", "static", "type", "unsafe",
            "async", "extern", "trait", "macro_rules")
        # an item ends at `;` or at the brace that closes its body; a field, match arm, statement or
        # expression ends at the first `,` / `;` outside brackets or after its `{..}` block
        k, depth = j, 0
        while k < len(s):
            ch = s[k]
            if ch in "([":
                depth += 1
            elif ch in ")]":
                if depth == 0:
                    break
                depth -= 1
            elif ch == "}" and depth == 0:
                break
            elif ch == "{" and depth == 0:
                break
            elif ch == ";" and depth == 0:
                break
            elif ch == "," and depth == 0 and not is_item:
                break
            elif ch == "<" and is_item:
                pass
            k += 1
        if k < len(s) and s[k] == "{":
            end = match_brace(s, k)
        elif k < len(s) and s[k] in ";,":
            end = k + 1
        else:
            end = k
        for x in range(m.start(), min(end, len(s))):
            if out[x] != "\n":
                out[x] = " "
    return "".join(out)


def blank_test_mods(s):
    out = list(s)
    for m in re.finditer(r"\bmod\s+(?:tests|mock)\s*\{", s):
        end = match_brace(s, m.end() - 1)
        for x in range(m.start(), min(end, len(s))):
            if out[x] != "\n":
                out[x] = " "
    return "".join(out)


def clean(repo, rel):
    orig = open(os.path.join(repo, rel)).read()
    s = blank_test_mods(blank(orig))
    s = blank_attr(orig, s, TEST_ATTR)
    return blank_attr(orig, s, VERIF_ATTR), orig


def arg_text(s, i):
    """s[i] == '(' -> the text between the matching parentheses, whitespace removed."""
    d = 0
    for j in range(i, len(s)):
        if s[j] == "(":
            d += 1
        elif s[j] == ")":
            d -= 1
            if d == 0:
                return re.sub(r"\s+", "", s[i + 1:j]), j + 1
    return "", len(s)


def scan_panics(repo):
    """(file, enclosing fn, kind) of every panic-path token, sorted, with source lines."""
    sites, lines = [], {}
    for rel in source_files(repo):
        s, orig = clean(repo, rel)
        for kind, _, rx in PANIC_KINDS:
            for m in re.finditer(rx, s):
                fn = enclosing_fn(s, m.start()) or "-"
                ln = s.count("\n", 0, m.start()) + 1
                sites.append((rel, fn, kind))
                lines.setdefault((rel, fn, kind), []).append((ln, orig.split("\n")[ln - 1].strip()))
    return sorted(sites), lines


def scan(repo):
    sites, codecs, lines = [], [], {}
    for rel in source_files(repo):
        s, orig = clean(repo, rel)
        found = []
        for kind, _, rx in DECODE_KINDS:
            for m in re.finditer(rx, s):
                if re.search(r"\bfn\s+$", s[max(0, m.start() - 12):m.start()]):
                    continue
                found.append((kind, m.start()))
        if found or re.search(WIRE_FN_RX, s):
            for kind, _, rx in BUFFER_KINDS:
                for m in re.finditer(rx, s):
                    if re.search(r"\bfn\s+$", s[max(0, m.start() - 12):m.start()]):
                        continue
                    if kind == 14 and re.fullmatch(r"\[\s*\.\.\s*\]", m.group(0)):
                        continue
                    found.append((kind, m.start()))
        for kind, pos in found:
            fn = enclosing_fn(s, pos) or "-"
            ln = s.count("\n", 0, pos) + 1
            sites.append((rel, fn, kind))
            lines.setdefault((rel, fn, kind), []).append((ln, orig.split("\n")[ln - 1].strip()))
        for m in re.finditer(CODEC_RX, s):
            arg, end = arg_text(s, m.end() - 1)
            if re.match(r"\s*(?:=>|\|)", s[end:end + 6]):
                continue  # a match arm, not a constructor use
            fn = enclosing_fn(s, m.start()) or "-"
            codecs.append((rel, fn, "%s(%s)" % (m.group(1), arg)))
    return sorted(sites), sorted(codecs), lines


# constants of third-party parsers that litep2p uses with their DEFAULT configuration: read from
# the vendored source of the version pinned in the repo's Cargo.lock
THIRD_PARTY = [
    ("WS_MAX_FRAME_SIZE", "tungstenite", "src/protocol/mod.rs", r"max_frame_size:\s*Some\(([^)]+)\)"),
    ("WS_MAX_MESSAGE_SIZE", "tungstenite", "src/protocol/mod.rs", r"max_message_size:\s*Some\(([^)]+)\)"),
    ("SNOW_MAXMSGLEN", "snow", "src/constants.rs", r"const\s+MAXMSGLEN\s*:\s*usize\s*=\s*([^;]+);"),
    ("YAMUX_DEFAULT_CREDIT", "yamux", "src/lib.rs", r"const\s+DEFAULT_CREDIT\s*:\s*u32\s*=\s*([^;]+?)\s+as\s+u32;"),
    ("PROST_RECURSION_LIMIT", "prost", "src/lib.rs", r"const\s+RECURSION_LIMIT\s*:\s*u32\s*=\s*([^;]+);"),
]
# the multiaddr protocol codes (`const NAME: u32 = code;` of multiaddr/src/protocol.rs)
MADDR = ("multiaddr", "src/protocol.rs", r"^const\s+[A-Z0-9_]+\s*:\s*u32\s*=\s*(\d+)\s*;")


def locked_versions(repo, crate):
    try:
        lock = open(os.path.join(repo, "Cargo.lock")).read()
    except OSError:
        return []
    return re.findall(r'name = "%s"\nversion = "([^"]+)"' % re.escape(crate), lock)


def third_party(repo):
    import glob
    vals, missing = {}, []
    for name, crate, rel, rx in THIRD_PARTY:
        found = None
        # the newest locked version (litep2p's own dependency; older ones come from dev-dependencies)
        for ver in sorted(locked_versions(repo, crate), key=lambda v: [int(x) if x.isdigit() else 0 for x in v.split(".")], reverse=True):
            for d in glob.glob(os.path.expanduser("~/.cargo/registry/src/*/%s-%s" % (crate, ver))):
                try:
                    m = re.search(rx, open(os.path.join(d, rel)).read())
                except OSError:
                    m = None
                if m:
                    expr = m.group(1).replace("KIB", "1024")
                    if re.fullmatch(r"[\d\s<>*+()]+", expr):
                        found = int(eval(expr))
                        break
            if found is not None:
                break
        if found is None:
            missing.append(("C19_" + name, crate + "/" + rel, "constant not found in the vendored source"))
        else:
            vals[name] = found
    return vals, missing


def maddr_codes(repo):
    import glob
    crate, rel, rx = MADDR
    for ver in sorted(locked_versions(repo, crate), reverse=True):
        for d in glob.glob(os.path.expanduser("~/.cargo/registry/src/*/%s-%s" % (crate, ver))):
            try:
                codes = [int(x) for x in re.findall(rx, open(os.path.join(d, rel)).read(), re.M)]
            except OSError:
                codes = []
            if codes:
                return sorted(codes)
    return []


def coq_str(x):
    return '"' + x.replace('"', '""') + '"'


def generate(repo):
    sites, codecs, _ = scan(repo)
    panics, _ = scan_panics(repo)
    out = [
        "(* GENERATED by tools/gen_c19_sites.py from the Rust source on every check. Do not edit.",
        "   sites: every non-test place where bytes are parsed, sliced or size an allocation",
        "   (file, enclosing function, token kind); codecs: every place where a substream codec",
        "   (frame limit) is chosen. See the script for the token kinds. *)",
        "From Coq Require Import List NArith String.",
        "Import ListNotations.",
        "Open Scope string_scope.",
        "Open Scope N_scope.",
        "",
        "Definition sites : list (string * string * N) :=",
        "  [" + ";\n   ".join("(%s, %s, %d)" % (coq_str(f), coq_str(g), k) for f, g, k in sites) + "].",
        "",
        "Definition codecs : list (string * string * string) :=",
        "  [" + ";\n   ".join("(%s, %s, %s)" % (coq_str(f), coq_str(g), coq_str(c)) for f, g, c in codecs) + "].",
        "",
        "(* every non-test place where the crate can panic on a value (expect / unwrap / unreachable! /",
        "   panic! / todo! / assert!) or calls the panicking conversion of a peer id into the multiaddr",
        "   crate's type (kind 36) *)",
        "Definition panic_sites : list (string * string * N) :=",
        "  [" + ";\n   ".join("(%s, %s, %d)" % (coq_str(f), coq_str(g), k) for f, g, k in panics) + "].",
        "",
        "(* defaults of third-party parsers (vendored source of the version in Cargo.lock) *)",
    ]
    tp, tp_missing = third_party(repo)
    for name, _, _, _ in THIRD_PARTY:
        out.append("Definition %s : N := %d." % (name, tp.get(name, 0)))
    codes = maddr_codes(repo)
    if not codes:
        tp_missing.append(("C19_MADDR_CODES", "multiaddr/src/protocol.rs", "protocol codes not found in the vendored source"))
    out.append("(* protocol codes of the multiaddr crate *)")
    out.append("Definition maddr_codes : list N := [" + "; ".join(str(c) for c in codes) + "].")
    out.append("")
    text = "\n".join(out)
    os.makedirs(os.path.dirname(OUT), exist_ok=True)
    old = open(OUT).read() if os.path.exists(OUT) else None
    if old != text:
        open(OUT, "w").write(text)
    missing = list(tp_missing)
    if not sites:
        missing.append(("C19_DECODE_SITES", "src", "no decode site found"))
    if not codecs:
        missing.append(("C19_CODEC_SITES", "src", "no codec site found"))
    if not panics:
        missing.append(("C19_PANIC_SITES", "src", "no panic-path site found"))
    return {"C19_DECODE_SITES": len(sites), "C19_CODEC_SITES": len(codecs), "C19_PANIC_SITES": len(panics)}, missing


CLASS_TEXT = {
    "M": "model + theorems",
    "D": "model, diffed only",
    "H": "harness only (opaque: returns / allocation bound)",
    "X": "not covered",
    "NW": "not fed by wire bytes",
}


def classification():
    """Entries `(("file", "fn", kind), Cls, hk) (* note *)` of coq/C19/Sites.v, in order."""
    if not os.path.exists(SITES_V):
        return []
    txt = open(SITES_V).read()
    rx = r'\(\(\s*"([^"]*)"\s*,\s*"([^"]*)"\s*,\s*(\d+)\s*\)\s*,\s*(\w+)\s*,\s*(\d+)\s*\)\s*;?\s*(?:\(\*(.*?)\*\))?'
    return [(m.group(1), m.group(2), int(m.group(3)), m.group(4), int(m.group(5)), (m.group(6) or "").strip())
            for m in re.finditer(rx, txt)]


def table(repo):
    sites, codecs, lines = scan(repo)
    cls = classification()
    pool = {}
    for f, g, k, c, hk, note in cls:
        pool.setdefault((f, g, k), []).append((c, hk, note))
    used = {}
    out = ["| file | function | token | line(s) | class | harness kind | note |", "|---|---|---|---|---|---|---|"]
    for s in sites:
        i = used.get(s, 0)
        used[s] = i + 1
        e = pool.get(s, [])
        c, hk, note = e[i] if i < len(e) else ("?", 0, "NOT CLASSIFIED")
        ln = lines[s][i][0] if i < len(lines[s]) else 0
        out.append("| %s | %s | %s | %d | %s | %s | %s |" % (
            s[0], s[1], KIND_NAMES[s[2]], ln, CLASS_TEXT.get(c, c), hk if hk else "-", note))
    out.append("")
    out.append("| file | function | codec chosen |")
    out.append("|---|---|---|")
    for f, g, c in codecs:
        out.append("| %s | %s | %s |" % (f, g, c))
    return "\n".join(out)


def skeleton(repo):
    sites, codecs, lines = scan(repo)
    have = {}
    for f, g, k, _, _, _ in classification():
        have[(f, g, k)] = have.get((f, g, k), 0) + 1
    out = []
    seen = {}
    for s in sites:
        i = seen.get(s, 0)
        seen[s] = i + 1
        if i < have.get(s, 0):
            continue
        ln, text = lines[s][i]
        out.append('   ((%s, %s, %d), X, 0); (* %s: %d: %s *)' % (coq_str(s[0]), coq_str(s[1]), s[2], KIND_NAMES[s[2]], ln,
                                                          text.replace("*)", "* )")[:90]))
    return "\n".join(out)


PANIC_V = os.path.join(HERE, "..", "coq", "C19", "PanicSites.v")
PCLS_TEXT = {
    "PV": "value that may come from the network: safe by the invariant",
    "PS": "own state machine / bookkeeping invariant",
    "PL": "local configuration, key or constant",
    "PE": "encoder into a growable buffer",
    "PT": "checked earlier by a third-party validator",
}


def panic_classification():
    if not os.path.exists(PANIC_V):
        return []
    txt = open(PANIC_V).read()
    rx = r'\(\(\s*"([^"]*)"\s*,\s*"([^"]*)"\s*,\s*(\d+)\s*\)\s*,\s*(P\w+)\s*,\s*(\d+)\s*,\s*(\d+)\s*\)\s*;?\s*(?:\(\*(.*?)\*\))?'
    return [(m.group(1), m.group(2), int(m.group(3)), m.group(4), int(m.group(5)), int(m.group(6)), (m.group(7) or "").strip())
            for m in re.finditer(rx, txt)]


def panic_table(repo):
    sites, lines = scan_panics(repo)
    pool = {}
    for f, g, k, c, inv, hk, note in panic_classification():
        pool.setdefault((f, g, k), []).append((c, inv, hk, note))
    used = {}
    out = ["| file | function | token | line | class | invariant | harness kind | note |", "|---|---|---|---|---|---|---|---|"]
    for s in sites:
        i = used.get(s, 0)
        used[s] = i + 1
        e = pool.get(s, [])
        c, inv, hk, note = e[i] if i < len(e) else ("?", 0, 0, "NOT CLASSIFIED")
        ln = lines[s][i][0] if i < len(lines[s]) else 0
        out.append("| %s | %s | %s | %d | %s | %s | %s | %s |" % (
            s[0], s[1], KIND_NAMES[s[2]], ln, PCLS_TEXT.get(c, c), inv if inv else "-", hk if hk else "-", note))
    return "\n".join(out)


def panic_skeleton(repo):
    sites, lines = scan_panics(repo)
    have = {}
    for f, g, k, _, _, _, _ in panic_classification():
        have[(f, g, k)] = have.get((f, g, k), 0) + 1
    out, seen = [], {}
    for s in sites:
        i = seen.get(s, 0)
        seen[s] = i + 1
        if i < have.get(s, 0):
            continue
        ln, text = lines[s][i]
        out.append('   ((%s, %s, %d), PS, 0, 0); (* %s: %d: %s *)' % (coq_str(s[0]), coq_str(s[1]), s[2], KIND_NAMES[s[2]], ln,
                                                              text.replace("*)", "* )").replace("(*", "( *")[:100]))
    return "\n".join(out)


if __name__ == "__main__":
    repo = os.environ.get("VERIF_REPO", "/repo")
    if "--panic-table" in sys.argv:
        print(panic_table(repo))
    elif "--panic-skeleton" in sys.argv:
        print(panic_skeleton(repo))
    elif "--table" in sys.argv:
        print(table(repo))
    elif "--skeleton" in sys.argv:
        print(skeleton(repo))
    else:
        counts, miss = generate(repo)
        print(open(OUT).read())
        print(counts, miss)
