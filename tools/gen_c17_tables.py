#!/usr/bin/env python3
"""Skeleton extractor for C17: the shape of the MemoryStore, of its configuration and of its callers.

Reads (regex level; comments and string literals blanked, `#[cfg(test)]` items / `mod tests` bodies
and `#[cfg(feature = "verif")]` items removed)

    src/protocol/libp2p/kademlia/store.rs    public methods of `impl MemoryStore`, variants of
                                             `MemoryStoreAction`, fields of `MemoryStoreConfig` and the
                                             constant each one gets in `impl Default`, clock reads
    src/protocol/libp2p/kademlia/config.rs   `ConfigBuilder::with_*` setters that write a field of
                                             `memory_store_config`
    src/protocol/libp2p/kademlia/handle.rs   variants of `Quorum` and `IncomingRecordValidationMode`
    src/protocol/libp2p/kademlia/mod.rs      every `self.store.<method>(` call with the message /
                                             command / store-action arm it sits in

and writes them as numbers to coq/gen/C17Tables.v. coq/C17/IngressProofs.v proves
`tables_match` (the generated lists equal the lists the model was written for), so a new store
method, a new call site of the store, a new enum variant, a new configuration field or a setter
that writes a different field breaks a proof obligation of ./check C17. A name that is not in the
tables below gets the number 99, which no model table contains.

Called from gen_consts.py on every check; can be run by hand (prints the file)."""
import os
import re
import sys

HERE = os.path.dirname(os.path.abspath(__file__))
OUT = os.path.join(HERE, "..", "coq", "gen", "C17Tables.v")
sys.path.insert(0, HERE)
from gen_c18_sites import blank, match_brace, strip_tests  # noqa: E402

KAD = "src/protocol/libp2p/kademlia/"

METHODS = ["with_config", "get", "put", "get_providers", "put_provider", "put_local_provider",
           "remove_local_provider", "next_action"]
ACTIONS = ["RefreshProvider"]
FIELDS = ["max_records", "max_record_size_bytes", "max_provider_keys", "max_provider_addresses",
          "max_providers_per_key", "provider_refresh_interval", "provider_ttl"]
DEFAULTS = ["DEFAULT_MAX_RECORDS", "DEFAULT_MAX_RECORD_SIZE_BYTES", "DEFAULT_MAX_PROVIDER_KEYS",
            "DEFAULT_MAX_PROVIDER_ADDRESSES", "DEFAULT_MAX_PROVIDERS_PER_KEY",
            "DEFAULT_PROVIDER_REFRESH_INTERVAL", "DEFAULT_PROVIDER_TTL"]
SETTERS = ["with_max_records", "with_max_record_size", "with_max_provider_keys",
           "with_max_provider_addresses", "with_max_providers_per_key",
           "with_provider_refresh_interval", "with_provider_record_ttl"]
QUORUM = ["All", "One", "N"]
VALIDATION = ["Manual", "Automatic"]
# the arm of `on_message_received` / the command arm / the store-action arm a call sits in
ARMS = ["KademliaMessage::FindNode", "KademliaMessage::PutValue", "KademliaMessage::GetRecord",
        "KademliaMessage::AddProvider", "KademliaMessage::GetProviders",
        "KademliaCommand::FindNode", "KademliaCommand::PutRecord", "KademliaCommand::PutRecordToPeers",
        "KademliaCommand::StartProviding", "KademliaCommand::StopProviding", "KademliaCommand::GetRecord",
        "KademliaCommand::GetProviders", "KademliaCommand::AddKnownPeer", "KademliaCommand::StoreRecord",
        "MemoryStoreAction::RefreshProvider", "select"]


def idx(table, name):
    return table.index(name) if name in table else 99


def strip_verif(s):
    """Blank `#[cfg(feature = "verif")]` items: from the attribute to the end of the item (a `{..}`
    block, a `;`, or — for a struct field / struct-literal field — a `,` outside brackets).
    `clean` has rewritten the attribute to `#[cfg(feature = "")]` before strings were blanked."""
    out = list(s)
    for m in re.finditer(r'#\[cfg\(feature\s*=\s*"\s*"\)\]', s):
        j, depth = m.end(), 0
        while j < len(s):
            ch = s[j]
            if ch in "([<":
                depth += 1
            elif ch in ")]>" and depth > 0:
                depth -= 1
            elif ch in "{;" or (ch == "," and depth == 0):
                break
            j += 1
        end = match_brace(s, j) if j < len(s) and s[j] == "{" else j + 1
        for k in range(m.start(), min(end, len(s))):
            if out[k] != "\n":
                out[k] = " "
    return "".join(out)


def clean(repo, rel, raw_verif=None):
    src = open(os.path.join(repo, rel)).read()
    # `#[cfg(feature = "verif")]` must be recognised before strings are blanked
    marked = re.sub(r'#\[cfg\(feature\s*=\s*"verif"\)\]', lambda m: "#[cfg(feature = \"\")]" + " " * (len(m.group(0)) - 20), src)
    marked = re.sub(r'#\[cfg\(not\(feature\s*=\s*"verif"\)\)\]', lambda m: " " * len(m.group(0)), marked)
    return strip_verif(strip_tests(blank(marked)))


def body_after(s, rx):
    m = re.search(rx, s)
    if not m:
        return None
    i = s.find("{", m.end() - 1)
    return s[i:match_brace(s, i)] if i >= 0 else None


def scan(repo):
    missing = []
    t = {}
    store = clean(repo, KAD + "store.rs")
    # public methods of every `impl MemoryStore` block
    methods = []
    for m in re.finditer(r"\bimpl\s+MemoryStore\s*\{", store):
        b = store[m.end() - 1:match_brace(store, m.end() - 1)]
        methods += re.findall(r"\bpub\s+(?:async\s+)?fn\s+(\w+)", b)
    t["store_methods"] = sorted(idx(METHODS, x) for x in methods)
    b = body_after(store, r"\benum\s+MemoryStoreAction\s*\{")
    t["store_actions"] = [idx(ACTIONS, x) for x in re.findall(r"^\s*(\w+)\s*[{(,]", b or "", re.M)]
    b = body_after(store, r"\bstruct\s+MemoryStoreConfig\s*\{")
    t["config_fields"] = [idx(FIELDS, x) for x in re.findall(r"\bpub\s+(\w+)\s*:", b or "")]
    b = body_after(store, r"\bimpl\s+Default\s+for\s+MemoryStoreConfig\s*\{")
    t["config_defaults"] = [(idx(FIELDS, f), idx(DEFAULTS, c)) for f, c in re.findall(r"\b(\w+)\s*:\s*(\w+)\s*,", b or "")]
    # clock reads of the store: `Instant::now()` only inside the helper, and the helper's call sites
    t["clock_reads"] = [len(re.findall(r"\bInstant::now\s*\(\s*\)", store)),
                        len([m for m in re.finditer(r"(?<![\w:.])now\s*\(\s*\)", store)
                             if not re.search(r"\bfn\s+$", store[max(0, m.start() - 8):m.start()])])]
    config = clean(repo, KAD + "config.rs")
    setters = []
    for m in re.finditer(r"\bpub\s+fn\s+(with_\w+)\s*\(", config):
        i = config.find("{", m.end())
        body = config[i:match_brace(config, i)]
        for f in re.findall(r"self\s*\.\s*memory_store_config\s*\.\s*(\w+)\s*=", body):
            setters.append((idx(SETTERS, m.group(1)), idx(FIELDS, f)))
    t["builder_setters"] = sorted(setters)
    handle = clean(repo, KAD + "handle.rs")
    b = body_after(handle, r"\benum\s+Quorum\s*\{")
    t["quorum_variants"] = [idx(QUORUM, x) for x in re.findall(r"^\s*(\w+)\s*[({,]", b or "", re.M)]
    b = body_after(handle, r"\benum\s+IncomingRecordValidationMode\s*\{")
    t["validation_modes"] = [idx(VALIDATION, x) for x in re.findall(r"^\s*(\w+)\s*[({,]", b or "", re.M)]
    mod = clean(repo, KAD + "mod.rs")
    arms = [(m.start(), m.group(1)) for m in re.finditer(
        r"\b((?:KademliaMessage|KademliaCommand)::\w+)\s*\{|\b(MemoryStoreAction::RefreshProvider)\s*\{", mod)]
    arms = [(p, a or "MemoryStoreAction::RefreshProvider") for p, a in
            [(m.start(), m.group(1) or m.group(2)) for m in re.finditer(
                r"\b((?:KademliaMessage|KademliaCommand)::\w+)\s*\{|\b(MemoryStoreAction::RefreshProvider)\s*\{", mod)]]
    # arms that construct a message (`KademliaMessage::X { .. }` as an expression) also match; the
    # nearest preceding *pattern* is what we want: patterns are followed by `=>` after the brace
    pats = []
    for p, a in arms:
        i = mod.find("{", p)
        j = match_brace(mod, i)
        if re.match(r"\s*\)?\s*=>", mod[j:j + 12]):
            pats.append((p, a))
    sites = []
    for m in re.finditer(r"\bself\s*\.\s*store\s*\.\s*(\w+)\s*\(", mod):
        if m.group(1).startswith("verif_"):
            continue
        if m.group(1) == "next_action":
            arm = "select"
        else:
            before = [a for p, a in pats if p < m.start()]
            arm = before[-1] if before else "?"
        sites.append((idx(ARMS, arm), idx(METHODS, m.group(1))))
    t["store_call_sites"] = sorted(sites)
    for k, v in t.items():
        if not v:
            missing.append(("C17_STORE_CALL_SITES", KAD, "table %s: nothing found" % k))
    return t, missing


def coq_list(v):
    if v and isinstance(v[0], tuple):
        return "[" + "; ".join("(%d, %d)" % x for x in v) + "]", "list (N * N)"
    return "[" + "; ".join(str(x) for x in v) + "]", "list N"


def generate(repo):
    try:
        t, missing = scan(repo)
    except Exception as e:  # noqa
        return {}, [("C17_STORE_CALL_SITES", KAD, "scan failed: %s" % e)]
    lines = [
        "(* GENERATED by tools/gen_c17_tables.py from the Rust source on every check. Do not edit.",
        "   Shape of the MemoryStore, of its configuration and of its callers; the numbers are indices",
        "   into the tables of the script (99 = a name the script does not know). *)",
        "From Coq Require Import List NArith.",
        "Import ListNotations.",
        "Open Scope N_scope.",
        "",
    ]
    for k in ["store_methods", "store_actions", "config_fields", "config_defaults", "builder_setters",
              "quorum_variants", "validation_modes", "clock_reads", "store_call_sites"]:
        body, ty = coq_list(t.get(k, []))
        if not t.get(k):
            ty = "list (N * N)" if k in ("config_defaults", "builder_setters", "store_call_sites") else "list N"
        lines.append("Definition %s : %s := %s." % (k, ty, body))
    text = "\n".join(lines) + "\n"
    os.makedirs(os.path.dirname(OUT), exist_ok=True)
    old = open(OUT).read() if os.path.exists(OUT) else None
    if old != text:
        open(OUT, "w").write(text)
    return {"C17_STORE_CALL_SITES": len(t.get("store_call_sites", []))}, missing


if __name__ == "__main__":
    repo = os.environ.get("VERIF_REPO", "/repo")
    counts, miss = generate(repo)
    print(open(OUT).read())
    print(counts, miss)
