#!/bin/bash
# usage: tools/integrate.sh C15 — cherry-pick the agent's repo commits onto /repo and merge its verif commits into /verif
set -e
P=$1
W=/work/$P
echo "== repo commits to pick"
cd $W/repo
base=$(git merge-base HEAD $(git -C /repo rev-parse HEAD) 2>/dev/null || true)
git -C /repo fetch -q $W/repo HEAD
commits=$(git -C /repo rev-list --reverse HEAD..FETCH_HEAD)
for c in $commits; do
  msg=$(git -C /repo log -1 --format=%s $c)
  echo "picking $c $msg"
  git -C /repo cherry-pick $c || { echo "CONFLICT in repo cherry-pick of $c — resolve in /repo then rerun"; exit 1; }
done
echo "== verif merge"
cd /verif
git fetch -q $W/verif HEAD
git merge --no-edit FETCH_HEAD || { echo "CONFLICT in verif merge — resolve in /verif"; exit 1; }
