#!/bin/bash
# usage: tools/integrate.sh C15 [C09 ...] — cherry-pick the agent's repo commits onto /repo and merge its verif commits into /verif
# extra ids: further property entries to extract from the workspace's tools/props.py
set -e
P=$1
W=/work/$P
echo "== repo commits to pick"
git -C /repo fetch -q $W/repo HEAD
commits=$(git -C /repo rev-list --reverse --no-merges HEAD..FETCH_HEAD)
for c in $commits; do
  msg=$(git -C /repo log -1 --format=%s $c)
  if git -C /repo log --format=%s | grep -qxF "$msg"; then echo "skip (already present) $msg"; continue; fi
  echo "picking $c $msg"
  git -C /repo cherry-pick $c || { echo "CONFLICT in repo cherry-pick of $c — resolve in /repo (git cherry-pick --continue) then rerun"; exit 1; }
done
echo "== verif merge"
cd /verif
git checkout -q -- evidence 2>/dev/null || true
git fetch -q $W/verif HEAD
git merge --no-edit FETCH_HEAD || true
for id in "$@"; do
python3 - "$W" "$id" <<'PY'
import sys, pprint, importlib.util, os
w, pid = sys.argv[1], sys.argv[2]
src = os.popen("git -C %s/verif show HEAD:tools/props.py" % w).read()
ns = {}
try:
    exec(compile(src, "props_ws", "exec"), ns)
    ent = ns["PROPS"].get(pid)
except Exception as e:
    ent = None
    print("could not load workspace props:", e)
if ent is None:
    f = "%s/verif/tools/props.d/%s.py" % (w, pid)
    if os.path.exists(f):
        print("workspace already uses props.d for", pid)
    else:
        print("NO props entry for", pid)
else:
    with open("/verif/tools/props.d/%s.py" % pid, "w") as f:
        f.write('"""Configuration of ./check for %s (see tools/props.py)."""\nENTRY = ' % pid)
        f.write(pprint.pformat(ent, width=140, sort_dicts=False) + "\n")
    print("wrote props.d/%s.py" % pid)
PY
done
git checkout --ours tools/props.py 2>/dev/null || true
# continuation merges: take the workspace's version of its own props.d / evidence files
for f in $(git status --short | grep -E '^(AA|UU) (tools/props.d/|evidence/)' | awk '{print $2}'); do git checkout --theirs $f; done
git checkout --ours MANIFEST.json 2>/dev/null || true
if git status --short | grep -q '^UU harness/Cargo.toml'; then git checkout --ours harness/Cargo.toml; fi
# add dependencies the workspace's harness has and ours lacks
git show FETCH_HEAD:harness/Cargo.toml > /tmp/their_Cargo.toml 2>/dev/null && python3 - <<'PY'
import re
ours=open('/verif/harness/Cargo.toml').read(); theirs=open('/tmp/their_Cargo.toml').read()
def deps(t):
    m=re.search(r'\[dependencies\]\n(.*?)(\n\[|\Z)', t, re.S)
    return dict((l.split('=')[0].strip(), l) for l in m.group(1).splitlines() if '=' in l and not l.startswith('<') and not l.startswith('>'))
do, dt = deps(ours), deps(theirs)
add=[dt[k] for k in dt if k not in do and k!='litep2p']
if add:
    ours=ours.replace('\n[profile.dev]', '\n'.join(['']+add)+'\n\n[profile.dev]',1) if False else ours
    i=ours.index('[profile.dev]')
    ours=ours[:i].rstrip('\n')+'\n'+'\n'.join(add)+'\n\n'+ours[i:]
    open('/verif/harness/Cargo.toml','w').write(ours); print('added harness deps:', add)
PY
# never keep a workspace path in the harness manifest
sed -i 's#path = "/work/[A-Za-z0-9]*/repo"#path = "/repo"#' harness/Cargo.toml
# the lock file is regenerated from /repo's lock (offline resolution adds the harness-only crates)
cp /repo/Cargo.lock harness/Cargo.lock && (cd harness && cargo build --offline 2>&1 | tail -1)
if grep -rIl '^<<<<<<< \|^>>>>>>> ' --exclude-dir=.git --exclude-dir=target --exclude-dir=work --exclude-dir=build . ; then echo 'conflict markers remain in the files above'; exit 1; fi
python3 tools/fix_hashes.py || true
python3 tools/mkasbuilt.py || true
git add -A
git status --short | grep -E "^(UU|AA|DU|UD)" && { echo "unresolved conflicts remain"; exit 1; }
git commit -qm "merge $P from agent workspace" || true
echo "merged $P"
# guard against a silently failed merge: the workspace's theorem counts must have arrived
for id in $P "$@"; do
  d=$(python3 -c "import sys; sys.path.insert(0,'tools'); import props; print(props.PROPS['$id']['coq_dir'] if '$id' in props.PROPS else '')" 2>/dev/null)
  [ -n "$d" ] || continue
  ws=$(git show FETCH_HEAD:coq/$d/Properties.v 2>/dev/null | grep -c '^Theorem')
  here=$(grep -c '^Theorem' coq/$d/Properties.v 2>/dev/null)
  if [ "$ws" != "$here" ]; then echo "WARNING: $id has $here theorems here but $ws in the workspace — merge incomplete?"; fi
done
if ! git merge-base --is-ancestor FETCH_HEAD HEAD; then echo "WARNING: workspace HEAD is NOT an ancestor of /verif HEAD — the merge did not happen"; fi
