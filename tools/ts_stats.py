#!/usr/bin/env python3
"""usage: ts_stats.py cases traces — histogram of output kinds in Ts traces (C08/C09), for eyeballing coverage"""
import sys, collections
cases=open(sys.argv[1]).read().splitlines(); traces=open(sys.argv[2]).read().splitlines()
names={1:'Est',2:'Closed',3:'Sub',4:'Fail',5:'Dial',6:'Ret',7:'Cmd',8:'Panic',9:'Skip',10:'Down'}
h=collections.Counter(); timed=0
for c,t in zip(cases,traces):
    c=list(map(int,c.split())); t=list(map(int,t.split()))
    if t[:1]!=[1]: h['bad']+=1; continue
    if c[1]!=3600000: timed+=1
    i=1; n=c[3]
    for _ in range(n):
        k=t[i]; i+=1
        for _ in range(k):
            tag,a,b=t[i:i+3]; i+=3
            h[names[tag]+(str(a) if tag==6 else '')]+=1
        nc=t[i]; i+=1+6*nc; i+=1; nt=t[i]; i+=1+2*nt; i+=1; na=t[i]; i+=1+2*na
    assert i==len(t),(i,len(t))
print('cases',len(cases),'timed',timed,dict(h))
