#!/usr/bin/env python3
"""Translator: constants of the Rust source -> coq/gen/Consts.v (regenerated on every check).

Each entry names a source file and a regular expression whose group 1 is an integer
expression (digits, `_`, `*`, `+`, `-`, `<<`, parentheses, `usize`/`u64`-style suffixes).
A constant that cannot be located is reported (exit code 3 and a MISSING line) — the tie
between model and source is then broken and the calling check reports it.
"""
import ast
import json
import os
import re
import sys

REPO = os.environ.get("VERIF_REPO", "/repo")
OUT = os.path.join(os.path.dirname(os.path.abspath(__file__)), "..", "coq", "gen", "Consts.v")

KAD = "src/protocol/libp2p/kademlia/"
NOISE = "src/crypto/noise/mod.rs"
ADDR = "src/transport/manager/address.rs"
BITSWAP = "src/protocol/libp2p/bitswap/"


def const(name, typ=r"[\w:<>]+"):
    return r"const\s+" + name + r"\s*:\s*" + typ + r"\s*=\s*([^;]+);"


# (coq name, file, regex)
CONSTS = [
    # C08: capacity of the per-protocol event channel (ProtocolSet -> TransportService)
    ("DEFAULT_CHANNEL_SIZE", "src/lib.rs", const("DEFAULT_CHANNEL_SIZE")),
    # C17
    ("DEFAULT_MAX_RECORDS", KAD + "config.rs", const("DEFAULT_MAX_RECORDS")),
    ("DEFAULT_MAX_RECORD_SIZE_BYTES", KAD + "config.rs", const("DEFAULT_MAX_RECORD_SIZE_BYTES")),
    ("DEFAULT_MAX_PROVIDER_KEYS", KAD + "config.rs", const("DEFAULT_MAX_PROVIDER_KEYS")),
    ("DEFAULT_MAX_PROVIDER_ADDRESSES", KAD + "config.rs", const("DEFAULT_MAX_PROVIDER_ADDRESSES")),
    ("DEFAULT_MAX_PROVIDERS_PER_KEY", KAD + "config.rs", const("DEFAULT_MAX_PROVIDERS_PER_KEY")),
    # C17 (callers of the store, refresh machinery): durations in seconds
    ("KAD_MAX_ADDRESSES", KAD + "types.rs", const("MAX_ADDRESSES")),
    ("DEFAULT_PROVIDER_TTL_SECS", KAD + "config.rs",
     r"const\s+DEFAULT_PROVIDER_TTL\s*:\s*Duration\s*=\s*Duration::from_secs\(([^)]+)\)"),
    ("DEFAULT_PROVIDER_REFRESH_INTERVAL_SECS", KAD + "config.rs",
     r"const\s+DEFAULT_PROVIDER_REFRESH_INTERVAL\s*:\s*Duration\s*=\s*Duration::from_secs\(([^)]+)\)"),
    ("DEFAULT_RECORD_TTL_SECS", KAD + "config.rs",
     r"const\s+DEFAULT_TTL\s*:\s*Duration\s*=\s*Duration::from_secs\(([^)]+)\)"),
    # C15
    ("REPLICATION_FACTOR", KAD + "config.rs", const("REPLICATION_FACTOR")),
    ("PARALLELISM_FACTOR", KAD + "mod.rs", const("PARALLELISM_FACTOR")),
    ("DEFAULT_PEER_TIMEOUT_SECS", KAD + "query/find_node.rs",
     r"const\s+DEFAULT_PEER_TIMEOUT\s*:[^=]+=\s*std::time::Duration::from_secs\(([^)]+)\)\s*;"),
    # C02 (an expression may name constants listed before it)
    ("MAX_NOISE_MSG_LEN", NOISE, const("MAX_NOISE_MSG_LEN")),
    ("NOISE_EXTRA_ENCRYPT_SPACE", NOISE, const("NOISE_EXTRA_ENCRYPT_SPACE")),
    ("MAX_FRAME_LEN", NOISE, const("MAX_FRAME_LEN")),
    ("MAX_READ_AHEAD_FACTOR", NOISE, const("MAX_READ_AHEAD_FACTOR")),
    ("MAX_WRITE_BUFFER_SIZE", NOISE, const("MAX_WRITE_BUFFER_SIZE")),
    # C02: the defaults of the pub config fields that size the NoiseSocket buffers (Default impls)
    ("TCP_NOISE_READ_AHEAD_DEFAULT", "src/transport/tcp/config.rs",
     r"noise_read_ahead_frame_count:\s*([A-Z][A-Z_0-9]*|\d[\d_]*)\s*,"),
    ("TCP_NOISE_WRITE_BUFFER_DEFAULT", "src/transport/tcp/config.rs",
     r"noise_write_buffer_size:\s*([A-Z][A-Z_0-9]*|\d[\d_]*)\s*,"),
    ("WS_NOISE_READ_AHEAD_DEFAULT", "src/transport/websocket/config.rs",
     r"noise_read_ahead_frame_count:\s*([A-Z][A-Z_0-9]*|\d[\d_]*)\s*,"),
    ("WS_NOISE_WRITE_BUFFER_DEFAULT", "src/transport/websocket/config.rs",
     r"noise_write_buffer_size:\s*([A-Z][A-Z_0-9]*|\d[\d_]*)\s*,"),
    # C03
    ("C03_MAX_LEN_BYTES", "src/multistream_select/length_delimited.rs", const("MAX_LEN_BYTES")),
    ("C03_MAX_PROTOCOLS", "src/multistream_select/protocol.rs", const("MAX_PROTOCOLS")),
    # C16
    ("KAD_READ_TIMEOUT_SECS", KAD + "executor.rs", r"const\s+READ_TIMEOUT\s*:[^=]+=\s*Duration::from_secs\(([^)]+)\)\s*;"),
    ("KAD_WRITE_TIMEOUT_SECS", KAD + "executor.rs", r"const\s+WRITE_TIMEOUT\s*:[^=]+=\s*Duration::from_secs\(([^)]+)\)\s*;"),
    # C18
    ("MAX_INLINE_KEY_LENGTH", "src/peer_id.rs", const("MAX_INLINE_KEY_LENGTH")),
    ("MULTIHASH_IDENTITY_CODE", "src/peer_id.rs", const("MULTIHASH_IDENTITY_CODE")),
    # C18: the KeyType enum of keys.proto (the model's key-admission table is stated over these numbers)
    ("C18_KEY_TYPE_RSA", "src/schema/keys.proto", r"enum\s+KeyType\s*\{[^}]*\bRSA\s*=\s*(\d+)\s*;"),
    ("C18_KEY_TYPE_ED25519", "src/schema/keys.proto", r"enum\s+KeyType\s*\{[^}]*\bEd25519\s*=\s*(\d+)\s*;"),
    ("C18_KEY_TYPE_SECP256K1", "src/schema/keys.proto", r"enum\s+KeyType\s*\{[^}]*\bSecp256k1\s*=\s*(\d+)\s*;"),
    ("C18_KEY_TYPE_ECDSA", "src/schema/keys.proto", r"enum\s+KeyType\s*\{[^}]*\bECDSA\s*=\s*(\d+)\s*;"),
    # C19
    ("C19_KAD_MAX_ADDRESSES", KAD + "types.rs", const("MAX_ADDRESSES")),
    ("C19_KAD_DEFAULT_MAX_MESSAGE_SIZE", KAD + "config.rs", const("DEFAULT_MAX_MESSAGE_SIZE")),
    ("C19_IDENTIFY_PAYLOAD_SIZE", "src/protocol/libp2p/identify.rs", const("IDENTIFY_PAYLOAD_SIZE")),
    ("C19_BITSWAP_MAX_MESSAGE_SIZE", "src/protocol/libp2p/bitswap/config.rs", const("MAX_MESSAGE_SIZE")),
    ("C19_WEBRTC_MAX_FRAME_SIZE", "src/transport/webrtc/util.rs", const("MAX_FRAME_SIZE")),
    ("C19_MDNS_BUFFER", "src/protocol/mdns.rs", r"receive_buffer:\s*vec!\[0u8;\s*([^\]]+)\]"),
    ("C19_PING_PAYLOAD_SIZE", "src/protocol/libp2p/ping/config.rs", const("PING_PAYLOAD_SIZE")),
    ("PEER_ID_MULTIHASH_SIZE", "src/peer_id.rs", r"type\s+Multihash\s*=\s*multihash::Multihash<\s*(\d+)\s*>\s*;"),
    # C04
    ("BACKPRESSURE_BOUNDARY", "src/substream/mod.rs", const("BACKPRESSURE_BOUNDARY")),
    ("SUBSTREAM_READ_BUFFER_INIT", "src/substream/mod.rs",
     r"ProtocolCodec::Identity\(payload_size\)\s*=>\s*std::cmp::max\(payload_size,\s*(\d+)\)"),
    ("SUBSTREAM_READ_BUFFER_INIT_OTHER", "src/substream/mod.rs",
     r"std::cmp::max\(payload_size,\s*\d+\),\s*_\s*=>\s*(\d+),"),
    ("SUBSTREAM_SIZE_VEC_LEN", "src/substream/mod.rs", r"size_vec:\s*BytesMut::zeroed\((\d+)\)"),
    ("YAMUX_DEFAULT_CREDIT", "src/yamux/mod.rs", const("DEFAULT_CREDIT")),
    ("WEBRTC_MAX_INFLIGHT_MESSAGES", "src/transport/webrtc/substream.rs", const("MAX_INFLIGHT_MESSAGES")),
    # C10 (scores are i32; the two negative ones are read as magnitudes: `-100i32` -> 100, `i32::MIN` -> 2^31)
    ("MAX_ADDRESSES", ADDR, const("MAX_ADDRESSES")),
    ("SCORE_CONNECTION_ESTABLISHED", ADDR, const("CONNECTION_ESTABLISHED")),
    ("SCORE_CONNECTION_FAILURE_NEG", ADDR, r"const\s+CONNECTION_FAILURE\s*:\s*i32\s*=\s*-\s*([^;]+);"),
    ("SCORE_ADDRESS_FAILURE_NEG", ADDR, r"const\s+ADDRESS_FAILURE\s*:\s*i32\s*=\s*(i32::MIN)\s*;"),
    ("SCORE_PUBLIC_ADDRESS_BONUS", ADDR, const("PUBLIC_ADDRESS_BONUS")),
    # C20
    ("BITSWAP_MAX_MESSAGE_SIZE", BITSWAP + "config.rs", const("MAX_MESSAGE_SIZE")),
    ("BITSWAP_MAX_BATCH_SIZE", BITSWAP + "config.rs", const("MAX_BATCH_SIZE")),
    ("BITSWAP_EMPTY_MESSAGE_SIZE", BITSWAP + "mod.rs", const("EMPTY_MESSAGE_SIZE")),
    # C14
    ("NUM_BUCKETS", KAD + "routing_table.rs", const("NUM_BUCKETS")),
    ("K_BUCKET", KAD + "bucket.rs", r"if\s+self\.nodes\.len\(\)\s*<\s*(\d+)\s*\{"),
    # C13
    ("REQUEST_TIMEOUT_SECS", "src/protocol/request_response/mod.rs",
     r"const\s+REQUEST_TIMEOUT\s*:\s*Duration\s*=\s*Duration::from_secs\(([^)]+)\)"),
    # C12
    # (C12 also uses BACKPRESSURE_BOUNDARY, defined above for C04)
]

# String constants (group 1 = the literal's content, plain ASCII without escapes): emitted as
# <name>_BE (the bytes read as one big-endian number) and <name>_LEN.
STR_CONSTS = [
    # C01
    ("C01_STATIC_KEY_DOMAIN", NOISE, r'const\s+STATIC_KEY_DOMAIN\s*:\s*&str\s*=\s*"([^"\\\\]*)"\s*;'),
    ("C01_TLS_SIGNING_PREFIX", "src/crypto/tls/certificate.rs",
     r'const\s+P2P_SIGNING_PREFIX\s*:\s*\[u8;\s*\d+\]\s*=\s*\*b"([^"\\\\]*)"\s*;'),
    ("C01_WEBRTC_PROLOGUE_PREFIX", "src/transport/webrtc/opening.rs",
     r'fn\s+noise_prologue[^{]*\{\s*const\s+PREFIX\s*:\s*&\[u8\]\s*=\s*b"([^"\\\\]*)"\s*;'),
]


def eval_int(expr, names=None):
    e = re.sub(r"(?<=\d)_(?=\d)", "", expr)
    e = e.replace("i32::MIN", "2147483648")  # magnitude of i32::MIN (only used by *_NEG constants)
    e = re.sub(r"(\d)(usize|u8|u16|u32|u64|u128|i32|i64|isize)\b", r"\1", e)
    e = re.sub(r"\bas\s+\w+", "", e)
    node = ast.parse(e.strip(), mode="eval")

    def ev(n):
        if isinstance(n, ast.Expression):
            return ev(n.body)
        if isinstance(n, ast.Constant) and isinstance(n.value, int):
            return n.value
        if isinstance(n, ast.Name) and names and n.id in names:
            return names[n.id]
        if isinstance(n, ast.BinOp):
            a, b = ev(n.left), ev(n.right)
            if isinstance(n.op, ast.Mult):
                return a * b
            if isinstance(n.op, ast.Add):
                return a + b
            if isinstance(n.op, ast.Sub):
                return a - b
            if isinstance(n.op, ast.LShift):
                return a << b
            if isinstance(n.op, ast.FloorDiv) or isinstance(n.op, ast.Div):
                return a // b
        raise ValueError("unsupported expression: " + expr)

    return ev(node)


def main():
    vals = {}
    missing = []
    for name, path, rx in CONSTS:
        try:
            src = open(os.path.join(REPO, path)).read()
        except OSError:
            missing.append((name, path, "file not found"))
            continue
        m = re.search(rx, src)
        if not m:
            missing.append((name, path, "pattern not found"))
            continue
        try:
            vals[name] = eval_int(m.group(1), vals)
        except Exception as e:  # noqa
            missing.append((name, path, str(e)))
    # C07: the exit sites of the TCP connection event loop -> coq/gen/ConnExits.v (sibling script)
    sys.path.insert(0, os.path.dirname(os.path.abspath(__file__)))
    import gen_conn_exits
    counts, miss = gen_conn_exits.generate(REPO)
    vals.update(counts)      # CONN_EXIT_SITES, WS_EXIT_SITES, QUIC_EXIT_SITES
    missing += list(miss)
    # C07: the statements of the connection event loops, accept futures and ProtocolSet reports, the WebRTC
    # exit sites, the application's event mapping -> coq/gen/ConnSkel.v, harness/src/gen_c07_msgs.rs
    import gen_c07_skel
    counts, miss = gen_c07_skel.generate(REPO)
    vals.update(counts)      # C07_SKEL_STATEMENTS, WEBRTC_EXIT_SITES
    missing += list(miss)
    # C18: every place that makes a PeerId from key material -> coq/gen/PeerIdSites.v (sibling script)
    import gen_c18_sites
    counts, miss = gen_c18_sites.generate(REPO)
    vals.update(counts)      # PEER_ID_SITES
    missing += list(miss)
    # C19: every decode / buffer / codec site -> coq/gen/DecodeSites.v (sibling script)
    import gen_c19_sites
    counts, miss = gen_c19_sites.generate(REPO)
    vals.update(counts)      # C19_DECODE_SITES, C19_CODEC_SITES
    missing += list(miss)
    # C17: shape of the MemoryStore, its configuration and its callers -> coq/gen/C17Tables.v (sibling script)
    import gen_c17_tables
    counts, miss = gen_c17_tables.generate(REPO)
    vals.update(counts)      # C17_STORE_CALL_SITES
    # C10: the DialError variants and the arms of AddressStore::error_score -> coq/gen/DialErrors.v
    import gen_c10_errors
    counts, miss = gen_c10_errors.generate(REPO)
    vals.update(counts)      # C10_DIAL_ERROR_LEAVES, C10_ERROR_SCORE_ARMS, C10_STORE_SITES, C10_ENTRY_SITES
    missing += list(miss)
    # C02: the io::ErrorKind table of the harness and the kinds the NoiseSocket produces itself
    # -> coq/gen/NoiseKinds.v (sibling script)
    import gen_c02_kinds
    counts, miss = gen_c02_kinds.generate(REPO)
    vals.update(counts)      # NOISE_KIND_TABLE_SIZE
    missing += list(miss)
    # C15: the dispatch tables of the Kademlia QueryEngine -> coq/gen/KadDispatch.v (sibling script)
    import gen_c15_dispatch
    counts, miss = gen_c15_dispatch.generate(REPO)
    vals.update(counts)      # C15_QUERY_TYPES, C15_MESSAGE_KINDS, C15_QUERY_ACTIONS
    # C16: KademliaHandle API, command / event enums, dispatch of the Kademlia event loop -> coq/gen/C16Tables.v
    import gen_c16_tables
    counts, miss = gen_c16_tables.generate(REPO)
    vals.update(counts)      # C16_COMMANDS, C16_EVENTS, C16_HANDLE_METHODS
    missing += list(miss)
    # C04: error-kind table and mapping flags -> coq/gen/C04Tables.v (sibling script)
    import gen_c04_tables
    counts, miss = gen_c04_tables.generate(REPO)
    vals.update(counts)      # SUBSTREAM_ERRORKINDS_MASK, EK_*, ...
    missing += list(miss)
    # C06: API / call sites of ConnectionLimits and PeerState, order inside on_connection_established,
    # accept / reject shapes of the socket transports -> coq/gen/CapsTables.v (sibling script)
    import gen_c06_caps
    counts, miss = gen_c06_caps.generate(REPO)
    vals.update(counts)      # C06_LIMITS_CALL_SITES, C06_TRANSPORT_SHAPES_OK
    # C12: select!/poll orders, error mapping and forget() sites of the notification code -> coq/gen/C12Tables.v
    import gen_c12_tables
    counts, miss = gen_c12_tables.generate(REPO)
    vals.update(counts)      # C12_TABLE_ITEMS
    # C13: enums, match arms, select! order and configuration of the request-response protocol
    # -> coq/gen/C13Tables.v (sibling script)
    import gen_c13_tables
    counts, miss = gen_c13_tables.generate(REPO)
    vals.update(counts)      # C13_SELECT_ARMS, C13_ERROR_VARIANTS
    missing += list(miss)
    str_names = []
    for name, path, rx in STR_CONSTS:
        try:
            src = open(os.path.join(REPO, path)).read()
        except OSError:
            missing.append((name + "_BE", path, "file not found"))
            continue
        m = re.search(rx, src)
        if not m or not m.group(1).isascii():
            missing.append((name + "_BE", path, "pattern not found"))
            continue
        raw = m.group(1).encode("ascii")
        vals[name + "_BE"] = int.from_bytes(raw, "big") if raw else 0
        vals[name + "_LEN"] = len(raw)
        str_names += [name + "_BE", name + "_LEN"]
    # A constant that can no longer be located is a broken tie (reported through `missing`), but the
    # last known value (tools/consts_fallback.json, committed) is still emitted so that the model
    # keeps building and the check can go on to search for a failing input.
    fb_path = os.path.join(os.path.dirname(os.path.abspath(__file__)), "consts_fallback.json")
    try:
        fallback = json.load(open(fb_path))
    except Exception:
        fallback = {}
    for name, path, why in missing:
        if name in fallback and name not in vals:
            vals[name] = fallback[name]
    if os.environ.get("VERIF_WRITE_FALLBACK") == "1" and not missing:
        json.dump(vals, open(fb_path, "w"), indent=1, sort_keys=True)
    lines = [
        "(* GENERATED by tools/gen_consts.py from the Rust source on every check. Do not edit. *)",
        "From Coq Require Import NArith.",
        "Open Scope N_scope.",
        "",
    ]
    seen = set()
    for name, _, _ in CONSTS:
        if name in seen:
            continue
        seen.add(name)
        if name in vals:
            lines.append("Definition %s : N := %d." % (name, vals[name]))
    for name in str_names:
        lines.append("Definition %s : N := %d." % (name, vals[name]))
    text = "\n".join(lines) + "\n"
    os.makedirs(os.path.dirname(OUT), exist_ok=True)
    old = open(OUT).read() if os.path.exists(OUT) else None
    if old != text:
        open(OUT, "w").write(text)
    json.dump({"values": vals, "missing": missing}, sys.stdout)
    print()
    for name, path, why in missing:
        print("MISSING %s in %s: %s" % (name, path, why), file=sys.stderr)
    sys.exit(3 if missing else 0)


if __name__ == "__main__":
    main()
