#!/usr/bin/env python3
"""Statement-level skeleton extractor for C07.

gen_conn_exits.py lists the *exit sites* of the connection event loops.  This script reads the
*statements* of the same functions (comments and string literals blanked, brackets matched, a small
statement splitter — no Rust parser) and writes what each `tokio::select!` branch and each match arm
does with the functions the property depends on:

    report_connection_closed (1)  try_get_permit (2)  report_substream_open (3)
    report_substream_open_failure (4)  handle_yamux_substream (5)  handle_negotiated_substream (6)
    handle_protocol_command (7)  protocol_codec (8)  on_connection_closed (9)
    report_connection_established (10)  start / run_event_loop (11)

as terms of a small action language (`act`, defined in the preamble of the generated file):

    ACall f h        a call of f whose result is handled as h:
                     HTry `f(..).await?` | HRet `return f(..).await` | HLog `if let Err(_) = f(..) { log }`
                     | HDrop `let _ = f(..)` | HBare anything else (value used, or plain statement)
    AElse f body     `let Some(_) = f() else { body }`
    AIfNamed body    `if let (Some(protocol), Some(substream_id)) = (protocol, substream_id) { body }`
                     (also the two-arm `match (protocol, substream_id)` with an empty `_` arm)
    AIfStop f        `if f(..).await? { return Ok(()) }`
    APush            `self.pending_substreams.push(..)` (the boxed future is not looked into)
    ARet v           `return Ok(true)` (1) / `return Ok(())` / `return Ok(false)` (0)
    ATail v          tail expression `Ok(true)` (1) / `Ok(false)` (0) / `Ok(())` (2)
    AMatch s arms    `match s { p => body, .. }` (s, p: codes from the tables below, 99 = unknown)
    AFor body        `for .. in .. { body }`
    ACond b1 b2      `if c { b1 } else { b2 }` with a condition that contains nothing of interest
    AClosure body    `let name = async |..| { body };` (calls of the closure appear as AAwait)
    ASpawn body      `executor.run(Box::pin(async move { body }))`
    AFanout v        `let mut futures = self.protocols.iter().map(.. tx.send(InnerTransportEvent::V ..).await ..).collect()`
                     (v: 1 ConnectionEstablished 2 ConnectionClosed): one send per protocol, none awaited yet
    ADrain r         `while !futures.is_empty() { .. futures.next().await .. }` (r: the first error is remembered)
    AMgr h           `self.mgr_tx.send(TransportManagerEvent::ConnectionClosed{..}).await` + `?` (HTry) or not
    ATailErr         tail `match protocol_error { Some(e) => Err(e), None => Ok(()) }`
    AAwait           an `.await` on anything else
    AUnknown         a statement that contains a call of interest, `?`, `return`, `break`, `continue`,
                     `.expect(`, `.unwrap()`, `panic!`.. and has none of the shapes above

Statements that contain none of these are inert and left out.  Everything is fail-closed: what the
script does not recognise becomes AUnknown / 99 and the model table (coq/C07/Skel.v) no longer equals
the generated one, so a proof obligation breaks.

Also extracted:
  * the debug message logged in every arm that ends the loop -> harness/src/gen_c07_msgs.rs (the
    loop-level harness stream recognises the exit arm the real code took by this message),
  * the variants of `TransportEvent` (src/transport/mod.rs) and what `Litep2p::next_event` (src/lib.rs)
    maps each of them to.

Output: coq/gen/ConnSkel.v, harness/src/gen_c07_msgs.rs.  Called from gen_consts.py on every check."""
import os
import re
import sys

HERE = os.path.dirname(os.path.abspath(__file__))
sys.path.insert(0, HERE)
from gen_conn_exits import blank  # noqa: E402

OUT = os.path.join(HERE, "..", "coq", "gen", "ConnSkel.v")
OUT_RS = os.path.join(HERE, "..", "harness", "src", "gen_c07_msgs.rs")

CALLEES = ["report_connection_closed", "try_get_permit", "report_substream_open",
           "report_substream_open_failure", "handle_yamux_substream", "handle_negotiated_substream",
           "handle_protocol_command", "protocol_codec", "on_connection_closed",
           "report_connection_established", "start", "run_event_loop"]
CODE = {c: i + 1 for i, c in enumerate(CALLEES)}
CODE["run_event_loop"] = 11
CALLEE_RX = re.compile(r"\b(" + "|".join(CALLEES) + r")\s*\(")
TRY_RX = re.compile(r"(?<=[\)\w\]])\?(?!\w)")
DANGER_RX = re.compile(r"\breturn\b|\bbreak\b|\bcontinue\b|\.expect\s*\(|\.unwrap\s*\(\s*\)|\bpanic!|\bunreachable!"
                       r"|\btodo!|\bunimplemented!|\bprocess::|\bloop\b|\bwhile\b")
AWAIT_RX = re.compile(r"\.await\b")

# match patterns (whitespace removed) -> code
PATTERNS = [
    (r"Some\(Ok\(stream\)\)", 1),
    (r"Some\(Err\(error\)\)", 2),
    (r"None", 3),
    (r"Err\(error\)", 4),
    (r"Ok\(substream\)", 5),
    (r"Some\(ProtocolCommand::OpenSubstream\{[\w:,._]*\}\)", 6),
    (r"Some\(ProtocolCommand::ForceClose\)", 7),
    (r"\(Some\(protocol\),Some\(substream_id\)\)", 8),
    (r"_", 9),
    (r"Ok\(\(send_stream,receive_stream\)\)", 10),
    (r"None\|Some\(ProtocolCommand::ForceClose\)", 11),
]
# match scrutinees (whitespace removed) -> code
SCRUTS = [
    (r"substream", 1), (r"result", 2), (r"command", 3), (r"protocol", 3), (r"event", 1),
    (r"\(protocol,substream_id\)", 4),
]
# select! branch heads -> code
HEADS = [
    (r"self\.connection\.next\(\)", 1), (r"self\.connection\.accept_bi\(\)", 1),
    (r"self\.pending_substreams\.select_next_some\(\)", 2),
    (r"self\.protocol_set\.next\(\)", 3),
]


def code_of(table, text):
    t = re.sub(r"\s+", "", text)
    for rx, c in table:
        if re.fullmatch(rx, t):
            return c
    return 99


OPEN, CLOSE = "([{", ")]}"


def match_close(s, i):
    """s[i] is an opening bracket: index of the matching closing one (or len(s))."""
    depth = 0
    for j in range(i, len(s)):
        if s[j] in OPEN:
            depth += 1
        elif s[j] in CLOSE:
            depth -= 1
            if depth == 0:
                return j
    return len(s)


def body_span(src, name):
    m = re.search(r"\bfn\s+" + name + r"\s*\(", src)
    if not m:
        return None
    close_par = match_close(src, m.end() - 1)
    i = src.find("{", close_par)
    if i < 0:
        return None
    return i + 1, match_close(src, i)


def skip_ws(s, i, j):
    while i < j and s[i].isspace():
        i += 1
    return i


BLOCK_KW = re.compile(r"(if|match|loop|while|for|unsafe)\b")


def body_brace(s, i, j):
    """s[i:j] starts with `if`/`while`/`for`/`match` (or with the text after an `else`): index of the `{`
    that opens the block, skipping parentheses and — after `let` — the braces of a struct pattern."""
    need_eq = bool(re.match(r"(if|while)\s+let\b", s[i:j]))
    k = i
    while k < j:
        c = s[k]
        if c in "([":
            k = match_close(s, k) + 1
            continue
        if c == "=" and need_eq and s[k + 1:k + 2] not in "=>" and s[k - 1:k] not in "=!<>":
            need_eq = False
        if c == "{":
            if need_eq:
                k = match_close(s, k) + 1
                continue
            return k
        k += 1
    return -1


def stmt_end(s, i, j):
    """End (exclusive) of the statement that starts at s[i], inside s[:j]."""
    blocky = bool(BLOCK_KW.match(s, i)) or s[i] == "{"
    k = i
    if blocky and s[i] != "{":
        b = body_brace(s, i, j)
        if b >= 0:
            k = b
    while k < j:
        c = s[k]
        if c in "([":
            k = match_close(s, k) + 1
            continue
        if c == "{":
            e = match_close(s, k)
            k = e + 1
            if blocky:
                n = skip_ws(s, k, j)
                if s.startswith("else", n) and not (s[n + 4:n + 5].isalnum() or s[n + 4:n + 5] == "_"):
                    k = skip_ws(s, n + 4, j)
                    if re.match(r"if\b", s[k:j]):
                        b = body_brace(s, k, j)
                        if b >= 0:
                            k = b
                    continue
                if n < j and s[n] in ".?":
                    blocky = False      # a method chain on the block expression
                    continue
                if n < j and s[n] == ";":
                    return n + 1
                return k
            continue
        if c == ";":
            return k + 1
        k += 1
    return j


def callees_in(text):
    return [CODE[m.group(1)] for m in CALLEE_RX.finditer(text)]


def interesting(text):
    return bool(callees_in(text) or TRY_RX.search(text) or DANGER_RX.search(text) or AWAIT_RX.search(text))


class Ctx:
    def __init__(self, blanked, raw):
        self.s = blanked
        self.raw = raw
        self.msgs = []        # (offset, message) of every tracing macro seen


LOG_RX = re.compile(r"tracing::(trace|debug|info|warn|error)!\s*\(")


def parse_block(cx, i, j):
    """Statements of cx.s[i:j] -> list of nodes."""
    s = cx.s
    out = []
    p = skip_ws(s, i, j)
    while p < j:
        e = stmt_end(s, p, j)
        out += parse_stmt(cx, p, e)
        p = skip_ws(s, e, j)
    return out


def parse_match(cx, i, e):
    """s[i:e] starts with `match`; -> node."""
    s = cx.s
    b = s.find("{", i, e)
    # the scrutinee may contain braces only in odd code; take the first `{` outside parentheses
    k = i + 5
    while k < e:
        if s[k] in "([":
            k = match_close(s, k) + 1
            continue
        if s[k] == "{":
            b = k
            break
        k += 1
    scrut = code_of(SCRUTS, s[i + 5:b])
    close = match_close(s, b)
    arms = []
    p = skip_ws(s, b + 1, close)
    while p < close:
        # pattern up to `=>` at depth 0
        k = p
        while k < close and not s.startswith("=>", k):
            if s[k] in OPEN:
                k = match_close(s, k) + 1
            else:
                k += 1
        pat_text = s[p:k]
        guard = None
        mg = re.search(r"\bif\b", pat_text)
        if mg:
            guard = pat_text[mg.end():]
            pat_text = pat_text[:mg.start()]
        pat = code_of(PATTERNS, pat_text)
        if guard is not None:
            pat = 99
        q = skip_ws(s, k + 2, close)
        if q < close and s[q] == "{":
            qe = match_close(s, q)
            body = parse_block(cx, q + 1, qe)
            q = qe + 1
        else:
            # expression arm: up to `,` at depth 0
            k2 = q
            while k2 < close and s[k2] != ",":
                if s[k2] in OPEN:
                    k2 = match_close(s, k2) + 1
                else:
                    k2 += 1
            body = parse_stmt(cx, q, k2, tail=True)
            q = k2
        q = skip_ws(s, q, close)
        if q < close and s[q] == ",":
            q += 1
        arms.append((pat, body))
        p = skip_ws(s, q, close)
    # `match (protocol, substream_id) { (Some, Some) => body, _ => {} }` is the `if let` of ws/quic
    if scrut == 4 and [a for a, _ in arms] == [8, 9] and arms[1][1] == []:
        return ("ifnamed", arms[0][1])
    return ("match", scrut, arms)


def handling_of(text, pos_after_call):
    """How is the result of the call that ends at pos_after_call (index of its `(`) used?"""
    close = match_close(text, pos_after_call)
    rest = text[close + 1:]
    m = re.match(r"\s*\.await\s*\?", rest)
    if m:
        return "HTry"
    m = re.match(r"\s*\?", rest)
    if m:
        return "HTry"
    return "HBare"


def calls_with_handling(text, default=None):
    out = []
    for m in CALLEE_RX.finditer(text):
        h = handling_of(text, m.end() - 1)
        if h == "HBare" and default:
            h = default
        out.append(("call", CODE[m.group(1)], h))
    return out


def other_awaits(text):
    """number of `.await` that do not belong to a call of interest"""
    n = len(AWAIT_RX.findall(text))
    for m in CALLEE_RX.finditer(text):
        close = match_close(text, m.end() - 1)
        if re.match(r"\s*\.await\b", text[close + 1:]):
            n -= 1
    return n


def parse_stmt(cx, p, e, tail=False):
    s = cx.s
    text = s[p:e]
    stripped = text.strip()
    if not stripped or stripped == ";":
        return []
    # logging macro: remember the message, inert
    m = LOG_RX.match(s, p)
    if m:
        close = match_close(s, m.end() - 1)
        lits = re.findall(r'"((?:[^"\\]|\\.)*)"', cx.raw[m.end():close])
        cx.msgs.append((p, lits[-1] if lits else ""))
        return []
    # let-else
    m = re.match(r"let\s+Some\s*\(\s*\w+\s*\)\s*=\s*", text)
    if m:
        k = p + m.end()
        while k < e and not re.match(r"else\b", s[k:]):
            if s[k] in OPEN:
                k = match_close(s, k) + 1
            else:
                k += 1
        if k < e:
            cs = callees_in(s[p + m.end():k])
            b = s.find("{", k, e)
            be = match_close(s, b)
            if len(cs) == 1:
                return [("else", cs[0], parse_block(cx, b + 1, be))]
            return [("unknown",)]
    # if let Err(..) = CALL { log }
    m = re.match(r"if\s+let\s+Err\s*\(\s*\w+\s*\)\s*=\s*", text)
    if m:
        k = body_brace(s, p, e)
        be = match_close(s, k)
        cs = callees_in(s[p + m.end():k])
        body = parse_block(cx, k + 1, be)
        rest = s[be + 1:e].strip()
        if len(cs) == 1 and body == [] and rest == "" and not TRY_RX.search(s[p + m.end():k]):
            return [("call", cs[0], "HLog")]
        return [("unknown",)]
    # if let (Some(protocol), Some(substream_id)) = (protocol, substream_id) { .. }
    m = re.match(r"if\s+let\s*\(\s*Some\s*\(\s*protocol\s*\)\s*,\s*Some\s*\(\s*substream_id\s*\)\s*\)\s*=\s*"
                 r"\(\s*protocol\s*,\s*substream_id\s*\)\s*\{", text)
    if m:
        b = p + m.end() - 1
        be = match_close(s, b)
        if s[be + 1:e].strip() == "":
            return [("ifnamed", parse_block(cx, b + 1, be))]
        return [("unknown",)]
    # if CALL.await? { return Ok(()) }   |   if <inert condition> { body } [else { body }]
    m = re.match(r"if\s+", text)
    if m:
        k = body_brace(s, p, e)
        cond = s[p + m.end():k]
        be = match_close(s, k)
        cs = calls_with_handling(cond)
        body = parse_block(cx, k + 1, be)
        rest = s[be + 1:e].strip()
        if len(cs) == 1 and cs[0][2] == "HTry" and body == [("ret", 0)] and rest == "" \
                and re.fullmatch(r"self\s*\.\s*\w+\s*\([\w\s,]*\)\s*\.await\s*\?\s*", cond):
            return [("ifstop", cs[0][1])]
        if not interesting(text):
            return []
        if not interesting(cond):
            if rest == "":
                return [("cond", body, [])]
            me = re.match(r"else\s*\{", rest)
            if me:
                eb = s.index("{", be + 1)
                ee = match_close(s, eb)
                if s[ee + 1:e].strip() == "":
                    return [("cond", body, parse_block(cx, eb + 1, ee))]
        return [("unknown",)]
    if re.fullmatch(r"match\s+protocol_error\s*\{\s*Some\s*\(\s*e\s*\)\s*=>\s*Err\s*\(\s*e\s*\)\s*,\s*None\s*=>\s*Ok\s*\(\s*\(\s*\)\s*\)\s*,?\s*\}", stripped):
        return [("tailerr",)]
    if re.match(r"match\b", text):
        me = match_close(s, s.find("{", p, e))
        node = parse_match(cx, p, e)
        if s[me + 1:e].strip(" ;\n") != "":
            return [("unknown",)]
        if not interesting(text):
            return []
        return [node]
    m = re.match(r"for\s+[^{]*\{", text)
    if m and not interesting(text[:m.end()]):
        b = p + m.end() - 1
        be = match_close(s, b)
        body = parse_block(cx, b + 1, be)
        if s[be + 1:e].strip() != "":
            return [("unknown",)]
        return [("for", body)] if body else []
    # executor.run(Box::pin(async move { .. }))
    m = re.match(r"executor\s*\.\s*run\s*\(\s*Box::pin\s*\(\s*async\s+move\s*\{", text)
    if m:
        b = p + m.end() - 1
        be = match_close(s, b)
        return [("spawn", parse_block(cx, b + 1, be))]
    # self.pending_substreams.push(..)
    if re.match(r"self\s*\.\s*pending_substreams\s*\.\s*push\s*\(", text):
        return [("push",)]
    # closures / async blocks bound to a name are not run here: their body is looked into when inert only
    m = re.match(r"return\b", text)
    if m:
        expr = text[m.end():].strip().rstrip(";").strip()
        cs = calls_with_handling(expr)
        if len(cs) == 1 and re.fullmatch(r"self\s*\.(\s*protocol_set\s*\.)?\s*\w+\s*\((?:[^()]|\([^()]*\))*\)\s*\.await", expr):
            return [("call", cs[0][1], "HRet")]
        if re.fullmatch(r"Ok\s*\(\s*true\s*\)", expr):
            return [("ret", 1)]
        if re.fullmatch(r"Ok\s*\(\s*(\(\s*\)|false)\s*\)", expr):
            return [("ret", 0)]
        return [("unknown",)]
    if tail or not text.rstrip().endswith(";"):
        t = stripped.rstrip(";").strip()
        if re.fullmatch(r"Ok\s*\(\s*true\s*\)", t):
            return [("tail", 1)]
        if re.fullmatch(r"Ok\s*\(\s*false\s*\)", t):
            return [("tail", 0)]
        if re.fullmatch(r"Ok\s*\(\s*\(\s*\)\s*\)", t):
            return [("tail", 2)]
    m = re.match(r"let\s+_\s*=\s*", text)
    if m:
        cs = callees_in(text[m.end():])
        if len(cs) == 1 and not TRY_RX.search(text) and not DANGER_RX.search(text) and other_awaits(text) == 0:
            return [("call", cs[0], "HDrop")]
        return [("unknown",)] if interesting(text) else []
    # ProtocolSet reports: fan-out to every protocol, drain of the futures, the manager's notice
    m = re.match(r"let\s+mut\s+futures\s*=\s*self\s*\.\s*protocols\s*\.\s*iter\s*\(\s*\)", text)
    if m and re.search(r"\.collect::<FuturesUnordered<_>>\(\)\s*;\s*$", text):
        vs = re.findall(r"\.\s*tx\s*\.\s*send\s*\(\s*InnerTransportEvent::(\w+)", text)
        bad = TRY_RX.search(text) or DANGER_RX.search(text) or callees_in(text)
        if len(vs) == 1 and not bad and len(AWAIT_RX.findall(text)) == 1:
            return [("fanout", {"ConnectionEstablished": 1, "ConnectionClosed": 2}.get(vs[0], 99))]
        return [("unknown",)]
    m = re.match(r"while\s+!\s*futures\s*\.\s*is_empty\s*\(\s*\)\s*\{", text)
    if m:
        b = p + m.end() - 1
        be = match_close(s, b)
        body = s[b + 1:be]
        if s[be + 1:e].strip() == "" and len(re.findall(r"futures\s*\.\s*next\s*\(\s*\)\s*\.await", body)) == 1 \
                and len(AWAIT_RX.findall(body)) == 1 and not TRY_RX.search(body) \
                and not re.search(r"\breturn\b|\bbreak\b|\bcontinue\b|\bpanic!|\.unwrap\(|\.expect\(", body):
            return [("drain", 1 if re.search(r"protocol_error\s*=\s*Some\b", body) else 0)]
        return [("unknown",)]
    if re.match(r"self\s*\.\s*mgr_tx\s*\.\s*send\s*\(\s*TransportManagerEvent::ConnectionClosed\b", text):
        close = match_close(s, s.index("(", p))
        rest = s[close + 1:e]
        if re.fullmatch(r"\s*\.await\s*\?\s*;\s*", rest):
            return [("mgr", "HTry")]
        if re.fullmatch(r"\s*\.await\s*;\s*", rest):
            return [("mgr", "HBare")]
        return [("unknown",)]
    if re.fullmatch(r"match\s+protocol_error\s*\{\s*Some\s*\(\s*e\s*\)\s*=>\s*Err\s*\(\s*e\s*\)\s*,\s*None\s*=>\s*Ok\s*\(\s*\(\s*\)\s*\)\s*,?\s*\}", stripped):
        return [("tailerr",)]
    # a closure definition: `let mut name = async |..| { .. };` — looked into as a block
    m = re.match(r"let\s+(mut\s+)?\w+\s*=\s*(async\s+)?(move\s+)?\|[^|]*\|\s*\{", text)
    if m:
        b = p + m.end() - 1
        be = match_close(s, b)
        body = parse_block(cx, b + 1, be)
        return [("closure", body)] if body else []
    if not interesting(text):
        return []
    # plain statement / let with calls of interest
    if DANGER_RX.search(text):
        return [("unknown",)]
    cs = calls_with_handling(text)
    out = list(cs)
    extra_try = len(TRY_RX.findall(text)) - sum(1 for c in cs if c[2] == "HTry")
    if extra_try > 0:
        return [("unknown",)]
    if other_awaits(text) > 0:
        out.append(("await",))
    return out


def render(nodes, ind=4):
    """nodes -> Coq term of type `acts`"""
    if not nodes:
        return "ANil"
    parts = []
    for n in nodes:
        parts.append(render_act(n, ind))
    return "<[ " + ";\n".ljust(ind + 4) .join(parts) + " ]>"


def render_act(n, ind):
    k = n[0]
    if k == "call":
        return "ACall %d %s" % (n[1], n[2])
    if k == "else":
        return "AElse %d (%s)" % (n[1], render(n[2], ind + 2))
    if k == "ifnamed":
        return "AIfNamed (%s)" % render(n[1], ind + 2)
    if k == "ifstop":
        return "AIfStop %d" % n[1]
    if k == "push":
        return "APush"
    if k == "ret":
        return "ARet %d" % n[1]
    if k == "tail":
        return "ATail %d" % n[1]
    if k == "for":
        return "AFor (%s)" % render(n[1], ind + 2)
    if k == "spawn":
        return "ASpawn (%s)" % render(n[1], ind + 2)
    if k == "closure":
        return "AClosure (%s)" % render(n[1], ind + 2)
    if k == "await":
        return "AAwait"
    if k == "fanout":
        return "AFanout %d" % n[1]
    if k == "drain":
        return "ADrain %s" % ("true" if n[1] else "false")
    if k == "mgr":
        return "AMgr %s" % n[1]
    if k == "tailerr":
        return "ATailErr"
    if k == "cond":
        return "ACond (%s) (%s)" % (render(n[1], ind + 2), render(n[2], ind + 2))
    if k == "match":
        arms = "MNil"
        for pat, body in reversed(n[2]):
            arms = "MCons %d (%s)\n%s(%s)" % (pat, render(body, ind + 4), " " * (ind + 2), arms)
        return "AMatch %d\n%s(%s)" % (n[1], " " * (ind + 2), arms)
    return "AUnknown"


PREAMBLE = """(* GENERATED by tools/gen_c07_skel.py from the connection event loops of the Rust source on every check.
   Do not edit.  See the docstring of the script for the meaning of the constructors and codes. *)
From Coq Require Import List NArith Bool.
Import ListNotations.
Open Scope N_scope.

Inductive handling := HTry | HRet | HLog | HDrop | HBare.

Inductive act :=
| ACall (f : N) (h : handling)
| AElse (f : N) (body : acts)
| AIfNamed (body : acts)
| AIfStop (f : N)
| APush
| ARet (v : N)
| ATail (v : N)
| AMatch (scrut : N) (arms : marms)
| AFor (body : acts)
| ASpawn (body : acts)
| AClosure (body : acts)
| ACond (body : acts) (orelse : acts)
| AFanout (v : N)
| ADrain (remember_error : bool)
| AMgr (h : handling)
| ATailErr
| AAwait
| AUnknown
with acts := ANil | ACons (a : act) (r : acts)
with marms := MNil | MCons (pat : N) (body : acts) (r : marms).

Declare Scope acts_scope.
Delimit Scope acts_scope with acts.
Notation "<[ x ]>" := (ACons x ANil) : acts_scope.
Notation "<[ x ; y ; .. ; z ]>" := (ACons x (ACons y .. (ACons z ANil) ..)) : acts_scope.
Open Scope acts_scope.

(* one select! branch: (head, (has an `if` precondition, body)); head: 1 the connection
   (yamux next / accept_bi) 2 pending_substreams 3 protocol_set (commands) 99 unknown *)
Definition branch := (N * (bool * acts))%type.
"""


def parse_select(cx, i, j):
    """the `loop { tokio::select! { .. } }` of a start function -> ([(head, guard, nodes)], other statements)"""
    s = cx.s
    m = re.search(r"tokio::select!\s*\{", s[i:j])
    if not m:
        return None, None
    b = i + m.end() - 1
    close = match_close(s, b)
    # what surrounds the select!: `loop {` before, `}` after — anything else is reported
    before = s[i:i + m.start()].strip()
    after = s[close + 1:j].strip()
    around_ok = before == "loop {" and after == "}"
    branches = []
    p = skip_ws(s, b + 1, close)
    while p < close:
        k = p
        while k < close and not s.startswith("=>", k):
            if s[k] in OPEN:
                k = match_close(s, k) + 1
            else:
                k += 1
        head_text = s[p:k]
        mh = re.match(r"\s*[\w()\s,]+?\s*=\s*(.*)$", head_text, re.S)
        expr = mh.group(1) if mh else head_text
        guard = False
        # `, if cond` at depth 0
        d, g = 0, -1
        for x, c in enumerate(expr):
            if c in OPEN:
                d += 1
            elif c in CLOSE:
                d -= 1
            elif c == "," and d == 0:
                g = x
                break
        cond = ""
        if g >= 0:
            cond = expr[g + 1:].strip()
            expr = expr[:g]
            guard = True
        head = code_of(HEADS, expr)
        if guard and re.sub(r"\s+", "", cond) != "if!self.pending_substreams.is_empty()":
            head = 99
        q = skip_ws(s, k + 2, close)
        if s[q] == "{":
            qe = match_close(s, q)
            nodes = parse_block(cx, q + 1, qe)
            q = qe + 1
        else:
            qe = stmt_end(s, q, close)
            nodes = parse_stmt(cx, q, qe, tail=True)
            q = qe
        q = skip_ws(s, q, close)
        if q < close and s[q] == ",":
            q += 1
        branches.append((head, guard, nodes))
        p = skip_ws(s, q, close)
    return branches, around_ok


def render_branches(name, branches):
    rows = []
    for head, guard, nodes in branches:
        rows.append("(%d, (%s,\n    %s))" % (head, "true" if guard else "false", render(nodes, 4)))
    return "Definition %s : list branch :=\n  [" % name + ";\n   ".join(rows) + "].\n"


def exit_messages(cx, span, nodes_fn):
    """(offset of a closed report) -> the last message logged before it in the same arm; returned in
    source order as the list of messages preceding each report_connection_closed call"""
    s = cx.s
    out = []
    for m in re.finditer(r"\breport_connection_closed\b", s[span[0]:span[1]]):
        pos = span[0] + m.start()
        prev = [msg for (o, msg) in cx.msgs if span[0] <= o < pos]
        out.append(prev[-1] if prev else "")
    return out


def variants_of_enum(src, header_rx):
    m = re.search(header_rx, src)
    if not m:
        return None
    b = src.find("{", m.end() - 1)
    e = match_close(src, b)
    names = []
    p = b + 1
    while p < e:
        p = skip_ws(src, p, e)
        if p >= e:
            break
        if src[p] == "#":
            k = src.find("]", p)
            p = k + 1
            continue
        mm = re.match(r"(\w+)", src[p:e])
        if not mm:
            break
        names.append(mm.group(1))
        k = p + mm.end()
        k = skip_ws(src, k, e)
        if k < e and src[k] in "{(":
            k = match_close(src, k) + 1
        k = skip_ws(src, k, e)
        if k < e and src[k] == ",":
            k += 1
        p = k
    return names


def app_mapping(repo):
    """-> (variants of transport::TransportEvent, variants of Litep2pEvent, [(from, to or None)], wildcard dropped?)"""
    try:
        tm = blank(open(os.path.join(repo, "src/transport/mod.rs")).read())
        lib = blank(open(os.path.join(repo, "src/lib.rs")).read())
    except OSError:
        return None
    tvars = variants_of_enum(tm, r"pub\(crate\)\s+enum\s+TransportEvent\s*\{")
    avars = variants_of_enum(lib, r"pub\s+enum\s+Litep2pEvent\s*\{")
    span = body_span(lib, "next_event")
    if not (tvars and avars and span):
        return None
    body = lib[span[0]:span[1]]
    mm = re.search(r"match\s+self\.transport_manager\.next\(\)\.await\?\s*\{", body)
    if not mm:
        return None
    b = span[0] + mm.end() - 1
    close = match_close(lib, b)
    arms = []
    wildcard = None
    p = skip_ws(lib, b + 1, close)
    while p < close:
        k = p
        while k < close and not lib.startswith("=>", k):
            if lib[k] in OPEN:
                k = match_close(lib, k) + 1
            else:
                k += 1
        pat = re.sub(r"\s+", "", lib[p:k])
        q = skip_ws(lib, k + 2, close)
        if lib[q] == "{":
            qe = match_close(lib, q)
            bodytext = lib[q:qe + 1]
            q = qe + 1
        else:
            k2 = q
            while k2 < close and lib[k2] != ",":
                if lib[k2] in OPEN:
                    k2 = match_close(lib, k2) + 1
                else:
                    k2 += 1
            bodytext = lib[q:k2]
            q = k2
        q = skip_ws(lib, q, close)
        if q < close and lib[q] == ",":
            q += 1
        mf = re.match(r"TransportEvent::(\w+)", pat)
        mt = re.search(r"return\s+Some\s*\(\s*Litep2pEvent::(\w+)", bodytext)
        if pat == "_":
            wildcard = re.sub(r"\s+", "", bodytext) == "{}"
        elif mf:
            arms.append((mf.group(1), mt.group(1) if mt else None))
        else:
            arms.append(("?", None))
        p = skip_ws(lib, q, close)
    return tvars, avars, arms, wildcard


TRANSPORTS = [
    # name, connection file, accept file, loop fn, handler fns
    ("tcp", "src/transport/tcp/connection.rs", "src/transport/tcp/mod.rs", "start",
     ["handle_yamux_substream", "handle_negotiated_substream", "handle_protocol_command"]),
    ("ws", "src/transport/websocket/connection.rs", "src/transport/websocket/mod.rs", "start", []),
    ("quic", "src/transport/quic/connection.rs", "src/transport/quic/mod.rs", "start", []),
]
WEBRTC = ("src/transport/webrtc/connection.rs", "src/transport/webrtc/mod.rs")


def accept_nodes(cx_src_raw, path_repo):
    """the async block of `fn accept` -> nodes"""
    raw = open(path_repo).read()
    s = blank(raw)
    cx = Ctx(s, raw)
    # the `Transport::accept` of the file: the `fn accept` whose body returns a boxed future (verification
    # facades in the same file have forwarding functions of the same name); exactly one must qualify
    found = []
    for mm in re.finditer(r"\bfn\s+accept\s*\(", s):
        close_par = match_close(s, mm.end() - 1)
        i = s.find("{", close_par)
        if i < 0:
            continue
        sp = (i + 1, match_close(s, i))
        m1 = re.search(r"Ok\s*\(\s*Box::pin\s*\(\s*async\s+move\s*\{", s[sp[0]:sp[1]])
        if m1:
            found.append((sp, m1))
    if len(found) != 1:
        return None
    span, m = found[0]
    b = span[0] + m.end() - 1
    be = match_close(s, b)
    return parse_block(cx, b + 1, be)


def generate(repo):
    lines = [PREAMBLE]
    counts, missing = {}, []
    msgs_rs = []
    nstat = 0
    for name, cpath, apath, loopfn, handlers in TRANSPORTS:
        try:
            raw = open(os.path.join(repo, cpath)).read()
        except OSError:
            missing.append(("C07_SKEL_" + name.upper(), cpath, "file not found"))
            lines.append("Definition %s_start : list branch := [].\nDefinition %s_skel_complete : bool := false.\n" % (name, name))
            continue
        s = blank(raw)
        cx = Ctx(s, raw)
        span = body_span(s, loopfn)
        ok = span is not None
        branches = None
        if ok:
            branches, around_ok = parse_select(cx, span[0], span[1])
            ok = branches is not None and around_ok
        lines.append(render_branches("%s_start" % name, branches or []))
        nstat += sum(len(b[2]) for b in (branches or []))
        hs = []
        for h in handlers:
            hspan = body_span(s, h)
            if hspan is None:
                ok = False
                hs.append((CODE[h], [("unknown",)]))
            else:
                hs.append((CODE[h], parse_block(cx, hspan[0], hspan[1])))
        if handlers:
            rows = ["(%d,\n    %s)" % (c, render(n, 4)) for c, n in hs]
            lines.append("Definition %s_handlers : list (N * acts) :=\n  [" % name + ";\n   ".join(rows) + "].\n")
        lines.append("Definition %s_skel_complete : bool := %s.\n" % (name, "true" if ok else "false"))
        if not ok:
            missing.append(("C07_SKEL_" + name.upper(), cpath, "loop not recognised"))
        # messages: in source order of the report_connection_closed calls of the loop's functions
        ms = []
        for f in handlers + [loopfn]:
            sp = body_span(s, f)
            if sp:
                ms += exit_messages(cx, sp, None)
        msgs_rs.append((name, ms))
        # accept path
        try:
            an = accept_nodes(None, os.path.join(repo, apath))
        except OSError:
            an = None
        lines.append("Definition %s_accept : acts :=\n    %s.\n" % (name, render(an if an is not None else [("unknown",)], 4)))
        if an is None:
            missing.append(("C07_ACCEPT_" + name.upper(), apath, "accept not recognised"))
    # webrtc: body of on_connection_closed, accept; (its exit table is in ConnExits.v)
    try:
        raw = open(os.path.join(repo, WEBRTC[0])).read()
        s = blank(raw)
        cx = Ctx(s, raw)
        sp = body_span(s, "on_connection_closed")
        nodes = parse_block(cx, sp[0], sp[1]) if sp else [("unknown",)]
        an = accept_nodes(None, os.path.join(repo, WEBRTC[1]))
    except OSError:
        nodes, an = [("unknown",)], None
        missing.append(("C07_SKEL_WEBRTC", WEBRTC[0], "file not found"))
    # exit sites of the webrtc loop: every `?`, `return`, `break` of run_event_loop in source order as
    # (kind 0 `?` | 1 `return` | 3 `break`, (callee of the returned expression,
    #  the statement is exactly `return self.on_connection_closed().await`))
    wx = []
    try:
        sp = body_span(s, "run_event_loop")
    except Exception:
        sp = None
    if sp:
        body = s[sp[0]:sp[1]]
        found = [(m.start(), 0) for m in TRY_RX.finditer(body)]
        found += [(m.start(), 1) for m in re.finditer(r"\breturn\b", body)]
        found += [(m.start(), 3) for m in re.finditer(r"\bbreak\b", body)]
        for pos, kind in sorted(found):
            if kind == 1:
                e2 = stmt_end(body, pos, len(body))
                expr = body[pos + 6:e2].strip().rstrip(";").strip()
                cs = callees_in(expr)
                exact = bool(re.fullmatch(r"self\s*\.\s*on_connection_closed\s*\(\s*\)\s*\.await", expr))
                wx.append((1, cs[-1] if cs else 0, exact))
            else:
                wx.append((kind, 0, False))
    else:
        missing.append(("C07_SKEL_WEBRTC", WEBRTC[0], "run_event_loop not found"))
    lines.append("Definition webrtc_loop_exits : list (N * (N * bool)) :=\n  [" +
                 ";\n   ".join("(%d, (%d, %s))" % (k, c, "true" if x else "false") for k, c, x in wx) + "].")
    lines.append("Definition webrtc_loop_found : bool := %s.\n" % ("true" if sp else "false"))
    counts["WEBRTC_EXIT_SITES"] = len(wx)
    lines.append("Definition webrtc_on_connection_closed : acts :=\n    %s.\n" % render(nodes, 4))
    lines.append("Definition webrtc_accept : acts :=\n    %s.\n" % render(an if an is not None else [("unknown",)], 4))
    # ProtocolSet reports
    ps = "src/protocol/protocol_set.rs"
    try:
        raw = open(os.path.join(repo, ps)).read()
        sb = blank(raw)
        cx = Ctx(sb, raw)
        for fn in ("report_connection_established", "report_connection_closed"):
            sp = body_span(sb, fn)
            nodes = parse_block(cx, sp[0], sp[1]) if sp else [("unknown",)]
            lines.append("Definition pset_%s : acts :=\n    %s.\n" % (fn, render(nodes, 4)))
    except OSError:
        missing.append(("C07_SKEL_PSET", ps, "file not found"))
        for fn in ("report_connection_established", "report_connection_closed"):
            lines.append("Definition pset_%s : acts := <[ AUnknown ]>.\n" % fn)
    # the application's event mapping
    am = app_mapping(repo)
    if am is None:
        missing.append(("C07_APP_MAP", "src/lib.rs", "next_event not recognised"))
        tvars, avars, arms, wildcard = [], [], [], False
    else:
        tvars, avars, arms, wildcard = am
    tcode = {v: i for i, v in enumerate(tvars)}
    acode = {v: i for i, v in enumerate(avars)}
    lines.append("(* variants of transport::TransportEvent (src/transport/mod.rs), in order; of Litep2pEvent (src/lib.rs);\n"
                 "   the arms of Litep2p::next_event as (index of the TransportEvent variant, Some index of the\n"
                 "   Litep2pEvent variant it returns | None: the event is dropped); whether the `_` arm drops the rest *)")
    lines.append("Definition transport_event_variants : list N := [%s].  (* %s *)" % ("; ".join(str(i) for i in range(len(tvars))), " ".join(tvars)))
    lines.append("Definition app_event_variants : list N := [%s].  (* %s *)" % ("; ".join(str(i) for i in range(len(avars))), " ".join(avars)))
    lines.append("Definition TEV_ESTABLISHED : N := %d.\nDefinition TEV_CLOSED : N := %d." % (tcode.get("ConnectionEstablished", 99), tcode.get("ConnectionClosed", 99)))
    lines.append("Definition APP_ESTABLISHED : N := %d.\nDefinition APP_CLOSED : N := %d." % (acode.get("ConnectionEstablished", 99), acode.get("ConnectionClosed", 99)))
    rows = ["(%d, %s)" % (tcode.get(f, 99), ("Some %d" % acode.get(t, 99)) if t else "None") for f, t in arms]
    lines.append("Definition app_map_arms : list (N * option N) := [%s]." % "; ".join(rows))
    lines.append("Definition app_map_wildcard_drops : bool := %s.\n" % ("true" if wildcard else "false"))
    counts["C07_SKEL_STATEMENTS"] = nstat
    text = "\n".join(lines)
    os.makedirs(os.path.dirname(OUT), exist_ok=True)
    old = open(OUT).read() if os.path.exists(OUT) else None
    if old != text:
        open(OUT, "w").write(text)
    # messages for the harness
    rs = ["// GENERATED by tools/gen_c07_skel.py from the Rust source on every check. Do not edit.",
          "// For every call of report_connection_closed in the connection event loop of a transport, in source",
          "// order: the message logged last before it in the same function (the harness recognises the exit arm",
          "// the real loop took by this message).", ""]
    for name, ms in msgs_rs:
        rs.append("pub const %s_EXIT_MSGS: &[&str] = &[" % name.upper())
        for x in ms:
            rs.append('    "%s",' % x)
        rs.append("];")
    rs_text = "\n".join(rs) + "\n"
    old = open(OUT_RS).read() if os.path.exists(OUT_RS) else None
    if old != rs_text:
        open(OUT_RS, "w").write(rs_text)
    return counts, missing


if __name__ == "__main__":
    repo = os.environ.get("VERIF_REPO", "/repo")
    counts, miss = generate(repo)
    print(open(OUT).read())
    print(open(OUT_RS).read())
    for m in miss:
        print("MISSING", m, file=sys.stderr)
    sys.exit(3 if miss else 0)
