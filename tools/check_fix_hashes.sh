#!/bin/bash
# every `fixed:` line of KNOWN_FINDINGS.txt must name a commit that is in /repo's main line and whose subject starts with "fix:"
cd "$(dirname "$0")/.."
rc=0
grep "^fixed:" KNOWN_FINDINGS.txt | awk '{print $3}' | sort -u | while read h; do
  if ! git -C ${VERIF_REPO:-/repo} merge-base --is-ancestor $h HEAD 2>/dev/null; then echo "NOT IN MAIN: $h"; rc=1; continue; fi
  git -C ${VERIF_REPO:-/repo} log -1 --format=%s $h | grep -q '^fix:' || echo "NOT A fix: COMMIT: $h"
done
# and every fix: commit of the repo must be named by some fixed: line
for h in $(git -C ${VERIF_REPO:-/repo} log --format='%h %s' | grep ' fix:' | cut -d' ' -f1); do
  grep -q "^fixed: .* $h " KNOWN_FINDINGS.txt || echo "fix commit without a fixed: line: $h $(git -C ${VERIF_REPO:-/repo} log -1 --format=%s $h | cut -c1-80)"
done
