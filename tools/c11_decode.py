#!/usr/bin/env python3
"""Pretty-print C11 cases/traces: c11_decode.py CASES TRACES [index]"""
import sys
NP=3
OPS=["Estab","ConnClosed","SubIn","SubOut","OpenFail","DialFail","HsIn","HsOut","Validate","Timer","CmdOpen","CmdClose","CmdForce","TaskDie","Release","KillChan","Gate","Notify","NotifyDie","SleepAll","GrabSink","SendSync","SendAsync","SinkSync","SinkAsync","UserPoll"]
EV=["Validate","Opened","Closed","OpenFailure","Notif"]
CALL=["dial","open_substream","force_close","ret","wire"]
def st(v):
    t=v[0]
    if t==0: return "-"
    if t==1: return "POISONED"
    if t==2: return "VPend(%s)"%("open" if v[1] else "closed")
    if t==3: return "Closed(%s)"%("None" if v[1]==0 else v[1]-1)
    if t==4: return "Dialing"
    if t==5: return "OutInit(%d)"%v[1]
    if t==6:
        o=["Closed","Init(%d)"%v[3],"Negotiating","Open"][v[2]]
        i=["Closed","Reading","Validating","Sending","Open"][v[4]]
        return "Validating(%s,out=%s,in=%s)"%("out" if v[1] else "in",o,i)
    if t==7: return "Open"
    return str(v)
def show_lazy(case,trace):
    cap=case[2]>>3
    print("LAZY cfg auto_accept=%d should_dial=%d dialable=%s cap=%d nops=%d"%(case[0],case[1],bin(case[2]&7),cap,case[3]))
    ops=[case[4+3*i:7+3*i] for i in range(case[3])]
    i=1
    if trace[0]!=1: print("trace head",trace[:3]); return
    for k,(kind,p,arg) in enumerate(ops):
        if i>=len(trace): print("  (trace ended)"); break
        s=trace[i]; i+=1
        line="%3d %-10s p%d %d :"%(k,OPS[kind] if kind<len(OPS) else kind,p,arg)
        if s==2: print(line,"STUCK"); break
        n=trace[i]; i+=1
        evs=[]
        for _ in range(n):
            e=trace[i:i+3]; i+=3
            evs.append("%s(p%d,%d)"%(EV[e[0]],e[1],e[2]))
        n=trace[i]; i+=1
        calls=[]
        for _ in range(n):
            e=trace[i:i+3]; i+=3
            calls.append("%s(p%d,%d)"%(CALL[e[0]],e[1],e[2]))
        g=trace[i:i+6]; i+=6
        q=trace[i]; pk=trace[i+1]; i+=2
        print(line," ".join(evs),"|"," ".join(calls),"| gate(open,val)=%s q=%d%s"%(g,q," PARKED" if pk else ""))

def show(case,trace):
    if case[2]>>3:
        return show_lazy(case,trace)
    print("cfg auto_accept=%d should_dial=%d dialable=%s nops=%d"%(case[0],case[1],bin(case[2]),case[3]))
    ops=[case[4+3*i:7+3*i] for i in range(case[3])]
    i=1
    if trace[0]!=1: print("trace head",trace[:3]); return
    for k,(kind,p,arg) in enumerate(ops):
        if i>=len(trace): print("  (trace ended)"); break
        s=trace[i]; i+=1
        line="%3d %-10s p%d %d :"%(k,OPS[kind] if kind<len(OPS) else kind,p,arg)
        if s==2: print(line,"STUCK"); break
        n=trace[i]; i+=1
        evs=[]
        for _ in range(n):
            e=trace[i:i+3]; i+=3
            evs.append("%s(p%d,%d)"%(EV[e[0]],e[1],e[2]))
        n=trace[i]; i+=1
        calls=[]
        for _ in range(n):
            e=trace[i:i+3]; i+=3
            calls.append("%s(p%d,%d)"%(CALL[e[0]],e[1],e[2]))
        sts=[]
        for q in range(NP):
            v=trace[i:i+9]; i+=9
            sts.append("%s%s%s%s%s"%(st(v[:5])," hsI" if v[5] else ""," hsO" if v[6] else ""," [open]" if v[7] else ""," [val]" if v[8] else ""))
        n=trace[i]; i+=1
        po=[]
        for _ in range(n):
            po.append(tuple(trace[i:i+2])); i+=2
        tasks=trace[i]; i+=1
        narm=trace[i]; i+=1
        print(line," ".join(evs),"|"," ".join(calls),"|"," ; ".join(sts),"| po=%s tasks=%d armed=%d"%(po,tasks,narm))
if __name__=="__main__":
    cs=[l for l in open(sys.argv[1]).read().splitlines()]
    ts=[l for l in open(sys.argv[2]).read().splitlines()]
    idx=range(len(cs)) if len(sys.argv)<4 else [int(sys.argv[3])]
    for j in idx:
        print("== case",j)
        show([int(x) for x in cs[j].split()],[int(x) for x in ts[j].split()])
