#!/usr/bin/env python3
"""Writes MANIFEST.json from tools/props.py (claimed checks) and tools/not_claimed.json."""
import json, os, subprocess, sys
V = os.path.dirname(os.path.dirname(os.path.abspath(__file__)))
sys.path.insert(0, os.path.join(V, "tools"))
import props
allp = [json.loads(l)["id"] for l in open(os.path.join(V, "properties.jsonl"))]
try:
    commits = subprocess.run(["git", "-C", "/repo", "log", "--format=%H %s"], capture_output=True, text=True).stdout.splitlines()
except Exception:
    commits = []
hook_commits = [c.split()[0] for c in commits if " verif hooks" in c or c.split(" ", 1)[1].startswith("verif hooks")]
nc = json.load(open(os.path.join(V, "tools", "not_claimed.json")))
checks = []
for pid in sorted(props.PROPS):
    c = props.PROPS[pid]
    checks.append({
        "property_id": pid,
        "quick_cmd": "./check %s --tier quick" % pid,
        "thorough_cmd": "./check %s --tier thorough" % pid,
        "evidence_file": "evidence/%s.json" % pid,
        "replay_cmd_template": "./check %s --replay {path}" % pid,
        "engine": "coq-model+correspondence",
        "level_claimed": {
            "category": c.get("level", "proof"),
            "text": c["level_text"],
            "design_ref": "DESIGN.md section 6, %s" % pid,
        },
        "level_note": c["level_note"],
        "technique": c.get("technique", "machine-checked Coq proof about an executable Gallina model + differential correspondence check against the Rust implementation"),
    })
m = {
    "version": 1,
    "setup_cmd": "./setup.sh",
    "hooks": {
        "guard": "cargo feature `verif` of the litep2p crate (cfg(feature = \"verif\"))",
        "enable": "the harness crate /verif/harness depends on litep2p = { path = \"/repo\", features = [\"verif\"] }. All hook commits only add cfg-gated code (later hook commits also rewrite earlier hook code in verif*.rs files) with ONE exception: the commit 'verif hooks: MemoryStore clock override' routes the three `std::time::Instant::now()` reads of src/protocol/libp2p/kademlia/store.rs through a helper `fn now()` that is `#[inline(always)] Instant::now()` with the feature off and a per-thread logical clock with it (needed to hit the expiry boundary `now == expires` exactly); hence add_only is false",
        "baseline_off_cmd": "cd /repo && cargo test --workspace --no-fail-fast --offline",
        "source_commits": hook_commits,
        "add_only": False,
    },
    "engines": [{
        "name": "coq-model+correspondence",
        "path": "check",
        "serves_properties": sorted(props.PROPS),
        "kind_free_text": "Coq 8.16 development (coq/), extracted OCaml models (ocaml/), Rust differential harness (harness/), orchestrated by ./check",
    }],
    "checks": checks,
    "not_applicable": [{"property_id": p, "reason": nc.get(p, "check not built yet")} for p in allp if p not in props.PROPS],
    "notes": "See DESIGN.md. KNOWN_FINDINGS.txt lists recorded defects (finding:/fixed: lines).",
}
json.dump(m, open(os.path.join(V, "MANIFEST.json"), "w"), indent=1)
print("claimed:", sorted(props.PROPS), "not claimed:", [p for p in allp if p not in props.PROPS])
