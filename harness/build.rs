// C19 reuses the scenario runners of C02/C03/C04 verbatim (their `run_case` is private): the
// sources are copied to OUT_DIR with the leading inner doc comments turned into plain comments so
// that they can be `include!`d inside a module (harness/src/c19/ext.rs). Nothing else changes.
use std::{env, fs, path::Path};

fn main() {
    let out = env::var("OUT_DIR").unwrap();
    for name in ["c02", "c03", "c04"] {
        let src = format!("src/{name}.rs");
        println!("cargo:rerun-if-changed={src}");
        let text = fs::read_to_string(&src).unwrap();
        let fixed: String = text
            .lines()
            .map(|l| if let Some(rest) = l.strip_prefix("//!") { format!("//{rest}") } else { l.to_string() })
            .collect::<Vec<_>>()
            .join("\n");
        fs::write(Path::new(&out).join(format!("{name}_inc.rs")), fixed).unwrap();
    }
}
