//! C08, report level (case kind 2, format: coq/Ts/Glue.v "report level"): the reporting side of
//! the REAL `ProtocolSet` under back-pressure. Every protocol has a SMALL event channel (capacity
//! from the case) whose receiver the harness owns and does not drain unless the case says so; each
//! connection is a real `ProtocolSet` (as `TransportHandle::protocol_set` builds it) whose reports
//! run as tasks of a current-thread runtime, i.e. they are polled when woken, the way the
//! connection loop's `.await` is. After every op the runtime is run until idle; the trace holds
//! the result of the report (completed / waiting / error), the exact events the protocol received,
//! which waiting reports completed, the queue lengths and the number of waiting connections.
use crate::util::*;
use litep2p::{
    codec::ProtocolCodec,
    error::SubstreamError,
    protocol::{
        verif::{InnerTransportEvent, ProtocolContext, ProtocolSet, TransportManagerEvent},
        Direction, SubstreamKeepAlive,
    },
    substream::Substream,
    transport::Endpoint,
    types::{protocol::ProtocolName, ConnectionId, SubstreamId},
    PeerId,
};
use multiaddr::Multiaddr;
use std::{
    collections::{BTreeMap, HashMap, HashSet},
    sync::{atomic::AtomicUsize, Arc},
};
use tokio::{sync::mpsc, task::JoinHandle};

pub fn parse(c: &[u64]) -> Option<(usize, usize, Vec<[u64; 4]>)> {
    if c.len() < 4 || c[0] != 2 {
        return None;
    }
    let (n, cap, nops) = (c[1], c[2], c[3] as usize);
    if !(1..=8).contains(&n) || !(1..=64).contains(&cap) || c.len() != 4 + 4 * nops {
        return None;
    }
    let mut ops = Vec::new();
    let mut est = HashSet::new();
    for i in 0..nops {
        let o = [c[4 + 4 * i], c[5 + 4 * i], c[6 + 4 * i], c[7 + 4 * i]];
        let small = |x: u64| x < 1_000_000;
        let ok = match o[0] {
            1 => small(o[1]) && small(o[2]) && (o[3] == 0 || small(o[3] - 1)),
            2 => small(o[1]) && small(o[2]) && small(o[3]),
            3 => small(o[1]) && o[2] < 256 && est.insert(o[1]),
            4 => small(o[1]),
            5 => small(o[1]) && o[2] < 1000,
            6 => small(o[1]),
            _ => false,
        };
        if !ok {
            return None;
        }
        ops.push(o);
    }
    Some((n as usize, cap as usize, ops))
}

struct Pending {
    handle: JoinHandle<(ProtocolSet, bool)>,
}

struct Unit {
    names: Vec<ProtocolName>,
    protocols: HashMap<ProtocolName, ProtocolContext>,
    rxs: Vec<Option<mpsc::Receiver<InnerTransportEvent>>>,
    cap: usize,
    mgr_tx: mpsc::Sender<TransportManagerEvent>,
    mgr_rx: mpsc::Receiver<TransportManagerEvent>,
    peer: PeerId,
    /// idle connections (no report in progress)
    sets: BTreeMap<u64, ProtocolSet>,
    /// connections whose report is waiting for room
    pending: BTreeMap<u64, Pending>,
    /// everything the protocols received is kept: the events hold the connection handles / permits
    kept: Vec<InnerTransportEvent>,
    /// connections given up after a failed "established" report (Transport::accept drops the set)
    gone: HashSet<u64>,
}

impl Unit {
    fn new(n: usize, cap: usize) -> Unit {
        let mut protocols = HashMap::new();
        let mut rxs = Vec::new();
        let mut names = Vec::new();
        for i in 0..n {
            let (tx, rx) = mpsc::channel(cap);
            let name = ProtocolName::from(format!("/c08/report/{i}"));
            protocols.insert(
                name.clone(),
                ProtocolContext {
                    codec: ProtocolCodec::Identity(32),
                    tx,
                    fallback_names: Vec::new(),
                    keep_alive: SubstreamKeepAlive::Yes,
                },
            );
            names.push(name);
            rxs.push(Some(rx));
        }
        let (mgr_tx, mgr_rx) = mpsc::channel(4096);
        Unit {
            names,
            protocols,
            rxs,
            cap,
            mgr_tx,
            mgr_rx,
            peer: PeerId::random(),
            sets: BTreeMap::new(),
            pending: BTreeMap::new(),
            kept: Vec::new(),
            gone: HashSet::new(),
        }
    }

    fn take_set(&mut self, c: u64) -> ProtocolSet {
        match self.sets.remove(&c) {
            Some(s) => s,
            None => ProtocolSet::new(
                ConnectionId::from(c as usize),
                self.mgr_tx.clone(),
                Arc::new(AtomicUsize::new(0)),
                self.protocols.clone(),
            ),
        }
    }

    fn dump(&self, out: &mut Vec<u64>) {
        out.push(self.names.len() as u64);
        for name in &self.names {
            let tx = &self.protocols[name].tx;
            out.push((tx.max_capacity() - tx.capacity()) as u64);
        }
        out.push(self.pending.len() as u64);
    }
}

fn item(ev: &InnerTransportEvent) -> [u64; 3] {
    match ev {
        InnerTransportEvent::ConnectionEstablished { connection, .. } => [1, connection.verif_as_usize() as u64, 0],
        InnerTransportEvent::ConnectionClosed { connection, .. } => [2, connection.verif_as_usize() as u64, 0],
        InnerTransportEvent::SubstreamOpened { connection_id, direction, .. } => [
            3,
            connection_id.verif_as_usize() as u64,
            match direction {
                Direction::Inbound => 0,
                Direction::Outbound(id) => id.verif_as_usize() as u64 + 1,
            },
        ],
        InnerTransportEvent::SubstreamOpenFailure { substream, .. } => [4, 0, substream.verif_as_usize() as u64],
        InnerTransportEvent::DialFailure { .. } => [9, 0, 0],
    }
}

/// Let every woken task run until nothing is runnable any more.
async fn settle() {
    for _ in 0..64 {
        tokio::task::yield_now().await;
    }
}

/// Runs the case; returns the case as run (the "polled before the first dead protocol" mask of
/// report_connection_established is filled in from this run's protocol table order) and the trace.
pub fn run(rt: &tokio::runtime::Runtime, n: usize, cap: usize, ops: &[[u64; 4]]) -> (Vec<u64>, Vec<u64>) {
    rt.block_on(async move {
        let mut u = Unit::new(n, cap);
        let mut tr = vec![2u64];
        let mut case = vec![2u64, n as u64, cap as u64, ops.len() as u64];
        for o in ops {
            let mut o = *o;
            if o[0] == 3 {
                // the sends are polled in the iteration order of the protocol table
                let mut mask = 0u64;
                if u.rxs.iter().any(|r| r.is_none()) {
                    for name in u.protocols.keys() {
                        let i = u.names.iter().position(|x| x == name).unwrap();
                        if u.rxs[i].is_none() {
                            break;
                        }
                        mask |= 1 << i;
                    }
                }
                o[2] = mask;
            }
            case.extend(o);
            let o = &o;
            let mut code = 0u64;
            let mut got: Vec<[u64; 3]> = Vec::new();
            let before: Vec<u64> = u.pending.keys().copied().collect();
            let mut started: Option<u64> = None;
            match o[0] {
                1 | 2 | 3 | 4 => {
                    let c = o[1];
                    if u.pending.contains_key(&c) || u.gone.contains(&c) {
                        code = 2;
                    } else if (o[0] == 1 || o[0] == 2) && o[2] as usize >= n {
                        // the real functions answer an unknown protocol name with an error
                        let mut set = u.take_set(c);
                        let name = ProtocolName::from("/c08/report/unknown");
                        let failed = if o[0] == 2 {
                            set.report_substream_open_failure(name, SubstreamId::from(o[3] as usize), SubstreamError::ConnectionClosed)
                                .await
                                .is_err()
                        } else {
                            match set.try_get_permit() {
                                Some(permit) => {
                                    let (a, _b) = tokio::io::duplex(16);
                                    let sub = Substream::new_verif(u.peer, SubstreamId::from(0usize), Box::new(a), ProtocolCodec::Identity(32));
                                    set.report_substream_open(u.peer, name, Direction::Inbound, sub, permit).await.is_err()
                                }
                                None => true,
                            }
                        };
                        u.sets.insert(c, set);
                        code = if failed { 3 } else { 0 };
                    } else {
                        let mut set = u.take_set(c);
                        let peer = u.peer;
                        let op = *o;
                        let name = u.names.get(o[2] as usize).cloned();
                        let handle = tokio::spawn(async move {
                            let failed = match op[0] {
                                1 => match set.try_get_permit() {
                                    Some(permit) => {
                                        let (a, _b) = tokio::io::duplex(16);
                                        let dir = if op[3] == 0 {
                                            Direction::Inbound
                                        } else {
                                            Direction::Outbound(SubstreamId::from((op[3] - 1) as usize))
                                        };
                                        let sub = Substream::new_verif(
                                            peer,
                                            SubstreamId::from(op[3].saturating_sub(1) as usize),
                                            Box::new(a),
                                            ProtocolCodec::Identity(32),
                                        );
                                        set.report_substream_open(peer, name.unwrap(), dir, sub, permit).await.is_err()
                                    }
                                    None => true,
                                },
                                2 => set
                                    .report_substream_open_failure(
                                        name.unwrap(),
                                        SubstreamId::from(op[3] as usize),
                                        SubstreamError::ConnectionClosed,
                                    )
                                    .await
                                    .is_err(),
                                3 => set
                                    .verif_report_connection_established(
                                        peer,
                                        Endpoint::Listener {
                                            address: Multiaddr::empty(),
                                            connection_id: ConnectionId::from(op[1] as usize),
                                        },
                                    )
                                    .await
                                    .is_err(),
                                _ => set
                                    .verif_report_connection_closed(peer, ConnectionId::from(op[1] as usize))
                                    .await
                                    .is_err(),
                            };
                            (set, failed)
                        });
                        u.pending.insert(c, Pending { handle });
                        started = Some(c);
                    }
                }
                5 => {
                    if let Some(Some(rx)) = u.rxs.get_mut(o[1] as usize) {
                        for _ in 0..o[2] {
                            match rx.try_recv() {
                                Ok(ev) => {
                                    got.push(item(&ev));
                                    u.kept.push(ev);
                                }
                                Err(_) => break,
                            }
                        }
                    }
                }
                6 => {
                    let p = o[1] as usize;
                    if p < n && u.rxs[p].is_some() && u.pending.is_empty() {
                        u.rxs[p] = None; // the protocol drops its receiver: queued events are discarded
                    } else {
                        code = 2;
                    }
                }
                _ => {}
            }
            settle().await;
            while u.mgr_rx.try_recv().is_ok() {}
            // which reports have finished
            let mut done: Vec<(u64, u64)> = Vec::new();
            let keys: Vec<u64> = u.pending.keys().copied().collect();
            for c in keys {
                if u.pending[&c].handle.is_finished() {
                    let p = u.pending.remove(&c).unwrap();
                    let (set, failed) = match p.handle.await {
                        Ok(x) => x,
                        Err(_) => {
                            // the report panicked: show it as an error, continue with a fresh set
                            (
                                ProtocolSet::new(
                                    ConnectionId::from(c as usize),
                                    u.mgr_tx.clone(),
                                    Arc::new(AtomicUsize::new(0)),
                                    u.protocols.clone(),
                                ),
                                true,
                            )
                        }
                    };
                    // (before fix 2c7c81a a failed "established" made Transport::accept give the
                    // connection up; the report no longer fails because of a dead protocol)
                    u.sets.insert(c, set);
                    if started == Some(c) {
                        code = if failed { 3 } else { 0 };
                    } else if before.contains(&c) {
                        done.push((c, failed as u64));
                    }
                } else if started == Some(c) {
                    code = 1;
                }
            }
            tr.push(code);
            tr.push(got.len() as u64);
            for g in &got {
                tr.extend(g);
            }
            done.sort();
            tr.push(done.len() as u64);
            for d in &done {
                tr.extend([d.0, d.1]);
            }
            u.dump(&mut tr);
        }
        let _ = u.cap;
        (case, tr)
    })
}

/// A generated case: a few connections report while the protocols are slow, then everything is
/// drained.
pub fn gen(rng: &mut Rng, thorough: bool) -> Vec<u64> {
    let n = rng.range(1, 3);
    let cap = rng.pick(&[1u64, 1, 2, 2, 3, 4]);
    let nconn = rng.range(1, 4);
    let nops = if thorough { rng.range(10, 80) } else { rng.range(8, 40) };
    let mut ops: Vec<[u64; 4]> = Vec::new();
    let mut est: HashSet<u64> = HashSet::new();
    let mut next_id = 0u64;
    let kill_at = if rng.chance(20) { rng.below(nops) } else { u64::MAX };
    for k in 0..nops {
        if k == kill_at {
            ops.push([6, rng.below(n), 0, 0]);
            continue;
        }
        let c = rng.range(1, nconn);
        let p = if rng.chance(3) { n } else { rng.below(n) };
        match rng.below(100) {
            0..=9 if !est.contains(&c) => {
                est.insert(c);
                ops.push([3, c, 0, 0]);
            }
            0..=29 => {
                let d = if rng.chance(70) {
                    next_id += 1;
                    next_id
                } else {
                    0
                };
                ops.push([1, c, p, d]);
            }
            30..=59 => {
                next_id += 1;
                ops.push([2, c, p, next_id - 1]);
            }
            60..=66 => ops.push([4, c, 0, 0]),
            _ => ops.push([5, rng.below(n), rng.pick(&[1u64, 1, 1, 2, 3, 10]), 0]),
        }
    }
    // the protocols catch up: enough single drains to empty everything that can be queued
    for _ in 0..6 {
        for p in 0..n {
            ops.push([5, p, 999, 0]);
        }
    }
    let mut case = vec![2, n, cap, ops.len() as u64];
    for o in ops {
        case.extend(o);
    }
    case
}
