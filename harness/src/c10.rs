//! C10: peer address book correspondence. Case and trace format: see coq/C10/Glue.v.
//!
//! Real code exercised: `TransportManagerHandle::{supported_transport, add_known_address}` (and
//! through it `is_local_address`, `AddressStore::insert`), `TransportManager::
//! {register_listen_address, dial, update_address_on_dial_failure,
//! update_address_on_connection_established, supported_transports_addresses}` and the manager's
//! event loop on the scripted transports' OpenFailure / ConnectionOpened / ConnectionEstablished
//! events, `ConnectionLimits`, `AddressStore::addresses(limit)`, and the TCP / WebSocket
//! `multiaddr_to_socket_address`, all on real `Multiaddr`s built from the abstract shapes.
use crate::util::*;
use litep2p::{
    addresses::InsertionError,
    crypto::ed25519::Keypair,
    error::{AddressError, DialError, DnsError, NegotiationError, ParseError},
    transport::{
        verif::{
            take_add_calls, take_add_order, take_evicted, AddressType, DnsType, GetSocketAddr,
            SupportedTransport, TcpAddress, TransportManager, TransportManagerBuilder, VerifCall,
            VerifScript, WebSocketAddress,
        },
        ConnectionLimitsConfig,
    },
    Error, PeerId,
};
use tokio::runtime::Runtime;
use multiaddr::{Multiaddr, Protocol};
use std::{
    borrow::Cow,
    net::{IpAddr, Ipv4Addr, Ipv6Addr},
    panic::{catch_unwind, AssertUnwindSafe},
    path::Path,
};

/// feat_quic of the case header: this build has litep2p's quic feature
const FQ: u64 = cfg!(feature = "quic") as u64;
/// the tag of a dial(peer) operation with error kinds: three lists in the QUIC build
const DIAL_TAG: u64 = if cfg!(feature = "quic") { 14 } else { 9 };
const NPEERS: u64 = 8;
const NOTHER: u64 = 8;
const MAXCOMPS: usize = 8;
const SCORE_BIAS: i64 = 1 << 31;

type Comp = (u64, u64);
type Abs = Vec<Comp>;

struct World {
    keys: Vec<Keypair>,
    peers: Vec<PeerId>,
}

impl World {
    fn new() -> Self {
        let keys: Vec<Keypair> = (0..NPEERS).map(|_| Keypair::generate()).collect();
        let peers = keys.iter().map(|k| PeerId::from_public_key(&k.public().into())).collect();
        World { keys, peers }
    }

    fn peer_index(&self, p: &PeerId) -> Option<u64> {
        self.peers.iter().position(|x| x == p).map(|i| i as u64)
    }
}

// ---------------------------------------------------------------- abstract <-> real

fn ip4_of(class: u64, id: u64) -> Ipv4Addr {
    let (hi, lo) = ((id >> 8) as u8, (id & 255) as u8);
    match class {
        0 => Ipv4Addr::UNSPECIFIED,
        1 => Ipv4Addr::new(127, 1, hi, lo),
        2 => Ipv4Addr::new(10, 7, hi, lo),
        _ => Ipv4Addr::new(8, 8, hi, lo),
    }
}

fn ip6_of(class: u64, id: u64) -> Ipv6Addr {
    match class {
        0 => Ipv6Addr::UNSPECIFIED,
        1 => Ipv6Addr::LOCALHOST,
        2 => Ipv6Addr::new(0xfd00, 0, 0, 0, 0, 0, 7, id as u16),
        _ => Ipv6Addr::new(0x2001, 0x4860, 0, 0, 0, 0, 0, id as u16),
    }
}

/// A concrete IPv4 address outside the mapped ranges (wire tag 12; `raw4_ok` of Glue.v).
fn raw4_ok(ip: u64) -> bool {
    let (o0, o1) = ((ip >> 24) & 255, (ip >> 16) & 255);
    ip < (1 << 32) && !(ip == 0 || (o0 == 127 && o1 == 1) || (o0 == 10 && o1 == 7) || (o0 == 8 && o1 == 8))
}

/// The compact code of a concrete IPv6 address s0:s1:0:..:val:..:0 (wire tag 13): val sits in
/// segment pos (2..=7), pos = 0 when val = 0.
fn raw6_code(s0: u64, s1: u64, pos: u64, val: u64) -> u64 {
    ((s0 * 65536 + s1) * 8 + pos) * 65536 + val
}

fn raw6_segments(arg: u64) -> [u16; 8] {
    let (s0, s1, pos, val) = (arg >> 35, (arg >> 19) & 65535, (arg >> 16) & 7, arg & 65535);
    let mut s = [0u16; 8];
    s[0] = s0 as u16;
    s[1] = s1 as u16;
    if val != 0 {
        s[pos as usize] = val as u16;
    }
    s
}

/// `raw6_ok` of Glue.v: canonical code of an address outside the mapped ranges.
fn raw6_ok(arg: u64) -> bool {
    let (s0, s1, pos, val) = (arg >> 35, (arg >> 19) & 65535, (arg >> 16) & 7, arg & 65535);
    let s = raw6_segments(arg);
    let ip = Ipv6Addr::from(s);
    arg < (1 << 51)
        && (if val == 0 { pos == 0 } else { pos >= 2 })
        && !(ip == Ipv6Addr::UNSPECIFIED
            || ip == Ipv6Addr::LOCALHOST
            || (s0 == 0xfd00 && pos == 6 && val == 7)
            || (s0 == 0x2001 && s1 == 0x4860))
}

fn abs_ip(ip: &IpAddr) -> Option<Comp> {
    match ip {
        IpAddr::V4(v) => {
            let o = v.octets();
            let id = ((o[2] as u64) << 8) | o[3] as u64;
            match (o[0], o[1]) {
                (0, 0) if id == 0 => Some((0, 0)),
                (127, 1) => Some((0, 65536 + id)),
                (10, 7) => Some((0, 2 * 65536 + id)),
                (8, 8) => Some((0, 3 * 65536 + id)),
                _ => Some((12, u32::from(*v) as u64)),
            }
        }
        IpAddr::V6(v) => {
            let s = v.segments();
            let id = s[7] as u64;
            if *v == Ipv6Addr::UNSPECIFIED {
                Some((1, 0))
            } else if *v == Ipv6Addr::LOCALHOST {
                Some((1, 65536))
            } else if s[0] == 0xfd00 && s[6] == 7 {
                Some((1, 2 * 65536 + id))
            } else if s[0] == 0x2001 && s[1] == 0x4860 {
                Some((1, 3 * 65536 + id))
            } else {
                // s0:s1:0:..:val:..:0
                let nz: Vec<usize> = (2..8).filter(|i| s[*i] != 0).collect();
                match nz.as_slice() {
                    [] => Some((13, raw6_code(s[0] as u64, s[1] as u64, 0, 0))),
                    [i] => Some((13, raw6_code(s[0] as u64, s[1] as u64, *i as u64, s[*i] as u64))),
                    _ => None,
                }
            }
        }
    }
}

fn dns_name(id: u64) -> String {
    format!("h{id}.example.org")
}

fn dns_id(s: &str) -> Option<u64> {
    s.strip_prefix('h')?.strip_suffix(".example.org")?.parse().ok()
}

/// Canonical components only (the same rule as `dec_comp` in Glue.v).
/// Abstract component -> real multiaddr protocol (shared with the C05 harness).
pub(crate) fn protocol_of_peers(peers: &[PeerId], c: (u64, u64)) -> Option<Protocol<'static>> {
    let (tag, arg) = c;
    let small = arg < 65536;
    Some(match tag {
        0 | 1 => {
            let (class, id) = (arg / 65536, arg % 65536);
            if class > 3 || (class == 0 && id != 0) || (tag == 1 && class == 1 && id != 0) {
                return None;
            }
            if tag == 0 {
                Protocol::Ip4(ip4_of(class, id))
            } else {
                Protocol::Ip6(ip6_of(class, id))
            }
        }
        2 if small => Protocol::Dns(Cow::Owned(dns_name(arg))),
        3 if small => Protocol::Dns4(Cow::Owned(dns_name(arg))),
        4 if small => Protocol::Dns6(Cow::Owned(dns_name(arg))),
        5 if small => Protocol::Tcp(arg as u16),
        6 if small => Protocol::Udp(arg as u16),
        7 if arg == 0 => Protocol::Ws(Cow::Borrowed("/")),
        8 if arg == 0 => Protocol::Wss(Cow::Borrowed("/")),
        9 if arg == 0 => Protocol::QuicV1,
        10 if (arg as usize) < peers.len() => Protocol::P2p(peers[arg as usize].into()),
        12 if raw4_ok(arg) => Protocol::Ip4(Ipv4Addr::from(arg as u32)),
        13 if raw6_ok(arg) => Protocol::Ip6(Ipv6Addr::from(raw6_segments(arg))),
        11 if arg < NOTHER => match arg {
            0 => Protocol::Quic,
            1 => Protocol::Http,
            2 => Protocol::Tls,
            3 => Protocol::P2pCircuit,
            4 => Protocol::Sctp(7),
            5 => Protocol::Memory(9),
            6 => Protocol::Utp,
            _ => Protocol::WebRTCDirect,
        },
        _ => return None,
    })
}

fn protocol_of(w: &World, c: Comp) -> Option<Protocol<'static>> {
    protocol_of_peers(&w.peers, c)
}

fn real_of(w: &World, a: &Abs) -> Option<Multiaddr> {
    if a.len() > MAXCOMPS {
        return None;
    }
    let mut m = Multiaddr::empty();
    for c in a {
        m = m.with(protocol_of(w, *c)?);
    }
    Some(m)
}

/// Inverse of `real_of` on the addresses this harness creates (panics on anything else: the
/// implementation stored an address that was never given to it).
fn abs_of(w: &World, m: &Multiaddr) -> Abs {
    m.iter()
        .map(|p| match p {
            Protocol::Ip4(v) => abs_ip(&IpAddr::V4(v)).expect("known ip4"),
            Protocol::Ip6(v) => abs_ip(&IpAddr::V6(v)).expect("known ip6"),
            Protocol::Dns(s) => (2, dns_id(&s).expect("known dns")),
            Protocol::Dns4(s) => (3, dns_id(&s).expect("known dns4")),
            Protocol::Dns6(s) => (4, dns_id(&s).expect("known dns6")),
            Protocol::Tcp(p) => (5, p as u64),
            Protocol::Udp(p) => (6, p as u64),
            Protocol::Ws(_) => (7, 0),
            Protocol::Wss(_) => (8, 0),
            Protocol::QuicV1 => (9, 0),
            Protocol::P2p(id) => {
                let id = PeerId::from_multihash(id).expect("valid peer id");
                (10, w.peer_index(&id).expect("known peer"))
            }
            Protocol::Quic => (11, 0),
            Protocol::Http => (11, 1),
            Protocol::Tls => (11, 2),
            Protocol::P2pCircuit => (11, 3),
            Protocol::Sctp(_) => (11, 4),
            Protocol::Memory(_) => (11, 5),
            Protocol::Utp => (11, 6),
            Protocol::WebRTCDirect => (11, 7),
            other => panic!("unexpected protocol {other:?}"),
        })
        .collect()
}

fn enc_abs(a: &Abs, out: &mut Vec<u64>) {
    out.push(a.len() as u64);
    for (t, x) in a {
        out.extend([*t, *x]);
    }
}

/// The order of `maddr_key` in Glue.v: shorter first, then digit-wise.
fn sort_key(a: &Abs) -> (usize, Vec<u64>) {
    (a.len(), a.iter().map(|(t, x)| t * (1 << 52) + x + 1).collect())
}

// ---------------------------------------------------------------- DialError kinds

/// The wire code of an error kind (Glue.v `err_code`): outer + 4 * inner + 64 * innermost, the
/// indices being the positions of the variants in the enums of src/error.rs. Exhaustive matches
/// without wildcard: a new variant of `DialError` or of an enum nested in it stops this harness
/// from compiling until it is given a code (and the model a constructor).
fn code_of(e: &DialError) -> u64 {
    match e {
        DialError::Timeout => 0,
        DialError::AddressError(a) => {
            1 + 4 * match a {
                AddressError::InvalidProtocol => 0,
                AddressError::InvalidUrl => 1,
                AddressError::PeerIdMissing => 2,
                AddressError::AddressNotAvailable => 3,
                AddressError::InvalidPeerId(_) => 4,
            }
        }
        DialError::DnsError(d) => {
            2 + 4 * match d {
                DnsError::ResolveError(_) => 0,
                DnsError::IpVersionMismatch => 1,
            }
        }
        DialError::NegotiationError(n) => {
            3 + 4 * match n {
                NegotiationError::MultistreamSelectError(_) => 0,
                NegotiationError::SnowError(_) => 1,
                NegotiationError::PeerIdMissing => 2,
                NegotiationError::BadSignature => 3,
                NegotiationError::Timeout => 4,
                NegotiationError::ParseError(p) => {
                    5 + 16 * match p {
                        ParseError::ProstDecodeError(_) => 0,
                        ParseError::ProstEncodeError(_) => 1,
                        ParseError::UnknownKeyType(_) => 2,
                        ParseError::InvalidPublicKey => 3,
                        ParseError::InvalidData => 4,
                        ParseError::InvalidReplyLength => 5,
                    }
                }
                NegotiationError::IoError(_) => 6,
                NegotiationError::StateMismatch => 7,
                NegotiationError::PeerIdMismatch(_, _) => 8,
                #[cfg(feature = "quic")]
                NegotiationError::Quic(q) => {
                    9 + 16 * match q {
                        litep2p::error::QuicError::InvalidCertificate => 0,
                        litep2p::error::QuicError::ConnectionError(_) => 1,
                        litep2p::error::QuicError::ConnectError(_) => 2,
                    }
                }
                NegotiationError::WebSocket(_) => 10,
            }
        }
    }
}

/// A value of the variant with this code (`salt` varies the payloads the variants carry).
fn error_of_code(w: &World, code: u64, salt: u64) -> Option<DialError> {
    use std::io::ErrorKind;
    let (outer, inner, sub) = (code % 4, (code / 4) % 16, code / 64);
    if sub != 0 && !(outer == 3 && (inner == 5 || inner == 9)) {
        return None;
    }
    let peer = |i: u64| w.peers[(i % NPEERS) as usize];
    let e = match (outer, inner) {
        (0, 0) => DialError::Timeout,
        (1, 0) => AddressError::InvalidProtocol.into(),
        (1, 1) => AddressError::InvalidUrl.into(),
        (1, 2) => AddressError::PeerIdMissing.into(),
        (1, 3) => AddressError::AddressNotAvailable.into(),
        (1, 4) => AddressError::InvalidPeerId(
            multihash::Multihash::<64>::wrap(0x12 + salt % 3, &[salt as u8; 32]).ok()?,
        )
        .into(),
        (2, 0) => DnsError::ResolveError(dns_name(salt % 7)).into(),
        (2, 1) => DnsError::IpVersionMismatch.into(),
        (3, _) => {
            let n: NegotiationError = match inner {
                0 => litep2p::verif_multistream_select::NegotiationError::Failed.into(),
                1 => (if salt % 2 == 0 { snow::Error::Decrypt } else { snow::Error::Input }).into(),
                2 => NegotiationError::PeerIdMissing,
                3 => NegotiationError::BadSignature,
                4 => NegotiationError::Timeout,
                5 => NegotiationError::ParseError(match sub {
                    0 => ParseError::ProstDecodeError(prost::DecodeError::new("verif")),
                    1 => {
                        use prost::Message;
                        let mut small = [0u8; 1];
                        ParseError::ProstEncodeError(
                            "longer than one byte".to_string().encode(&mut &mut small[..]).err()?,
                        )
                    }
                    2 => ParseError::UnknownKeyType(salt as i32 % 9),
                    3 => ParseError::InvalidPublicKey,
                    4 => ParseError::InvalidData,
                    5 => ParseError::InvalidReplyLength,
                    _ => return None,
                }),
                6 => NegotiationError::IoError(
                    [
                        ErrorKind::ConnectionRefused,
                        ErrorKind::ConnectionReset,
                        ErrorKind::TimedOut,
                        ErrorKind::UnexpectedEof,
                        ErrorKind::AddrNotAvailable,
                        ErrorKind::Other,
                    ][(salt % 6) as usize],
                ),
                7 => NegotiationError::StateMismatch,
                8 => NegotiationError::PeerIdMismatch(peer(salt), peer(salt / 8 + 1)),
                #[cfg(feature = "quic")]
                9 => NegotiationError::Quic(litep2p::transport::quic::verif::quic_error(sub as usize, salt as usize)?),
                10 => NegotiationError::WebSocket(if salt % 2 == 0 {
                    tokio_tungstenite::tungstenite::Error::ConnectionClosed
                } else {
                    tokio_tungstenite::tungstenite::Error::AlreadyClosed
                }),
                _ => return None,
            };
            n.into()
        }
        _ => return None,
    };
    assert_eq!(code_of(&e), code, "error kind table out of step");
    Some(e)
}

/// The variant names extracted from src/error.rs (regenerated on every check).
#[path = "gen_c10_errors.rs"]
mod gen_errors;

/// Every code this build can construct a value for. The hand-written index tables above are
/// checked against the source on the way: the Debug name of each value must be the name the
/// source has at that index path, and every variant of the source that is compiled in must have
/// a constructor here.
fn all_error_codes(w: &World) -> Vec<u64> {
    let codes: Vec<u64> = (0..64 * 8).filter(|c| error_of_code(w, *c, 0).is_some()).collect();
    let gated_off = |path: &[u64]| {
        gen_errors::GATES.iter().any(|(p, g)| {
            path.starts_with(p) && !(*g == 2 || (*g == 1 && cfg!(feature = "quic")))
        })
    };
    let mut expected = 0usize;
    for (i, (n1, l2)) in gen_errors::VARIANTS.iter().enumerate() {
        let mut leaves: Vec<(Vec<u64>, Vec<&str>)> = Vec::new();
        if l2.is_empty() {
            leaves.push((vec![i as u64], vec![*n1]));
        }
        for (j, (n2, l3)) in l2.iter().enumerate() {
            if l3.is_empty() {
                leaves.push((vec![i as u64, j as u64], vec![*n1, *n2]));
            }
            for (k, n3) in l3.iter().enumerate() {
                leaves.push((vec![i as u64, j as u64, k as u64], vec![*n1, *n2, *n3]));
            }
        }
        for (path, names) in leaves {
            if gated_off(&path) {
                continue;
            }
            expected += 1;
            let code = path[0] + 4 * path.get(1).copied().unwrap_or(0) + 64 * path.get(2).copied().unwrap_or(0);
            let e = error_of_code(w, code, 0).unwrap_or_else(|| {
                table_error(format!("DialError variant {names:?} of src/error.rs has no constructor in the harness"))
            });
            let debug = format!("{e:?}");
            let got: Vec<&str> = debug
                .split('(')
                .map(|t| t.trim_end_matches(|c: char| !c.is_alphanumeric()))
                .take(names.len())
                .collect();
            if got != names {
                table_error(format!(
                    "harness index table out of step with src/error.rs: code {code} builds {got:?}, the source has {names:?}"
                ));
            }
        }
    }
    if expected != codes.len() {
        table_error(format!("the harness builds {} error kinds, the source has {expected}", codes.len()));
    }
    codes
}

fn table_error(msg: String) -> ! {
    eprintln!("c10: {msg}");
    std::process::exit(3)
}

// ---------------------------------------------------------------- case reader

struct Reader<'a> {
    c: &'a [u64],
    i: usize,
}

impl<'a> Reader<'a> {
    fn n(&mut self) -> Option<u64> {
        let v = *self.c.get(self.i)?;
        self.i += 1;
        Some(v)
    }
    fn count(&mut self) -> Option<usize> {
        let n = self.n()? as usize;
        if n > self.c.len() - self.i {
            return None;
        }
        Some(n)
    }
    fn maddr(&mut self) -> Option<Abs> {
        let n = self.count()?;
        let mut v = Vec::with_capacity(n);
        for _ in 0..n {
            v.push((self.n()?, self.n()?));
        }
        if v.len() > MAXCOMPS {
            return None;
        }
        Some(v)
    }
    fn maddrs(&mut self) -> Option<Vec<Abs>> {
        let n = self.count()?;
        (0..n).map(|_| self.maddr()).collect()
    }
    fn peer(&mut self) -> Option<u64> {
        let p = self.n()?;
        (p < NPEERS).then_some(p)
    }
}

// ---------------------------------------------------------------- running a case

fn store_of(w: &World, m: &TransportManager, peer: u64) -> Vec<(Abs, i32)> {
    let mut v: Vec<(Abs, i32)> = m
        .verif_peer_addresses(&w.peers[peer as usize])
        .unwrap_or_default()
        .into_iter()
        .map(|(a, s)| (abs_of(w, &a), s))
        .collect();
    v.sort_by_key(|(a, _)| sort_key(a));
    v
}

fn dump(s: &[(Abs, i32)], out: &mut Vec<u64>) {
    out.push(s.len() as u64);
    for (a, sc) in s {
        enc_abs(a, out);
        out.push((*sc as i64 + SCORE_BIAS) as u64);
    }
}

fn enc_list(v: &[Abs], out: &mut Vec<u64>) {
    out.push(v.len() as u64);
    for a in v {
        enc_abs(a, out);
    }
}

/// the records evicted since the last call, as recorded by `AddressStore::insert` itself
fn evicted(w: &World) -> Vec<Abs> {
    take_evicted().iter().map(|a| abs_of(w, a)).collect()
}

fn enc_parsed(w: &World, r: Result<(AddressType, Option<PeerId>), AddressError>, out: &mut Vec<u64>) {
    match r {
        Err(_) => out.push(0),
        Ok((ty, peer)) => {
            out.push(1);
            match ty {
                AddressType::Socket(sa) => {
                    let (t, x) = abs_ip(&sa.ip()).expect("known ip");
                    out.extend([t, x, sa.port() as u64]);
                }
                AddressType::Dns { address, port, dns_type } => {
                    let t = match dns_type {
                        DnsType::Dns => 2,
                        DnsType::Dns4 => 3,
                        DnsType::Dns6 => 4,
                    };
                    out.extend([t, dns_id(&address).expect("known dns"), port as u64]);
                }
            }
            out.push(peer.map(|p| w.peer_index(&p).expect("known peer") + 1).unwrap_or(0));
        }
    }
}

/// The real manager with scripted transports, and the outbound connections held open.
struct Node {
    manager: TransportManager,
    tcp: Option<VerifScript>,
    ws: Option<VerifScript>,
    /// only in the build with the `quic` feature
    quic: Option<VerifScript>,
    /// (filler peer, connection id) of the established outbound connections
    held: Vec<(PeerId, usize)>,
    fillers: u64,
    /// max_outgoing_connections is configured
    limited: bool,
}

impl Node {
    fn outgoing(&self) -> usize {
        self.manager.verif_limit_sets().1.len()
    }

    /// establish (and have accepted) an outbound connection to a fresh peer
    fn hold_one(&mut self) -> bool {
        let Some(script) = self.tcp.clone().or(self.ws.clone()).or(self.quic.clone()) else {
            return false;
        };
        let before = self.outgoing();
        let peer = PeerId::random();
        self.fillers += 1;
        let conn = self.manager.verif_alloc_connection_id();
        let address = Multiaddr::empty()
            .with(Protocol::Ip4(Ipv4Addr::new(10, 200, (self.fillers >> 8) as u8, self.fillers as u8)))
            .with(Protocol::Tcp(1))
            .with(Protocol::P2p(peer.into()));
        script.inject_connection_established(peer, conn, address, false);
        self.manager.verif_drain();
        script.resolve_accept(conn, true);
        self.manager.verif_drain();
        // accepted <=> the peer is now connected over this connection (with a limit configured
        // the connection is also counted by ConnectionLimits)
        if self.manager.verif_peer_state(&peer) == [4, conn, 0] {
            self.held.push((peer, conn));
            assert!(!self.limited || self.outgoing() == before + 1, "accepted but not counted");
            true
        } else {
            assert!(self.outgoing() == before, "rejected but counted");
            false
        }
    }

    fn release_one(&mut self) {
        if let Some((peer, conn)) = self.held.pop() {
            self.manager.verif_report_closed(peer, conn);
            self.manager.verif_drain();
        }
    }
}

fn dial_code(r: &Result<(), Error>) -> u64 {
    match r {
        Ok(()) => 0,
        Err(Error::ConnectionLimit(_)) => 1,
        Err(Error::TriedToDialSelf) => 2,
        Err(Error::NoAddressAvailable(_)) => 3,
        Err(_) => 99,
    }
}

/// Runs one case against the real code. Returns the case with the implementation's choices
/// (HashSet insertion order, evicted records, order of `addresses(limit)`, address lists given
/// to `open()`) filled in, and the trace. `None` if the case is not well-formed.
fn run_case(rt: &Runtime, w: &World, c: &[u64]) -> Option<(Vec<u64>, Vec<u64>)> {
    if c.first() == Some(&2) {
        return run_lp_case(w, &c[1..]).map(|(mut case, trace)| {
            case.insert(0, 2);
            (case, trace)
        });
    }
    let mut r = Reader { c, i: 0 };
    let flags: Vec<u64> = (0..5).map(|_| r.n()).collect::<Option<_>>()?;
    let (fw, fq, et, ew, eq) = (flags[0] != 0, flags[1] != 0, flags[2] != 0, flags[3] != 0, flags[4] != 0);
    if !fw || fq != cfg!(feature = "quic") || (eq && !fq) {
        return None;
    }
    let local = r.peer()?;
    let max_out = r.n()?;
    if max_out >= 100 {
        return None;
    }
    let mut case: Vec<u64> = c[..r.i].to_vec();
    let mut manager = TransportManagerBuilder::new()
        .with_keypair(w.keys[local as usize].clone())
        .with_connection_limits_config(ConnectionLimitsConfig::default().max_outgoing_connections(
            if max_out == 0 { None } else { Some(max_out as usize - 1) },
        ))
        .build();
    let tcp = et.then(|| manager.verif_register_scripted_as(SupportedTransport::Tcp));
    let ws = ew.then(|| manager.verif_register_scripted_as(SupportedTransport::WebSocket));
    #[cfg(feature = "quic")]
    let quic = eq.then(|| manager.verif_register_scripted_as(SupportedTransport::Quic));
    #[cfg(not(feature = "quic"))]
    let quic: Option<VerifScript> = None;
    let mut handle = manager.verif_handle();
    // a protocol's TransportService on this manager (Kademlia and user protocols add addresses through it)
    let mut service = manager.register_protocol(
        litep2p::types::protocol::ProtocolName::from("/verif/c10/1"),
        Vec::new(),
        litep2p::codec::ProtocolCodec::Identity(32),
        std::time::Duration::from_secs(5),
        litep2p::protocol::SubstreamKeepAlive::Yes,
    );
    let mut node = Node { manager, tcp, ws, quic, held: Vec::new(), fillers: 0, limited: max_out != 0 };
    let _ = take_evicted();
    let _ = take_add_order();
    let _ = take_add_calls();

    let nops = r.count()?;
    case.push(nops as u64);
    let mut out = vec![1u64];
    for _ in 0..nops {
        let tag = r.n()?;
        case.push(tag);
        match tag {
            0 => {
                let peer = r.peer()?;
                let addrs = r.maddrs()?;
                let _ = r.maddrs()?;
                let _ = r.maddrs()?;
                let real: Vec<Multiaddr> = addrs.iter().map(|a| real_of(w, a)).collect::<Option<_>>()?;
                case.push(peer);
                enc_list(&addrs, &mut case);
                let n = handle.add_known_address(&w.peers[peer as usize], real.into_iter());
                let calls = take_add_calls();
                assert!(calls.len() == 1 && calls[0].0 == n, "one call, the count it returned");
                let order: Vec<Abs> = take_add_order().iter().map(|a| abs_of(w, a)).collect();
                enc_list(&order, &mut case);
                enc_list(&evicted(w), &mut case);
                out.extend([0, n as u64, 0]);
                dump(&store_of(w, &node.manager, peer), &mut out);
            }
            1 => {
                let a = r.maddr()?;
                let kind = r.n()?;
                let _ = r.maddrs()?;
                let real = real_of(w, &a)?;
                let error = error_of_code(w, kind, r.i as u64)?;
                enc_abs(&a, &mut case);
                case.push(kind);
                node.manager.verif_update_address_on_dial_failure(real, &error);
                enc_list(&evicted(w), &mut case);
                match a.last() {
                    Some((10, p)) => {
                        out.extend([1, 1, 0]);
                        dump(&store_of(w, &node.manager, *p), &mut out);
                    }
                    _ => out.extend([1, 0]),
                }
            }
            2 => {
                let peer = r.peer()?;
                let a = r.maddr()?;
                let listener = r.n()? != 0;
                let _ = r.maddrs()?;
                let real = real_of(w, &a)?;
                case.push(peer);
                enc_abs(&a, &mut case);
                case.push(listener as u64);
                node.manager.verif_update_address_on_connection_established(
                    w.peers[peer as usize],
                    real,
                    listener,
                );
                enc_list(&evicted(w), &mut case);
                out.extend(if listener { vec![1, 0] } else { vec![1, 1, 0] });
                dump(&store_of(w, &node.manager, peer), &mut out);
            }
            3 => {
                let peer = r.peer()?;
                let limit = r.n()?;
                let _ = r.maddrs()?;
                if limit >= 1000 {
                    return None;
                }
                let got = node.manager.verif_dial_addresses(&w.peers[peer as usize], limit as usize);
                let store = store_of(w, &node.manager, peer);
                let got: Vec<Abs> = got.iter().map(|a| abs_of(w, a)).collect();
                case.extend([peer, limit]);
                enc_list(&got, &mut case);
                out.extend([3, 0, got.len() as u64]);
                for a in &got {
                    let sc = store.iter().find(|(b, _)| b == a).map(|(_, s)| *s).unwrap_or(0);
                    enc_abs(a, &mut out);
                    out.push((sc as i64 + SCORE_BIAS) as u64);
                }
            }
            4 => {
                let a = r.maddr()?;
                let real = real_of(w, &a)?;
                enc_abs(&a, &mut case);
                let sup = handle.supported_transport(&real);
                let rt = match TransportManager::verif_route(&real) {
                    Some(SupportedTransport::Tcp) => 0,
                    Some(SupportedTransport::WebSocket) => 1,
                    // only when the harness is built with its optional `quic` feature (C07's QUIC stream)
                    #[cfg(feature = "quic")]
                    Some(SupportedTransport::Quic) => 2,
                    None => 9,
                };
                out.extend([4, sup as u64, rt]);
                enc_parsed(w, TcpAddress::multiaddr_to_socket_address(&real), &mut out);
                enc_parsed(w, WebSocketAddress::multiaddr_to_socket_address(&real), &mut out);
                #[cfg(feature = "quic")]
                enc_parsed(w, litep2p::transport::quic::verif::QuicListener::get_socket_address(&real), &mut out);
            }
            5 => {
                let a = r.maddr()?;
                if a.iter().any(|(t, _)| *t == 10) {
                    return None;
                }
                enc_abs(&a, &mut case);
                node.manager.register_listen_address(real_of(w, &a)?);
                out.push(5);
                let mut l: Vec<Abs> =
                    node.manager.verif_listen_addresses().iter().map(|a| abs_of(w, a)).collect();
                l.sort_by_key(sort_key);
                enc_list(&l, &mut out);
            }
            6 => {
                let n = r.n()?;
                if n >= 9 {
                    return None;
                }
                case.push(n);
                while node.held.len() > n as usize {
                    node.release_one();
                }
                while node.held.len() < n as usize {
                    if !node.hold_one() {
                        break;
                    }
                }
                assert!(!node.limited || node.outgoing() == node.held.len(), "limit counter differs");
                out.extend([6, node.held.len() as u64]);
            }
            7 | 9 | 14 => {
                let peer = r.peer()?;
                let outcome = r.n()?;
                let errs: Vec<u64> = if tag != 7 {
                    let n = r.count()?;
                    (0..n).map(|_| r.n()).collect::<Option<_>>()?
                } else {
                    Vec::new()
                };
                let _ = r.maddrs()?;
                let _ = r.maddrs()?;
                if tag == 14 {
                    let _ = r.maddrs()?;
                }
                let nlists = if tag == 14 { 3 } else { 2 };
                if outcome >= 1000 || errs.len() >= 1000 {
                    return None;
                }
                for e in &errs {
                    error_of_code(w, *e, 0)?;
                }
                // the error kind of attempt i (numbered over tcp ++ ws)
                let err_at = |i: usize| -> DialError {
                    if errs.is_empty() {
                        DialError::Timeout
                    } else {
                        error_of_code(w, errs[i % errs.len()], i as u64).expect("checked")
                    }
                };
                case.extend([peer, outcome]);
                if tag != 7 {
                    case.push(errs.len() as u64);
                    case.extend(errs.iter().copied());
                }
                let before = store_of(w, &node.manager, peer);
                // harness-side guard (DUnroutable in the model): every stored address names the
                // peer and belongs to an installed transport, otherwise dial(peer) is not called
                let routable = before.iter().all(|(a, _)| {
                    let installed = match TransportManager::verif_route(&real_of(w, a).expect("stored")) {
                        Some(SupportedTransport::Tcp) => et,
                        Some(SupportedTransport::WebSocket) => ew,
                        #[cfg(feature = "quic")]
                        Some(SupportedTransport::Quic) => eq,
                        None => false,
                    };
                    installed && a.last() == Some(&(10, peer))
                });
                if !routable {
                    for _ in 0..nlists {
                        enc_list(&[], &mut case);
                    }
                    out.extend([7, 8]);
                    continue;
                }
                let res = rt.block_on(node.manager.dial(w.peers[peer as usize]));
                let code = dial_code(&res);
                if code != 0 {
                    for _ in 0..nlists {
                        enc_list(&[], &mut case);
                    }
                    out.extend([7, code]);
                    continue;
                }
                let mut lists: Vec<(Option<usize>, Vec<Multiaddr>)> = Vec::new();
                for script in [&node.tcp, &node.ws, &node.quic] {
                    let mut opened = script.as_ref().map(|s| s.take_opened()).unwrap_or_default();
                    assert!(opened.len() <= 1, "one open() per transport and dial");
                    match opened.pop() {
                        Some((conn, l)) => lists.push((Some(conn), l)),
                        None => lists.push((None, Vec::new())),
                    }
                }
                let abs: Vec<Vec<Abs>> =
                    lists.iter().map(|(_, l)| l.iter().map(|a| abs_of(w, a)).collect()).collect();
                enc_list(&abs[0], &mut case);
                enc_list(&abs[1], &mut case);
                if nlists == 3 {
                    enc_list(&abs[2], &mut case);
                } else {
                    assert!(abs[2].is_empty(), "a QUIC list on a two-list dial operation");
                }
                out.extend([7, 0]);
                for l in &abs {
                    out.push(l.len() as u64);
                    for a in l {
                        let sc = before.iter().find(|(b, _)| b == a).map(|(_, s)| *s).unwrap_or(0);
                        enc_abs(a, &mut out);
                        out.push((sc as i64 + SCORE_BIAS) as u64);
                    }
                }
                // the outcome of the attempt
                let scripts = [node.tcp.clone(), node.ws.clone(), node.quic.clone()];
                let total = lists[0].1.len() + lists[1].1.len() + lists[2].1.len();
                assert!(total > 0, "dial() returned Ok without opening anything");
                let offsets = [0usize, lists[0].1.len(), lists[0].1.len() + lists[1].1.len()];
                if outcome == 0 {
                    for (i, (conn, l)) in lists.iter().enumerate() {
                        if let (Some(conn), Some(script)) = (conn, &scripts[i]) {
                            let errors = l
                                .iter()
                                .enumerate()
                                .map(|(n, a)| (a.clone(), err_at(offsets[i] + n)))
                                .collect();
                            script.inject_open_failure_with(*conn, errors);
                        }
                    }
                    node.manager.verif_drain();
                } else {
                    let j = (outcome as usize - 1) % total;
                    let (i, pos) = if j < offsets[1] {
                        (0, j)
                    } else if j < offsets[2] {
                        (1, j - offsets[1])
                    } else {
                        (2, j - offsets[2])
                    };
                    let (conn, l) = (lists[i].0.expect("opened"), &lists[i].1);
                    let script = scripts[i].clone().expect("installed");
                    // what the other transports report (base-3 digits of (outcome-1) / total, in
                    // the order TCP, WebSocket, QUIC without the winner): 0 nothing, 1 an
                    // OpenFailure for all their addresses before the ConnectionOpened event, 2 after
                    let m = (outcome as usize - 1) / total;
                    let others: Vec<usize> = (0..3).filter(|x| *x != i).collect();
                    let roles = [m % 3, (m / 3) % 3];
                    let report = |when: usize, manager: &mut TransportManager| {
                        for (slot, o) in others.iter().enumerate() {
                            if roles[slot] != when {
                                continue;
                            }
                            if let (Some(oconn), Some(oscript)) = (lists[*o].0, &scripts[*o]) {
                                let errors = lists[*o]
                                    .1
                                    .iter()
                                    .enumerate()
                                    .map(|(n, a)| (a.clone(), err_at(offsets[*o] + n)))
                                    .collect();
                                oscript.inject_open_failure_with(oconn, errors);
                                manager.verif_drain();
                            }
                        }
                    };
                    report(1, &mut node.manager);
                    let errors = l[..pos]
                        .iter()
                        .enumerate()
                        .map(|(n, a)| (a.clone(), err_at(offsets[i] + n)))
                        .collect();
                    script.inject_connection_opened_with(conn, l[pos].clone(), errors);
                    node.manager.verif_drain();
                    report(2, &mut node.manager);
                    script.inject_connection_established(w.peers[peer as usize], conn, l[pos].clone(), false);
                    node.manager.verif_drain();
                    script.resolve_accept(conn, true);
                    node.manager.verif_drain();
                    node.manager.verif_report_closed(w.peers[peer as usize], conn);
                    node.manager.verif_drain();
                }
                let state = node.manager.verif_peer_state(&w.peers[peer as usize]);
                assert!(state[0] == 0, "peer not disconnected after the dial episode: {state:?}");
                assert!(evicted(w).is_empty(), "a dial outcome evicted a record");
                dump(&store_of(w, &node.manager, peer), &mut out);
            }
            8 => {
                let peer = r.peer()?;
                let a = r.maddr()?;
                let score = r.n()?;
                let _ = r.maddrs()?;
                if score >= 1 << 32 {
                    return None;
                }
                let real = real_of(w, &a)?;
                case.push(peer);
                enc_abs(&a, &mut case);
                case.push(score);
                node.manager.verif_store_insert(
                    w.peers[peer as usize],
                    real,
                    (score as i64 - SCORE_BIAS) as i32,
                );
                enc_list(&evicted(w), &mut case);
                out.extend([1, 1, 0]);
                dump(&store_of(w, &node.manager, peer), &mut out);
            }
            10 => {
                let a = r.maddr()?;
                let res = r.n()?;
                let _ = r.maddrs()?;
                let real = real_of(w, &a)?;
                let error = if res == 0 { None } else { Some(error_of_code(w, res - 1, r.i as u64)?) };
                enc_abs(&a, &mut case);
                case.push(res);
                let named = match a.last() {
                    Some((10, p)) => Some(*p),
                    _ => None,
                };
                for script in [&node.tcp, &node.ws, &node.quic].into_iter().flatten() {
                    let _ = script.take_calls();
                }
                let result = rt.block_on(node.manager.dial_address(real.clone()));
                let code = match &result {
                    Ok(()) => 0,
                    Err(Error::ConnectionLimit(_)) => 1,
                    Err(Error::TriedToDialSelf) => 2,
                    Err(Error::AddressError(AddressError::PeerIdMissing)) => 6,
                    Err(Error::TransportNotSupported(_)) => 7,
                    Err(_) => 99,
                };
                out.extend([10, code]);
                if code == 0 {
                    let q = named.expect("dialed an address without a peer id");
                    let peer = w.peers[q as usize];
                    // which transport was asked to dial, and with which connection id
                    let mut dialed = Vec::new();
                    for (i, script) in [&node.tcp, &node.ws, &node.quic].into_iter().enumerate() {
                        if let Some(script) = script {
                            for call in script.take_calls() {
                                if let VerifCall::Dial(conn) = call {
                                    dialed.push((i, conn, script.clone()));
                                }
                            }
                        }
                    }
                    assert!(dialed.len() == 1, "dial_address returned Ok with {} dial() calls", dialed.len());
                    let (i, conn, script) = dialed.pop().expect("one");
                    out.extend([i as u64, q]);
                    match error {
                        Some(error) => {
                            script.inject_dial_failure_with(conn, real.clone(), error);
                            node.manager.verif_drain();
                        }
                        None => {
                            script.inject_connection_established(peer, conn, real.clone(), false);
                            node.manager.verif_drain();
                            script.resolve_accept(conn, true);
                            node.manager.verif_drain();
                            node.manager.verif_report_closed(peer, conn);
                            node.manager.verif_drain();
                        }
                    }
                    let state = node.manager.verif_peer_state(&peer);
                    assert!(state[0] == 0, "peer not disconnected after the dial_address episode: {state:?}");
                    assert!(!node.limited || node.outgoing() == node.held.len(), "limit counter differs");
                }
                enc_list(&evicted(w), &mut case);
                out.push(0);
                if let Some(q) = named {
                    dump(&store_of(w, &node.manager, q), &mut out);
                }
            }
            15 => {
                // dial_address while every transport's dial() returns an error
                let a = r.maddr()?;
                let _ = r.maddrs()?;
                let real = real_of(w, &a)?;
                enc_abs(&a, &mut case);
                let named = match a.last() {
                    Some((10, p)) => Some(*p),
                    _ => None,
                };
                for script in [&node.tcp, &node.ws, &node.quic].into_iter().flatten() {
                    let _ = script.take_calls();
                    script.set_failures(false, true, false, false);
                }
                let result = rt.block_on(node.manager.dial_address(real.clone()));
                let mut asked = Vec::new();
                for (i, script) in [&node.tcp, &node.ws, &node.quic].into_iter().enumerate() {
                    if let Some(script) = script {
                        script.set_failures(false, false, false, false);
                        for call in script.take_calls() {
                            if let VerifCall::Dial(_) = call {
                                asked.push(i);
                            }
                        }
                    }
                }
                let code = match &result {
                    // the scripted transport's refusal
                    Err(Error::ConnectionDoesntExist(_)) if asked.len() == 1 => 0,
                    Err(Error::ConnectionLimit(_)) => 1,
                    Err(Error::TriedToDialSelf) => 2,
                    Err(Error::AddressError(AddressError::PeerIdMissing)) => 6,
                    Err(Error::TransportNotSupported(_)) => 7,
                    _ => 99,
                };
                out.extend([10, code]);
                if code == 0 {
                    let q = named.expect("dialed an address without a peer id");
                    out.extend([asked[0] as u64, q]);
                    let state = node.manager.verif_peer_state(&w.peers[q as usize]);
                    assert!(state[0] == 0, "peer not disconnected after the refused dial: {state:?}");
                    assert!(!node.limited || node.outgoing() == node.held.len(), "limit counter differs");
                } else {
                    assert!(asked.is_empty(), "a refused address reached a transport");
                }
                enc_list(&evicted(w), &mut case);
                out.push(0);
                if let Some(q) = named {
                    dump(&store_of(w, &node.manager, q), &mut out);
                }
            }
            13 => {
                // TransportService::add_known_address (returns nothing: the count is the one the
                // handle's add_known_address computed for this call)
                let peer = r.peer()?;
                let addrs = r.maddrs()?;
                let _ = r.maddrs()?;
                let _ = r.maddrs()?;
                let real: Vec<Multiaddr> = addrs.iter().map(|a| real_of(w, a)).collect::<Option<_>>()?;
                case.push(peer);
                enc_list(&addrs, &mut case);
                service.add_known_address(&w.peers[peer as usize], real.into_iter());
                let calls = take_add_calls();
                assert!(calls.len() == 1, "one add_known_address call on the handle per service call");
                let order: Vec<Abs> = take_add_order().iter().map(|a| abs_of(w, a)).collect();
                assert!(order.len() == calls[0].0, "count and insertion log differ");
                enc_list(&order, &mut case);
                enc_list(&evicted(w), &mut case);
                out.extend([0, calls[0].0 as u64, 0]);
                dump(&store_of(w, &node.manager, peer), &mut out);
            }
            11 | 12 => {
                let a = r.maddr()?;
                let real = real_of(w, &a)?;
                enc_abs(&a, &mut case);
                let public = node.manager.verif_public_addresses();
                if tag == 11 {
                    let code = match public.add_address(real) {
                        Ok(true) => 0,
                        Ok(false) => 1,
                        Err(InsertionError::EmptyAddress) => 2,
                        Err(InsertionError::DifferentPeerId) => 3,
                    };
                    out.extend([11, code]);
                } else {
                    out.extend([12, public.remove_address(&real) as u64]);
                }
                let mut l: Vec<Abs> = public.get_addresses().iter().map(|a| abs_of(w, a)).collect();
                l.sort_by_key(sort_key);
                enc_list(&l, &mut out);
            }
            _ => return None,
        }
    }
    if r.i != c.len() {
        return None;
    }
    Some((case, out))
}

// ---------------------------------------------------------------- concrete IP addresses

/// The IPv4 ranges that `ip_network` 0.4.1 / std treat specially (base, prefix length), from the
/// source of `Ipv4Network::is_global` and the predicates it calls.
const V4_RANGES: &[([u8; 4], u32)] = &[
    ([0, 0, 0, 0], 8),
    ([10, 0, 0, 0], 8),
    ([100, 64, 0, 0], 10),
    ([127, 0, 0, 0], 8),
    ([169, 254, 0, 0], 16),
    ([172, 16, 0, 0], 12),
    ([192, 0, 0, 0], 24),
    ([192, 0, 2, 0], 24),
    ([192, 168, 0, 0], 16),
    ([198, 18, 0, 0], 15),
    ([198, 51, 100, 0], 24),
    ([203, 0, 113, 0], 24),
    ([224, 0, 0, 0], 4),
    ([240, 0, 0, 0], 4),
];

/// First, last and neighbouring addresses of every special range, the two exceptions inside
/// 192.0.0.0/24 with their neighbours, and one address of every /8.
fn v4_boundaries() -> Vec<u64> {
    let mut v: Vec<u64> = Vec::new();
    for (base, len) in V4_RANGES {
        let first = u32::from(Ipv4Addr::from(*base)) as u64;
        let last = first + (1u64 << (32 - len)) - 1;
        for x in [first.wrapping_sub(1), first, first + 1, last - 1, last, last + 1] {
            if x < (1 << 32) {
                v.push(x);
            }
        }
    }
    for d in 7..=12u64 {
        v.push((192 << 24) + d);
    }
    for a in 0..256u64 {
        v.push((a << 24) + (1 << 16) + (2 << 8) + 3);
        v.push((a << 24) + (200 << 16));
    }
    v.push((1u64 << 32) - 1);
    v.push((1u64 << 32) - 2);
    v.retain(|x| raw4_ok(*x));
    v.sort();
    v.dedup();
    v
}

/// IPv6: the neighbourhood of ::, ::1, fc00::/7, fe80::/10, fec0::/10, 2001:db8::/32, every
/// multicast scope (with and without flags), and every value of the first byte.
fn v6_boundaries() -> Vec<u64> {
    let mut v: Vec<u64> = Vec::new();
    // around :: and ::1
    for (pos, val) in [(7u64, 2u64), (7, 3), (7, 0xffff), (6, 1), (5, 1), (2, 1), (7, 0x100)] {
        v.push(raw6_code(0, 0, pos, val));
    }
    v.push(raw6_code(1, 0, 0, 0));
    v.push(raw6_code(0, 1, 0, 0));
    v.push(raw6_code(1, 0, 7, 1));
    v.push(raw6_code(0, 0xffff, 7, 1));
    // prefixes on the first segment
    for (base, len) in [(0xfc00u64, 7u32), (0xfe80, 10), (0xfec0, 10), (0xff00, 8)] {
        let last = base + (1u64 << (16 - len)) - 1;
        for s0 in [base - 1, base, base + 1, last - 1, last, last + 1] {
            if s0 < 65536 {
                v.push(raw6_code(s0, 0, 0, 0));
                v.push(raw6_code(s0, 0, 7, 1));
                v.push(raw6_code(s0, 0x1234, 3, 0x5678));
            }
        }
    }
    // multicast scopes and flags
    for flags in [0u64, 1, 3, 0xf] {
        for scope in 0..16u64 {
            v.push(raw6_code(0xff00 + flags * 16 + scope, 0, 7, 1));
        }
    }
    // documentation 2001:db8::/32
    for (s0, s1) in [(0x2001u64, 0xdb7u64), (0x2001, 0xdb8), (0x2001, 0xdb9), (0x2000, 0xdb8), (0x2002, 0xdb8), (0x2001, 0)] {
        v.push(raw6_code(s0, s1, 0, 0));
        v.push(raw6_code(s0, s1, 7, 1));
        v.push(raw6_code(s0, s1, 2, 0xffff));
    }
    // every first byte
    for b in 0..256u64 {
        v.push(raw6_code(b << 8, 0, 7, 1));
        v.push(raw6_code((b << 8) + 0xff, 0xffff, 4, 0x8000));
    }
    v.retain(|x| raw6_ok(*x));
    v.sort();
    v.dedup();
    v
}

/// Number of systematic classification cases at the start of every run (after the error sweep).
const IP_SWEEP_CHUNK: usize = 320;

fn ip_sweep_hosts() -> Vec<Comp> {
    let mut hosts: Vec<Comp> = vec![(0, 0), (1, 0), (1, 65536), (0, 65536 + 7), (0, 2 * 65536 + 7), (0, 3 * 65536 + 7),
                                    (1, 2 * 65536 + 7), (1, 3 * 65536 + 7)];
    hosts.extend(v4_boundaries().into_iter().map(|x| (12u64, x)));
    hosts.extend(v6_boundaries().into_iter().map(|x| (13u64, x)));
    hosts
}

fn ip_sweep_cases() -> usize {
    ip_sweep_hosts().len().div_ceil(IP_SWEEP_CHUNK)
}

/// Classification case `j`: the node listens on /ip4/0.0.0.0/tcp/30 (so a loopback address on
/// port 30 is local). For every address b of the chunk: supported_transport and the transports'
/// parsers on /b/tcp/30/p2p/<p> (an unspecified b is refused), add_known_address of it (refused
/// when b is unspecified or loopback; remembered with the public bonus exactly when b is global).
fn ip_sweep_case(j: usize) -> Vec<u64> {
    let hosts = ip_sweep_hosts();
    let chunk = &hosts[j * IP_SWEEP_CHUNK..((j + 1) * IP_SWEEP_CHUNK).min(hosts.len())];
    let mut ops: Vec<Vec<u64>> = vec![vec![5, 2, 0, 0, 5, 30]];
    for (i, h) in chunk.iter().enumerate() {
        let peer = 1 + (i as u64 % (NPEERS - 1));
        let a: Abs = vec![*h, (5, 30), (10, peer)];
        let mut op = vec![4];
        enc_abs(&a, &mut op);
        ops.push(op);
        let mut op = vec![0, peer, 1];
        enc_abs(&a, &mut op);
        op.extend([0, 0]);
        ops.push(op);
    }
    let mut c = vec![1, FQ, 1, 1, FQ, 0, 0, ops.len() as u64];
    for op in ops {
        c.extend(op);
    }
    c
}

// ---------------------------------------------------------------- Litep2p-level cases

const LP_PORTS: u64 = 10000;

/// abstract port -> real port of the listen sockets of one Litep2p-level case
struct PortMap(Vec<(u64, u16)>);

impl PortMap {
    fn real(&self, m: &Multiaddr) -> Multiaddr {
        m.iter()
            .map(|p| match p {
                Protocol::Tcp(x) => Protocol::Tcp(
                    self.0.iter().find(|(a, _)| *a == x as u64).map(|(_, r)| *r).unwrap_or(x),
                ),
                other => other,
            })
            .collect()
    }
    fn abs(&self, m: &Multiaddr) -> Multiaddr {
        m.iter()
            .map(|p| match p {
                Protocol::Tcp(x) => Protocol::Tcp(
                    self.0.iter().find(|(_, r)| *r == x).map(|(a, _)| *a as u16).unwrap_or(x),
                ),
                other => other,
            })
            .collect()
    }
}

/// A port that is free right now on the loopback interface (a bind can still fail later: the
/// caller retries).
fn free_port() -> u16 {
    loop {
        let l = std::net::TcpListener::bind("127.0.0.1:0").expect("bind");
        let p = l.local_addr().expect("addr").port();
        if p as u64 >= 2 * LP_PORTS {
            return p;
        }
    }
}

struct AddOp {
    peer: u64,
    addrs: Vec<Abs>,
}

/// One Litep2p-level case (format: Glue.v): `Litep2p::new` with configured known addresses and
/// real TCP / WebSocket listeners on loopback addresses, then `Litep2p::add_known_address`.
fn run_lp_case(w: &World, c: &[u64]) -> Option<(Vec<u64>, Vec<u64>)> {
    use litep2p::{config::ConfigBuilder, Litep2p};
    let mut r = Reader { c, i: 0 };
    let nk = r.n()? as usize;
    let flags: Vec<u64> = (0..5).map(|_| r.n()).collect::<Option<_>>()?;
    let (fw, fq, et, ew, eq) = (flags[0] != 0, flags[1] != 0, flags[2] != 0, flags[3] != 0, flags[4] != 0);
    if !fw || fq != cfg!(feature = "quic") || eq || !(et || ew) {
        return None;
    }
    let local = r.peer()?;
    if r.n()? != 0 {
        return None;
    }
    let header: Vec<u64> = c[1..r.i].to_vec();
    let nops = r.count()?;
    // the operations: nk additions (configuration), listen addresses, additions
    let mut known: Vec<AddOp> = Vec::new();
    let mut listens: Vec<Abs> = Vec::new();
    let mut later: Vec<AddOp> = Vec::new();
    let ports_ok = |a: &Abs| a.iter().all(|(t, x)| !(*t == 5 || *t == 6) || *x < LP_PORTS);
    for i in 0..nops {
        match r.n()? {
            0 => {
                let peer = r.peer()?;
                let addrs = r.maddrs()?;
                let _ = r.maddrs()?;
                let _ = r.maddrs()?;
                if !addrs.iter().all(ports_ok) {
                    return None;
                }
                let op = AddOp { peer, addrs };
                if i < nk {
                    known.push(op);
                } else {
                    later.push(op);
                }
            }
            5 => {
                let a = r.maddr()?;
                if i < nk || !later.is_empty() || !ports_ok(&a) {
                    return None;
                }
                // /ip4/<loopback>/tcp/P for TCP, /ip4/<loopback>/tcp/P/ws for WebSocket
                let shape_ok = match a.as_slice() {
                    [(0, ip), (5, _)] => ip / 65536 == 1 && et,
                    [(0, ip), (5, _), (7, 0)] => ip / 65536 == 1 && ew,
                    _ => false,
                };
                if !shape_ok || listens.iter().any(|l| l[0] == a[0] && l[1] == a[1]) {
                    return None;
                }
                listens.push(a);
            }
            _ => return None,
        }
    }
    if r.i != c.len() || known.len() != nk {
        return None;
    }
    for op in known.iter().chain(later.iter()) {
        for a in &op.addrs {
            real_of(w, a)?;
        }
    }
    let mut abs_ports: Vec<u64> = listens.iter().map(|l| l[1].1).collect();
    abs_ports.sort();
    abs_ports.dedup();

    let _ = take_evicted();
    let _ = take_add_order();
    let _ = take_add_calls();
    let mut attempt = 0;
    let (mut litep2p, ports) = loop {
        attempt += 1;
        let ports = PortMap(abs_ports.iter().map(|a| (*a, free_port())).collect());
        let real = |a: &Abs| ports.real(&real_of(w, a).expect("checked"));
        let mut builder = ConfigBuilder::new().with_keypair(w.keys[local as usize].clone());
        if et {
            builder = builder.with_tcp(litep2p::transport::tcp::config::Config {
                listen_addresses: listens.iter().filter(|l| l.len() == 2).map(real).collect(),
                ..Default::default()
            });
        }
        if ew {
            builder = builder.with_websocket(litep2p::transport::websocket::config::Config {
                listen_addresses: listens.iter().filter(|l| l.len() == 3).map(real).collect(),
                ..Default::default()
            });
        }
        let config = builder
            .with_known_addresses(
                known.iter().map(|op| (w.peers[op.peer as usize], op.addrs.iter().map(real).collect::<Vec<_>>())),
            )
            .build();
        match Litep2p::new(config) {
            Ok(l) => break (l, ports),
            Err(e) if attempt < 30 => {
                // a listen port was taken in the meantime: other ports
                let _ = (take_evicted(), take_add_order(), take_add_calls());
                let _ = e;
            }
            Err(e) => panic!("Litep2p::new keeps failing: {e:?}"),
        }
    };
    let abs = |m: &Multiaddr| abs_of(w, &ports.abs(m));
    let store = |l: &Litep2p, peer: u64| -> Vec<(Abs, i32)> {
        let mut v: Vec<(Abs, i32)> = l
            .verif_transport_manager()
            .verif_peer_addresses(&w.peers[peer as usize])
            .unwrap_or_default()
            .into_iter()
            .map(|(a, s)| (abs(&a), s))
            .collect();
        v.sort_by_key(|(a, _)| sort_key(a));
        v
    };

    // the configuration phase, call by call, from the logs of the hooks
    let calls = take_add_calls();
    let order = take_add_order();
    let evicted = take_evicted();
    assert!(calls.len() == known.len(), "one add_known_address call per configured entry");
    let mut case = vec![nk as u64];
    case.extend(header);
    case.push(nops as u64);
    let (mut o, mut total) = (0usize, 0usize);
    for (i, op) in known.iter().enumerate() {
        let (n, ev_from) = calls[i];
        let ev_to = calls.get(i + 1).map(|c| c.1).unwrap_or(evicted.len());
        total += n;
        case.extend([0, op.peer]);
        enc_list(&op.addrs, &mut case);
        enc_list(&order[o..o + n].iter().map(&abs).collect::<Vec<_>>(), &mut case);
        enc_list(&evicted[ev_from..ev_to].iter().map(&abs).collect::<Vec<_>>(), &mut case);
        o += n;
    }
    assert!(total == order.len(), "insertion log and counts differ");
    for l in &listens {
        case.push(5);
        enc_abs(l, &mut case);
    }
    let mut out = vec![2u64];
    let mut l: Vec<Abs> =
        litep2p.verif_transport_manager().verif_listen_addresses().iter().map(&abs).collect();
    l.sort_by_key(sort_key);
    enc_list(&l, &mut out);
    for peer in 0..NPEERS {
        dump(&store(&litep2p, peer), &mut out);
    }
    out.push(0);
    for op in &later {
        let real: Vec<Multiaddr> =
            op.addrs.iter().map(|a| ports.real(&real_of(w, a).expect("checked"))).collect();
        let n = litep2p.add_known_address(w.peers[op.peer as usize], real.into_iter());
        let calls = take_add_calls();
        assert!(calls.len() == 1 && calls[0].0 == n, "one call, the count it returned");
        case.extend([0, op.peer]);
        enc_list(&op.addrs, &mut case);
        enc_list(&take_add_order().iter().map(&abs).collect::<Vec<_>>(), &mut case);
        enc_list(&take_evicted().iter().map(&abs).collect::<Vec<_>>(), &mut case);
        out.extend([0, n as u64, 0]);
        dump(&store(&litep2p, op.peer), &mut out);
    }
    Some((case, out))
}

// ---------------------------------------------------------------- generator

struct Gen<'a> {
    rng: &'a mut Rng,
    ports: [u64; 3],
    /// addresses already produced for a peer (candidates for dial results and rediscovery)
    known: Vec<Vec<Abs>>,
    seq: u64,
    en_tcp: bool,
    en_ws: bool,
    en_quic: bool,
    /// the codes of all constructible DialError variants
    codes: Vec<u64>,
    /// listen addresses registered so far
    listens: Vec<Abs>,
    /// ports are drawn below this bound
    max_port: u64,
    /// concrete addresses at the edges of the special ranges
    v4: std::rc::Rc<Vec<u64>>,
    v6: std::rc::Rc<Vec<u64>>,
}

impl<'a> Gen<'a> {
    fn host(&mut self, allow_unspec: bool) -> Comp {
        // one host in eight is a concrete address: a boundary of a special range or anything
        if self.rng.chance(12) {
            if let Some(h) = self.concrete_host() {
                return h;
            }
        }
        let id = if self.rng.chance(70) { self.rng.below(4) } else { self.rng.below(300) };
        match self.rng.below(100) {
            0..=44 => {
                let class = match self.rng.below(100) {
                    0..=7 if allow_unspec => 0,
                    0..=24 => 1,
                    25..=59 => 2,
                    _ => 3,
                };
                (0, class * 65536 + if class == 0 { 0 } else { id })
            }
            45..=69 => {
                let class = match self.rng.below(100) {
                    0..=7 if allow_unspec => 0,
                    0..=24 => 1,
                    25..=59 => 2,
                    _ => 3,
                };
                (1, class * 65536 + if class <= 1 { 0 } else { id })
            }
            70..=79 => (2, id),
            80..=89 => (3, id),
            _ => (4, id),
        }
    }

    fn concrete_host(&mut self) -> Option<Comp> {
        let h = match self.rng.below(6) {
            0 | 1 => {
                let i = self.rng.below(self.v4.len() as u64) as usize;
                (12, self.v4[i])
            }
            2 => (12, self.rng.below(1 << 32)),
            3 | 4 => {
                let i = self.rng.below(self.v6.len() as u64) as usize;
                (13, self.v6[i])
            }
            _ => {
                let (pos, val) = if self.rng.chance(30) { (0, 0) } else { (self.rng.range(2, 7), self.rng.range(1, 65535)) };
                (13, raw6_code(self.rng.below(65536), if self.rng.chance(50) { 0 } else { self.rng.below(65536) }, pos, val))
            }
        };
        let ok = if h.0 == 12 { raw4_ok(h.1) } else { raw6_ok(h.1) };
        ok.then_some(h)
    }

    fn port(&mut self) -> u64 {
        if self.rng.chance(60) {
            self.rng.pick(&self.ports)
        } else {
            self.rng.range(0, self.max_port)
        }
    }

    fn any_comp(&mut self) -> Comp {
        match self.rng.below(12) {
            0 | 1 | 2 => self.host(true),
            3 => (5, self.port()),
            4 => (6, self.port()),
            5 => (7, 0),
            6 => (8, 0),
            7 => (9, 0),
            8 | 9 => (10, self.rng.below(NPEERS)),
            _ => (11, self.rng.below(NOTHER)),
        }
    }

    /// a fresh, well-formed dialable address of `peer` (distinct ids: fills a store)
    fn fresh(&mut self, peer: u64) -> Abs {
        self.seq += 1;
        let id = 1000 + self.seq;
        let host = match self.rng.below(6) {
            0 => (0, 65536 + id),
            1 | 2 => (0, 2 * 65536 + id),
            3 => (0, 3 * 65536 + id),
            4 => (1, 3 * 65536 + id),
            _ => (2, id),
        };
        let mut a = vec![host, (5, self.rng.range(1000, 2000))];
        if self.en_quic && (self.rng.chance(30) || !(self.en_tcp || self.en_ws)) {
            a = vec![host, (6, self.rng.range(1000, 2000)), (9, 0), (10, peer)];
            return a;
        }
        let ws = if self.en_tcp && self.en_ws { self.rng.chance(30) } else { self.en_ws };
        if ws {
            a.push(if self.rng.chance(70) { (7, 0) } else { (8, 0) });
        }
        a.push((10, peer));
        a
    }

    /// an address of `peer` that is (or was) plausibly in its store
    fn known_or_fresh(&mut self, peer: u64) -> Abs {
        if !self.known[peer as usize].is_empty() && self.rng.chance(85) {
            let k = &self.known[peer as usize];
            k[self.rng.below(k.len() as u64) as usize].clone()
        } else {
            self.fresh(peer)
        }
    }

    fn addr(&mut self, peer: u64) -> Abs {
        let r = self.rng.below(100);
        if r < 12 && !self.known[peer as usize].is_empty() {
            let k = &self.known[peer as usize];
            return k[self.rng.below(k.len() as u64) as usize].clone();
        }
        if r < 30 {
            return self.fresh(peer);
        }
        if r < 38 {
            let n = self.rng.below(6);
            return (0..n).map(|_| self.any_comp()).collect();
        }
        let mut a = vec![self.host(true)];
        match self.rng.below(100) {
            0..=54 => a.push((5, self.port())),
            55..=74 => a.extend([(5, self.port()), (7, 0)]),
            75..=84 => a.extend([(5, self.port()), (8, 0)]),
            85..=94 => a.extend([(6, self.port()), (9, 0)]),
            _ => a.push((6, self.port())),
        }
        match self.rng.below(100) {
            0..=71 => a.push((10, peer)),
            72..=81 => a.push((10, self.rng.below(NPEERS))),
            82..=89 => {}
            90..=94 => a.extend([(10, peer), (10, peer)]),
            _ => a.extend([(10, self.rng.below(NPEERS)), (10, peer)]),
        }
        // structural mutations
        if self.rng.chance(12) && !a.is_empty() {
            let i = self.rng.below(a.len() as u64 + 1) as usize;
            let c = self.any_comp();
            a.insert(i, c);
        }
        if self.rng.chance(6) && a.len() > 1 {
            let i = self.rng.below(a.len() as u64) as usize;
            a.remove(i);
        }
        if self.rng.chance(5) && a.len() > 1 {
            let i = self.rng.below(a.len() as u64 - 1) as usize;
            a.swap(i, i + 1);
        }
        a.truncate(MAXCOMPS);
        a
    }

    fn listen_addr(&mut self) -> Abs {
        let mut l = vec![self.host(true)];
        match self.rng.below(10) {
            0..=5 => l.push((5, self.port())),
            6 | 7 => l.extend([(5, self.port()), (7, 0)]),
            8 => l.extend([(6, self.port()), (9, 0)]),
            _ => {}
        }
        l
    }

    fn err_code(&mut self) -> u64 {
        let i = self.rng.below(self.codes.len() as u64) as usize;
        self.codes[i]
    }

    /// a raw i32 score, biased: the ends of the range, the neighbourhood of the constants, anything
    fn raw_score(&mut self) -> u64 {
        let z: i64 = match self.rng.below(10) {
            0 => i32::MIN as i64 + self.rng.below(3) as i64,
            1 => i32::MAX as i64 - self.rng.below(3) as i64,
            2..=5 => self.rng.pick(&[-101i64, -100, -99, -2, -1, 0, 0, 1, 2, 99, 100, 101]),
            6 | 7 => self.rng.below(400) as i64 - 200,
            _ => self.rng.below(1 << 32) as i64 + i32::MIN as i64,
        };
        (z + SCORE_BIAS) as u64
    }

    fn remember(&mut self, peer: u64, a: &Abs) {
        let k = &mut self.known[peer as usize];
        if k.len() < 200 {
            k.push(a.clone());
        }
    }
}

/// Number of systematic cases at the start of every run: (path of the failure) x (score of the
/// address before the failure), each over every constructible DialError variant.
const SWEEP_PATHS: u64 = 6;
const SWEEP_PRIORS: u64 = 7;
const NSWEEP: u64 = SWEEP_PATHS * SWEEP_PRIORS + 1;

/// Saturation case: raw inserts at and next to both ends of i32 on new global (bonus added,
/// saturating) and private addresses, then every score written over every stored one, failures
/// and successes on the extremes, rediscovery.
fn saturation_case(codes: &[u64]) -> Vec<u64> {
    let peer = 2u64;
    let scores: [i64; 9] =
        [i32::MIN as i64, i32::MIN as i64 + 1, -100, -1, 0, 1, 100, i32::MAX as i64 - 1, i32::MAX as i64];
    let mut ops: Vec<Vec<u64>> = Vec::new();
    let mut addrs: Vec<Abs> = Vec::new();
    for (i, sc) in scores.iter().enumerate() {
        for global in [true, false] {
            let id = 3000 + 2 * i as u64 + global as u64;
            let host = if global { (0, 3 * 65536 + id) } else { (1, 2 * 65536 + id) };
            let a = vec![host, (5, 4000 + i as u64), (10, peer)];
            let mut op = vec![8, peer];
            enc_abs(&a, &mut op);
            op.extend([(sc + SCORE_BIAS) as u64, 0]);
            ops.push(op);
            addrs.push(a);
        }
    }
    for (i, a) in addrs.iter().enumerate() {
        let sc = scores[(i * 5 + 3) % scores.len()];
        let mut op = vec![8, peer];
        enc_abs(a, &mut op);
        op.extend([(sc + SCORE_BIAS) as u64, 0]);
        ops.push(op);
        match i % 3 {
            0 => {
                let mut op = vec![1];
                enc_abs(a, &mut op);
                op.extend([codes[i % codes.len()], 0]);
                ops.push(op);
            }
            1 => {
                let mut op = vec![2, peer];
                enc_abs(a, &mut op);
                op.extend([0, 0]);
                ops.push(op);
            }
            _ => {}
        }
    }
    let mut op = vec![0, peer, addrs.len() as u64];
    for a in &addrs {
        enc_abs(a, &mut op);
    }
    op.extend([0, 0]);
    ops.push(op);
    ops.push(vec![3, peer, 64, 0]);
    let mut c = vec![1, FQ, 1, 1, FQ, 0, 0, ops.len() as u64];
    for op in ops {
        c.extend(op);
    }
    c
}

/// Sweep case: for every error kind one stored address of peer 1 with the prior score, a failure
/// of that kind through `path` (0 update_address_on_dial_failure, 1 dial_address + DialFailure
/// event, 2 dial(peer) + OpenFailure events, 3 dial(peer) + ConnectionOpened with errors; and the
/// success paths 4 update_address_on_connection_established, 5 dial_address + ConnectionEstablished),
/// then a rediscovery of everything and the dial order.
fn sweep_case(codes: &[u64], index: u64) -> Vec<u64> {
    if index == NSWEEP - 1 {
        return saturation_case(codes);
    }
    let (path, prior) = (index % SWEEP_PATHS, index / SWEEP_PATHS);
    let peer = 1u64;
    let mut ops: Vec<Vec<u64>> = Vec::new();
    let mut addrs: Vec<Abs> = Vec::new();
    for (i, code) in codes.iter().enumerate() {
        let id = 2000 + i as u64;
        // prior 1: a global address (untested score = the public bonus); otherwise private
        let host = if prior == 1 { (0, 3 * 65536 + id) } else { (0, 2 * 65536 + id) };
        let mut a = vec![host, (5, 1000 + i as u64)];
        if FQ == 1 && i % 3 == 2 {
            a = vec![host, (6, 1000 + i as u64), (9, 0)];
        } else if i % 2 == 1 {
            a.push((7, 0));
        }
        a.push((10, peer));
        let mut op = vec![0, peer, 1];
        enc_abs(&a, &mut op);
        op.extend([0, 0]);
        ops.push(op);
        let mut setup = Vec::new();
        match prior {
            2 => {
                setup.extend([2, peer]);
                enc_abs(&a, &mut setup);
                setup.extend([0, 0]);
            }
            3 | 4 => {
                setup.push(1);
                enc_abs(&a, &mut setup);
                setup.extend([if prior == 3 { 0 } else { 1 }, 0]);
            }
            5 | 6 => {
                setup.extend([8, peer]);
                enc_abs(&a, &mut setup);
                setup.extend([(if prior == 5 { 7 } else { -7 } + SCORE_BIAS) as u64, 0]);
            }
            _ => {}
        }
        if !setup.is_empty() {
            ops.push(setup);
        }
        match path {
            0 => {
                let mut op = vec![1];
                enc_abs(&a, &mut op);
                op.extend([*code, 0]);
                ops.push(op);
            }
            1 => {
                let mut op = vec![10];
                enc_abs(&a, &mut op);
                op.extend([*code + 1, 0]);
                ops.push(op);
            }
            4 => {
                let mut op = vec![2, peer];
                enc_abs(&a, &mut op);
                op.extend([0, 0]);
                ops.push(op);
            }
            5 => {
                let mut op = vec![10];
                enc_abs(&a, &mut op);
                op.extend([0, 0]);
                ops.push(op);
            }
            _ => {}
        }
        addrs.push(a);
    }
    if path == 2 || path == 3 {
        // every stored address is handed to open(); attempt i fails with kind (i + shift) mod n
        for shift in [0usize, 7, 13] {
            let mut op = vec![DIAL_TAG, peer, if path == 2 { 0 } else { 999 }, codes.len() as u64];
            op.extend((0..codes.len()).map(|i| codes[(i + shift) % codes.len()]));
            op.extend([0, 0]);
            if DIAL_TAG == 14 {
                op.push(0);
            }
            ops.push(op);
            ops.push(vec![3, peer, 64, 0]);
        }
    }
    // rediscovery of everything, then the dial order
    let mut op = vec![0, peer, addrs.len() as u64];
    for a in &addrs {
        enc_abs(a, &mut op);
    }
    op.extend([0, 0]);
    ops.push(op);
    ops.push(vec![3, peer, 5, 0]);
    ops.push(vec![3, peer, 64, 0]);
    let mut c = vec![1, FQ, 1, 1, FQ, 0, 0, ops.len() as u64];
    for op in ops {
        c.extend(op);
    }
    c
}

/// A Litep2p-level case: configuration (transports with loopback listen addresses, known
/// addresses) and later `Litep2p::add_known_address` calls. The offered addresses include the
/// node's own listen addresses under other peer ids, loopback aliases on the listen ports, fresh
/// dialable addresses and arbitrary shapes; some cases configure more than 64 addresses for one peer.
fn gen_lp_case(rng: &mut Rng, pools: &Pools) -> Vec<u64> {
    let (en_tcp, en_ws) = match rng.below(4) {
        0 => (true, false),
        1 => (false, true),
        _ => (true, true),
    };
    let mut g = Gen {
        rng,
        ports: [30, 31, 32],
        known: vec![Vec::new(); NPEERS as usize],
        seq: 0,
        en_tcp,
        en_ws,
        en_quic: false,
        codes: Vec::new(),
        listens: Vec::new(),
        max_port: LP_PORTS - 1,
        v4: pools.0.clone(),
        v6: pools.1.clone(),
    };
    let local = g.rng.below(4);
    let nlisten = g.rng.pick(&[0u64, 1, 1, 2, 2, 3]);
    let mut listens: Vec<Abs> = Vec::new();
    for _ in 0..nlisten {
        let ws = if en_tcp && en_ws { g.rng.chance(40) } else { en_ws };
        let mut l = vec![(0u64, 65536 + g.rng.below(4)), (5u64, g.rng.pick(&[30u64, 31, 32]))];
        if ws {
            l.push((7, 0));
        }
        if !listens.iter().any(|x: &Abs| x[0] == l[0] && x[1] == l[1]) {
            listens.push(l);
        }
    }
    g.listens = listens.clone();
    let fill = g.rng.chance(25);
    let focus = g.rng.range(1, NPEERS - 1);
    let offer = |g: &mut Gen, peer: u64| -> Abs {
        match g.rng.below(10) {
            0 | 1 if !g.listens.is_empty() => {
                // a listen address of the node, under this or the local peer id (or none)
                let i = g.rng.below(g.listens.len() as u64) as usize;
                let mut a = g.listens[i].clone();
                match g.rng.below(4) {
                    0 => a.push((10, local)),
                    1 => {}
                    _ => a.push((10, peer)),
                }
                a
            }
            2 if !g.listens.is_empty() => {
                // a loopback alias on a listen port
                let i = g.rng.below(g.listens.len() as u64) as usize;
                let mut a = g.listens[i].clone();
                a[0] = if g.rng.chance(70) { (0, 65536 + g.rng.below(300)) } else { (1, 65536) };
                a.push((10, peer));
                a
            }
            3..=6 => g.fresh(peer),
            _ => {
                let mut a = g.addr(peer);
                for x in a.iter_mut() {
                    if (x.0 == 5 || x.0 == 6) && x.1 >= LP_PORTS {
                        x.1 %= LP_PORTS;
                    }
                }
                a
            }
        }
    };
    let mut ops: Vec<Vec<u64>> = Vec::new();
    let nk = if fill { g.rng.range(14, 22) } else { g.rng.below(6) };
    for _ in 0..nk {
        let peer = if fill && g.rng.chance(85) { focus } else { (focus + g.rng.below(3)) % NPEERS };
        let n = if fill { g.rng.range(3, 8) } else { g.rng.range(1, 5) };
        let mut op = vec![0, peer, n];
        for _ in 0..n {
            let a = if fill && g.rng.chance(80) { g.fresh(peer) } else { offer(&mut g, peer) };
            g.remember(peer, &a);
            enc_abs(&a, &mut op);
        }
        op.extend([0, 0]);
        ops.push(op);
    }
    for l in &listens {
        let mut op = vec![5];
        enc_abs(l, &mut op);
        ops.push(op);
    }
    let nlater = g.rng.below(9);
    for _ in 0..nlater {
        let peer = if fill && g.rng.chance(70) { focus } else { (focus + g.rng.below(3)) % NPEERS };
        let n = g.rng.range(1, 4);
        let mut op = vec![0, peer, n];
        for _ in 0..n {
            let a = if g.rng.chance(25) { g.known_or_fresh(peer) } else { offer(&mut g, peer) };
            enc_abs(&a, &mut op);
        }
        op.extend([0, 0]);
        ops.push(op);
    }
    let mut c = vec![2, nk, 1, FQ, en_tcp as u64, en_ws as u64, 0, local, 0, ops.len() as u64];
    for op in ops {
        c.extend(op);
    }
    c
}

/// Mixed-outcome block: a dial(peer) whose selection spans every installed transport, one case
/// per (order of the transports' reports) x (score of the addresses beforehand).
const MIXED_ORDERS: u64 = 6;
const NMIXED: u64 = MIXED_ORDERS * SWEEP_PRIORS;

/// Peer 1 has K addresses per installed transport (K = number of error kinds with two transports,
/// 21 with three), all with the prior score. One dial(peer) episode, attempt i failing with kind
/// codes[(i + shift) mod n]:
///   order 0  every other transport reports OpenFailure for all its addresses, THEN the
///            WebSocket transport opens the connection on its first address
///   order 1  WebSocket opens first, then the others report their OpenFailure
///   order 2  the others fail, then TCP opens on its first address
///   order 3  TCP opens first, then the others fail
///   order 4  the first other transport fails before, the second after a WebSocket
///            ConnectionOpened on its 4th address that carries the errors of the 3 before it
///   order 5  every transport fails
/// then addresses(limit), a second dial(peer) in which everything fails, a rediscovery.
fn mixed_case(codes: &[u64], index: u64) -> Vec<u64> {
    let (order, prior) = (index % MIXED_ORDERS, index / MIXED_ORDERS);
    let peer = 1u64;
    let ntr: usize = if FQ == 1 { 3 } else { 2 };
    let k = if ntr == 2 { codes.len().min(30) } else { 21 };
    let mut ops: Vec<Vec<u64>> = Vec::new();
    let mut addrs: Vec<Abs> = Vec::new();
    for t in 0..ntr {
        for i in 0..k {
            let id = 3000 + (t * 100 + i) as u64;
            let host = if prior == 1 { (0, 3 * 65536 + id) } else { (0, 2 * 65536 + id) };
            let port = 2000 + (t * 100 + i) as u64;
            let mut a = match t {
                0 => vec![host, (5, port)],
                1 => vec![host, (5, port), (7, 0)],
                _ => vec![host, (6, port), (9, 0)],
            };
            a.push((10, peer));
            let mut op = vec![0, peer, 1];
            enc_abs(&a, &mut op);
            op.extend([0, 0]);
            ops.push(op);
            let mut setup = Vec::new();
            match prior {
                2 => {
                    setup.extend([2, peer]);
                    enc_abs(&a, &mut setup);
                    setup.extend([0, 0]);
                }
                3 | 4 => {
                    setup.push(1);
                    enc_abs(&a, &mut setup);
                    setup.extend([if prior == 3 { 0 } else { 1 }, 0]);
                }
                5 | 6 => {
                    setup.extend([8, peer]);
                    enc_abs(&a, &mut setup);
                    setup.extend([(if prior == 5 { 7 } else { -7 } + SCORE_BIAS) as u64, 0]);
                }
                _ => {}
            }
            if !setup.is_empty() {
                ops.push(setup);
            }
            addrs.push(a);
        }
    }
    let total = (ntr * k) as u64;
    // (position of the attempt that connects in tcp ++ ws ++ quic, roles of the others)
    let (j, m) = match order {
        0 => (k as u64, 4),
        1 => (k as u64, 8),
        2 => (0, 4),
        3 => (0, 8),
        4 => (k as u64 + 3, 7),
        _ => (0, 0),
    };
    let outcome = if order == 5 { 0 } else { 1 + j + total * m };
    let shift = (index as usize * 5) % codes.len();
    let mut dial = |outcome: u64, shift: usize| {
        let mut op = vec![DIAL_TAG, peer, outcome, codes.len() as u64];
        op.extend((0..codes.len()).map(|i| codes[(i + shift) % codes.len()]));
        op.extend([0, 0]);
        if DIAL_TAG == 14 {
            op.push(0);
        }
        ops.push(op);
        ops.push(vec![3, peer, 64, 0]);
    };
    dial(outcome, shift);
    dial(0, shift + 11);
    let mut op = vec![0, peer, addrs.len() as u64];
    for a in &addrs {
        enc_abs(a, &mut op);
    }
    op.extend([0, 0]);
    ops.push(op);
    ops.push(vec![3, peer, 64, 0]);
    let mut c = vec![1, FQ, 1, 1, FQ, 0, 0, ops.len() as u64];
    for op in ops {
        c.extend(op);
    }
    c
}

/// every LP_EVERY-th random case runs at the level of `Litep2p`
const LP_EVERY: u64 = 8;

type Pools = (std::rc::Rc<Vec<u64>>, std::rc::Rc<Vec<u64>>);

fn gen_case(rng: &mut Rng, codes: &[u64], pools: &Pools, index: u64, thorough: bool) -> Vec<u64> {
    if index < NSWEEP {
        return sweep_case(codes, index);
    }
    let index = index - NSWEEP;
    if index < NMIXED {
        return mixed_case(codes, index);
    }
    let index = index - NMIXED;
    let nip = ip_sweep_cases() as u64;
    if index < nip {
        return ip_sweep_case(index as usize);
    }
    let index = index - nip;
    if index % LP_EVERY == LP_EVERY - 1 {
        return gen_lp_case(rng, pools);
    }
    let ports = [30, 31, rng.range(1, 65535)];
    let en_tcp = rng.chance(if FQ == 1 { 75 } else { 90 });
    let en_ws = rng.chance(65);
    let en_quic = FQ == 1 && rng.chance(75);
    let mut g = Gen {
        rng,
        ports,
        known: vec![Vec::new(); NPEERS as usize],
        seq: 0,
        en_tcp,
        en_ws,
        en_quic,
        codes: codes.to_vec(),
        listens: Vec::new(),
        max_port: 65535,
        v4: pools.0.clone(),
        v6: pools.1.clone(),
    };
    let local = g.rng.below(4);
    // max_outgoing_connections: none, or 0..=8 (encoded +1)
    let max_out = if g.rng.chance(30) { 0 } else { 1 + g.rng.pick(&[0u64, 1, 2, 3, 3, 5, 8, 8]) };
    let mut c = vec![1, FQ, en_tcp as u64, en_ws as u64, en_quic as u64, local, max_out];
    let small = index < 30;
    // "fill" cases concentrate on one peer so that the bound of 64 is crossed
    let fill = !small && g.rng.chance(50);
    // "clean" cases keep dial results on addresses taken from the peer's own offers, so that
    // dial(peer) is not skipped for an unroutable store
    let clean = g.rng.chance(60);
    let nops = if small {
        g.rng.range(6, 16)
    } else if fill {
        if thorough { g.rng.range(120, 400) } else { g.rng.range(100, 220) }
    } else if thorough {
        g.rng.range(50, 400)
    } else {
        g.rng.range(30, 120)
    };
    let npeers = if fill { 2 } else { g.rng.range(1, 5) };
    let focus = g.rng.range(1, NPEERS - 1);
    let nlisten = g.rng.pick(&[0u64, 1, 1, 2, 3]);
    c.push(nops + nlisten);
    for _ in 0..nlisten {
        let l = g.listen_addr();
        c.push(5);
        enc_abs(&l, &mut c);
        g.listens.push(l);
    }
    for _ in 0..nops {
        let peer = if fill && g.rng.chance(90) { focus } else { (focus + g.rng.below(npeers)) % NPEERS };
        let r = g.rng.below(100);
        let add_single = if fill { 40 } else { 30 };
        if r < add_single {
            let mut a = if (fill && g.rng.chance(70)) || (clean && g.rng.chance(50)) { g.fresh(peer) } else { g.addr(peer) };
            // a quarter of the additions come through a protocol's TransportService, half of those
            // without the trailing peer id (the service appends it)
            let service = g.rng.chance(25);
            if service && g.rng.chance(50) && a.last() == Some(&(10, peer)) {
                a.pop();
            }
            let mut full = a.clone();
            if service && !matches!(full.last(), Some((10, _))) {
                full.push((10, peer));
            }
            g.remember(peer, &full);
            c.extend([if service { 13 } else { 0 }, peer, 1]);
            enc_abs(&a, &mut c);
            c.extend([0, 0]);
        } else if r < add_single + 12 {
            // several addresses in one call (evictions included: the insertion order is observed)
            let n = g.rng.range(2, 6);
            let service = g.rng.chance(25);
            c.extend([if service { 13 } else { 0 }, peer, n]);
            let mut prev: Option<Abs> = None;
            for _ in 0..n {
                let a = match &prev {
                    Some(p) if g.rng.chance(20) => p.clone(),
                    _ if fill && g.rng.chance(60) => g.fresh(peer),
                    _ => g.addr(peer),
                };
                let mut a = a;
                if service && g.rng.chance(40) && a.last() == Some(&(10, peer)) {
                    a.pop();
                }
                g.remember(peer, &a);
                enc_abs(&a, &mut c);
                prev = Some(a);
            }
            c.extend([0, 0]);
        } else if r < add_single + 22 {
            let a = if clean { g.known_or_fresh(peer) } else { g.addr(peer) };
            c.push(1);
            enc_abs(&a, &mut c);
            c.extend([g.err_code(), 0]);
        } else if r < add_single + 25 {
            // AddressStore::insert with a raw score
            let a = if clean { g.known_or_fresh(peer) } else { g.addr(peer) };
            c.extend([8, peer]);
            enc_abs(&a, &mut c);
            c.extend([g.raw_score(), 0]);
        } else if r < add_single + 30 {
            let a = if clean { g.known_or_fresh(peer) } else { g.addr(peer) };
            c.extend([2, peer]);
            enc_abs(&a, &mut c);
            c.extend([g.rng.chance(15) as u64, 0]);
        } else if r < add_single + 36 {
            let limit = g.rng.pick(&[0u64, 1, 2, 3, 5, 8, 63, 64, 100]);
            c.extend([3, peer, limit, 0]);
        } else if r < add_single + 42 {
            let a = g.addr(peer);
            c.push(4);
            enc_abs(&a, &mut c);
        } else if r < add_single + 44 {
            let l = g.listen_addr();
            c.push(5);
            enc_abs(&l, &mut c);
            g.listens.push(l);
        } else if r < add_single + 46 {
            // PublicAddresses: add (with / without / foreign peer id, empty) and remove
            let mut a = if g.rng.chance(8) { Vec::new() } else { g.listen_addr() };
            match g.rng.below(10) {
                0..=3 => a.push((10, local)),
                4 | 5 => a.push((10, g.rng.below(NPEERS))),
                _ => {}
            }
            c.push(if g.rng.chance(70) { 11 } else { 12 });
            enc_abs(&a, &mut c);
        } else if r < add_single + 50 {
            c.extend([6, g.rng.below(9)]);
        } else if r < add_single + 57 {
            // dial_address: a stored address, a fresh one, or any shape (unspecified hosts, listen
            // addresses, trailing components, foreign transports); failure of any kind or success
            let a = match g.rng.below(10) {
                0..=4 => g.known_or_fresh(peer),
                5 | 6 if !clean => g.addr(peer),
                5 | 6 => g.fresh(peer),
                7 => {
                    // a registered listen address (literally, or under another peer id), or a new one
                    let mut l = if !g.listens.is_empty() && g.rng.chance(75) {
                        let i = g.rng.below(g.listens.len() as u64) as usize;
                        g.listens[i].clone()
                    } else {
                        g.listen_addr()
                    };
                    l.push((10, if g.rng.chance(50) { local } else { peer }));
                    l
                }
                _ => g.addr(peer),
            };
            g.remember(peer, &a);
            if g.rng.chance(12) {
                // the transport refuses to start the dial
                c.push(15);
                enc_abs(&a, &mut c);
                c.push(0);
            } else {
                let res = if g.rng.chance(35) { 0 } else { g.err_code() + 1 };
                c.push(10);
                enc_abs(&a, &mut c);
                c.extend([res, 0]);
            }
        } else {
            // dial(peer): half of the attempts fail completely, the others succeed somewhere;
            // the failing attempts time out (tag 7) or fail with kinds of every sort (tag 9)
            let outcome = if g.rng.chance(50) { 0 } else { g.rng.range(1, 400) };
            let p = if g.rng.chance(4) { g.rng.below(NPEERS) } else { peer };
            if FQ == 0 && g.rng.chance(25) {
                c.extend([7, p, outcome, 0, 0]);
            } else {
                let n = g.rng.range(if FQ == 1 { 0 } else { 1 }, 6);
                c.extend([DIAL_TAG, p, outcome, n]);
                for _ in 0..n {
                    let e = g.err_code();
                    c.push(e);
                }
                c.extend([0, 0]);
                if DIAL_TAG == 14 {
                    c.push(0);
                }
            }
        }
    }
    c
}

pub fn main(args: &Args) {
    let seed = args.u64("seed", 1);
    let ncases = args.u64("cases", 100);
    let thorough = args.str("tier") == Some("thorough");
    let mut out = Outputs::open(args);
    let rt = tokio::runtime::Builder::new_current_thread().enable_all().build().unwrap();
    let _g = rt.enter();
    let mut rng = Rng::new(seed);
    let w = World::new();
    let codes = all_error_codes(&w);
    let pools: Pools = (std::rc::Rc::new(v4_boundaries()), std::rc::Rc::new(v6_boundaries()));

    let run = |c: &[u64]| -> (Vec<u64>, Vec<u64>) {
        match catch_unwind(AssertUnwindSafe(|| run_case(&rt, &w, c))) {
            Ok(Some((case, trace))) => (case, trace),
            Ok(None) => (c.to_vec(), vec![0]),
            Err(_) => (c.to_vec(), vec![PANIC_MARK]),
        }
    };

    let mut stored: Vec<Vec<u64>> = Vec::new();
    if let Some(r) = args.str("replay") {
        stored = read_cases(Path::new(r));
    } else if let Some(d) = args.str("corpus") {
        stored = read_cases(Path::new(d));
    }
    for c in stored.iter() {
        // the implementation's choices stored with a case are replaced by this run's
        let (case, t) = run(c);
        out.emit(&case, &t);
    }
    if args.str("replay").is_some() {
        return;
    }
    for i in 0..ncases {
        let mut r = rng.fork();
        let c = gen_case(&mut r, &codes, &pools, i, thorough);
        let (case, t) = run(&c);
        out.emit(&case, &t);
    }
}
