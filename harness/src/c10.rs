//! C10: peer address book correspondence. Case and trace format: see coq/C10/Glue.v.
//!
//! Real code exercised: `TransportManagerHandle::{supported_transport, add_known_address}` (and
//! through it `is_local_address`, `AddressStore::insert`), `TransportManager::
//! {register_listen_address, dial, update_address_on_dial_failure,
//! update_address_on_connection_established, supported_transports_addresses}` and the manager's
//! event loop on the scripted transports' OpenFailure / ConnectionOpened / ConnectionEstablished
//! events, `ConnectionLimits`, `AddressStore::addresses(limit)`, and the TCP / WebSocket
//! `multiaddr_to_socket_address`, all on real `Multiaddr`s built from the abstract shapes.
use crate::util::*;
use litep2p::{
    crypto::ed25519::Keypair,
    error::{AddressError, DialError},
    transport::{
        verif::{
            take_add_order, take_evicted, AddressType, DnsType, GetSocketAddr, SupportedTransport,
            TcpAddress, TransportManager, TransportManagerBuilder, VerifScript, WebSocketAddress,
        },
        ConnectionLimitsConfig,
    },
    Error, PeerId,
};
use tokio::runtime::Runtime;
use multiaddr::{Multiaddr, Protocol};
use std::{
    borrow::Cow,
    net::{IpAddr, Ipv4Addr, Ipv6Addr},
    panic::{catch_unwind, AssertUnwindSafe},
    path::Path,
};

const NPEERS: u64 = 8;
const NOTHER: u64 = 8;
const MAXCOMPS: usize = 8;
const SCORE_BIAS: i64 = 1 << 31;

type Comp = (u64, u64);
type Abs = Vec<Comp>;

struct World {
    keys: Vec<Keypair>,
    peers: Vec<PeerId>,
}

impl World {
    fn new() -> Self {
        let keys: Vec<Keypair> = (0..NPEERS).map(|_| Keypair::generate()).collect();
        let peers = keys.iter().map(|k| PeerId::from_public_key(&k.public().into())).collect();
        World { keys, peers }
    }

    fn peer_index(&self, p: &PeerId) -> Option<u64> {
        self.peers.iter().position(|x| x == p).map(|i| i as u64)
    }
}

// ---------------------------------------------------------------- abstract <-> real

fn ip4_of(class: u64, id: u64) -> Ipv4Addr {
    let (hi, lo) = ((id >> 8) as u8, (id & 255) as u8);
    match class {
        0 => Ipv4Addr::UNSPECIFIED,
        1 => Ipv4Addr::new(127, 1, hi, lo),
        2 => Ipv4Addr::new(10, 7, hi, lo),
        _ => Ipv4Addr::new(8, 8, hi, lo),
    }
}

fn ip6_of(class: u64, id: u64) -> Ipv6Addr {
    match class {
        0 => Ipv6Addr::UNSPECIFIED,
        1 => Ipv6Addr::LOCALHOST,
        2 => Ipv6Addr::new(0xfd00, 0, 0, 0, 0, 0, 7, id as u16),
        _ => Ipv6Addr::new(0x2001, 0x4860, 0, 0, 0, 0, 0, id as u16),
    }
}

fn abs_ip(ip: &IpAddr) -> Option<Comp> {
    match ip {
        IpAddr::V4(v) => {
            let o = v.octets();
            let id = ((o[2] as u64) << 8) | o[3] as u64;
            match (o[0], o[1]) {
                (0, 0) if id == 0 => Some((0, 0)),
                (127, 1) => Some((0, 65536 + id)),
                (10, 7) => Some((0, 2 * 65536 + id)),
                (8, 8) => Some((0, 3 * 65536 + id)),
                _ => None,
            }
        }
        IpAddr::V6(v) => {
            let s = v.segments();
            let id = s[7] as u64;
            if *v == Ipv6Addr::UNSPECIFIED {
                Some((1, 0))
            } else if *v == Ipv6Addr::LOCALHOST {
                Some((1, 65536))
            } else if s[0] == 0xfd00 && s[6] == 7 {
                Some((1, 2 * 65536 + id))
            } else if s[0] == 0x2001 && s[1] == 0x4860 {
                Some((1, 3 * 65536 + id))
            } else {
                None
            }
        }
    }
}

fn dns_name(id: u64) -> String {
    format!("h{id}.example.org")
}

fn dns_id(s: &str) -> Option<u64> {
    s.strip_prefix('h')?.strip_suffix(".example.org")?.parse().ok()
}

/// Canonical components only (the same rule as `dec_comp` in Glue.v).
/// Abstract component -> real multiaddr protocol (shared with the C05 harness).
pub(crate) fn protocol_of_peers(peers: &[PeerId], c: (u64, u64)) -> Option<Protocol<'static>> {
    let (tag, arg) = c;
    let small = arg < 65536;
    Some(match tag {
        0 | 1 => {
            let (class, id) = (arg / 65536, arg % 65536);
            if class > 3 || (class == 0 && id != 0) || (tag == 1 && class == 1 && id != 0) {
                return None;
            }
            if tag == 0 {
                Protocol::Ip4(ip4_of(class, id))
            } else {
                Protocol::Ip6(ip6_of(class, id))
            }
        }
        2 if small => Protocol::Dns(Cow::Owned(dns_name(arg))),
        3 if small => Protocol::Dns4(Cow::Owned(dns_name(arg))),
        4 if small => Protocol::Dns6(Cow::Owned(dns_name(arg))),
        5 if small => Protocol::Tcp(arg as u16),
        6 if small => Protocol::Udp(arg as u16),
        7 if arg == 0 => Protocol::Ws(Cow::Borrowed("/")),
        8 if arg == 0 => Protocol::Wss(Cow::Borrowed("/")),
        9 if arg == 0 => Protocol::QuicV1,
        10 if (arg as usize) < peers.len() => Protocol::P2p(peers[arg as usize].into()),
        11 if arg < NOTHER => match arg {
            0 => Protocol::Quic,
            1 => Protocol::Http,
            2 => Protocol::Tls,
            3 => Protocol::P2pCircuit,
            4 => Protocol::Sctp(7),
            5 => Protocol::Memory(9),
            6 => Protocol::Utp,
            _ => Protocol::WebRTCDirect,
        },
        _ => return None,
    })
}

fn protocol_of(w: &World, c: Comp) -> Option<Protocol<'static>> {
    protocol_of_peers(&w.peers, c)
}

fn real_of(w: &World, a: &Abs) -> Option<Multiaddr> {
    if a.len() > MAXCOMPS {
        return None;
    }
    let mut m = Multiaddr::empty();
    for c in a {
        m = m.with(protocol_of(w, *c)?);
    }
    Some(m)
}

/// Inverse of `real_of` on the addresses this harness creates (panics on anything else: the
/// implementation stored an address that was never given to it).
fn abs_of(w: &World, m: &Multiaddr) -> Abs {
    m.iter()
        .map(|p| match p {
            Protocol::Ip4(v) => abs_ip(&IpAddr::V4(v)).expect("known ip4"),
            Protocol::Ip6(v) => abs_ip(&IpAddr::V6(v)).expect("known ip6"),
            Protocol::Dns(s) => (2, dns_id(&s).expect("known dns")),
            Protocol::Dns4(s) => (3, dns_id(&s).expect("known dns4")),
            Protocol::Dns6(s) => (4, dns_id(&s).expect("known dns6")),
            Protocol::Tcp(p) => (5, p as u64),
            Protocol::Udp(p) => (6, p as u64),
            Protocol::Ws(_) => (7, 0),
            Protocol::Wss(_) => (8, 0),
            Protocol::QuicV1 => (9, 0),
            Protocol::P2p(id) => {
                let id = PeerId::from_multihash(id).expect("valid peer id");
                (10, w.peer_index(&id).expect("known peer"))
            }
            Protocol::Quic => (11, 0),
            Protocol::Http => (11, 1),
            Protocol::Tls => (11, 2),
            Protocol::P2pCircuit => (11, 3),
            Protocol::Sctp(_) => (11, 4),
            Protocol::Memory(_) => (11, 5),
            Protocol::Utp => (11, 6),
            Protocol::WebRTCDirect => (11, 7),
            other => panic!("unexpected protocol {other:?}"),
        })
        .collect()
}

fn enc_abs(a: &Abs, out: &mut Vec<u64>) {
    out.push(a.len() as u64);
    for (t, x) in a {
        out.extend([*t, *x]);
    }
}

/// The order of `maddr_key` in Glue.v: shorter first, then digit-wise.
fn sort_key(a: &Abs) -> (usize, Vec<u64>) {
    (a.len(), a.iter().map(|(t, x)| t * 1_048_576 + x + 1).collect())
}

// ---------------------------------------------------------------- case reader

struct Reader<'a> {
    c: &'a [u64],
    i: usize,
}

impl<'a> Reader<'a> {
    fn n(&mut self) -> Option<u64> {
        let v = *self.c.get(self.i)?;
        self.i += 1;
        Some(v)
    }
    fn count(&mut self) -> Option<usize> {
        let n = self.n()? as usize;
        if n > self.c.len() - self.i {
            return None;
        }
        Some(n)
    }
    fn maddr(&mut self) -> Option<Abs> {
        let n = self.count()?;
        let mut v = Vec::with_capacity(n);
        for _ in 0..n {
            v.push((self.n()?, self.n()?));
        }
        if v.len() > MAXCOMPS {
            return None;
        }
        Some(v)
    }
    fn maddrs(&mut self) -> Option<Vec<Abs>> {
        let n = self.count()?;
        (0..n).map(|_| self.maddr()).collect()
    }
    fn peer(&mut self) -> Option<u64> {
        let p = self.n()?;
        (p < NPEERS).then_some(p)
    }
}

// ---------------------------------------------------------------- running a case

fn store_of(w: &World, m: &TransportManager, peer: u64) -> Vec<(Abs, i32)> {
    let mut v: Vec<(Abs, i32)> = m
        .verif_peer_addresses(&w.peers[peer as usize])
        .unwrap_or_default()
        .into_iter()
        .map(|(a, s)| (abs_of(w, &a), s))
        .collect();
    v.sort_by_key(|(a, _)| sort_key(a));
    v
}

fn dump(s: &[(Abs, i32)], out: &mut Vec<u64>) {
    out.push(s.len() as u64);
    for (a, sc) in s {
        enc_abs(a, out);
        out.push((*sc as i64 + SCORE_BIAS) as u64);
    }
}

fn enc_list(v: &[Abs], out: &mut Vec<u64>) {
    out.push(v.len() as u64);
    for a in v {
        enc_abs(a, out);
    }
}

/// the records evicted since the last call, as recorded by `AddressStore::insert` itself
fn evicted(w: &World) -> Vec<Abs> {
    take_evicted().iter().map(|a| abs_of(w, a)).collect()
}

fn enc_parsed(w: &World, r: Result<(AddressType, Option<PeerId>), AddressError>, out: &mut Vec<u64>) {
    match r {
        Err(_) => out.push(0),
        Ok((ty, peer)) => {
            out.push(1);
            match ty {
                AddressType::Socket(sa) => {
                    let (t, x) = abs_ip(&sa.ip()).expect("known ip");
                    out.extend([t, x, sa.port() as u64]);
                }
                AddressType::Dns { address, port, dns_type } => {
                    let t = match dns_type {
                        DnsType::Dns => 2,
                        DnsType::Dns4 => 3,
                        DnsType::Dns6 => 4,
                    };
                    out.extend([t, dns_id(&address).expect("known dns"), port as u64]);
                }
            }
            out.push(peer.map(|p| w.peer_index(&p).expect("known peer") + 1).unwrap_or(0));
        }
    }
}

/// The real manager with scripted transports, and the outbound connections held open.
struct Node {
    manager: TransportManager,
    tcp: Option<VerifScript>,
    ws: Option<VerifScript>,
    /// (filler peer, connection id) of the established outbound connections
    held: Vec<(PeerId, usize)>,
    fillers: u64,
    /// max_outgoing_connections is configured
    limited: bool,
}

impl Node {
    fn outgoing(&self) -> usize {
        self.manager.verif_limit_sets().1.len()
    }

    /// establish (and have accepted) an outbound connection to a fresh peer
    fn hold_one(&mut self) -> bool {
        let Some(script) = self.tcp.clone().or(self.ws.clone()) else {
            return false;
        };
        let before = self.outgoing();
        let peer = PeerId::random();
        self.fillers += 1;
        let conn = self.manager.verif_alloc_connection_id();
        let address = Multiaddr::empty()
            .with(Protocol::Ip4(Ipv4Addr::new(10, 200, (self.fillers >> 8) as u8, self.fillers as u8)))
            .with(Protocol::Tcp(1))
            .with(Protocol::P2p(peer.into()));
        script.inject_connection_established(peer, conn, address, false);
        self.manager.verif_drain();
        script.resolve_accept(conn, true);
        self.manager.verif_drain();
        // accepted <=> the peer is now connected over this connection (with a limit configured
        // the connection is also counted by ConnectionLimits)
        if self.manager.verif_peer_state(&peer) == [4, conn, 0] {
            self.held.push((peer, conn));
            assert!(!self.limited || self.outgoing() == before + 1, "accepted but not counted");
            true
        } else {
            assert!(self.outgoing() == before, "rejected but counted");
            false
        }
    }

    fn release_one(&mut self) {
        if let Some((peer, conn)) = self.held.pop() {
            self.manager.verif_report_closed(peer, conn);
            self.manager.verif_drain();
        }
    }
}

fn dial_code(r: &Result<(), Error>) -> u64 {
    match r {
        Ok(()) => 0,
        Err(Error::ConnectionLimit(_)) => 1,
        Err(Error::TriedToDialSelf) => 2,
        Err(Error::NoAddressAvailable(_)) => 3,
        Err(_) => 99,
    }
}

/// Runs one case against the real code. Returns the case with the implementation's choices
/// (HashSet insertion order, evicted records, order of `addresses(limit)`, address lists given
/// to `open()`) filled in, and the trace. `None` if the case is not well-formed.
fn run_case(rt: &Runtime, w: &World, c: &[u64]) -> Option<(Vec<u64>, Vec<u64>)> {
    let mut r = Reader { c, i: 0 };
    let flags: Vec<u64> = (0..5).map(|_| r.n()).collect::<Option<_>>()?;
    let (fw, fq, et, ew, eq) = (flags[0] != 0, flags[1] != 0, flags[2] != 0, flags[3] != 0, flags[4] != 0);
    if !fw || fq || eq {
        return None;
    }
    let local = r.peer()?;
    let max_out = r.n()?;
    if max_out >= 100 {
        return None;
    }
    let mut case: Vec<u64> = c[..r.i].to_vec();
    let mut manager = TransportManagerBuilder::new()
        .with_keypair(w.keys[local as usize].clone())
        .with_connection_limits_config(ConnectionLimitsConfig::default().max_outgoing_connections(
            if max_out == 0 { None } else { Some(max_out as usize - 1) },
        ))
        .build();
    let tcp = et.then(|| manager.verif_register_scripted_as(SupportedTransport::Tcp));
    let ws = ew.then(|| manager.verif_register_scripted_as(SupportedTransport::WebSocket));
    let mut handle = manager.verif_handle();
    let mut node = Node { manager, tcp, ws, held: Vec::new(), fillers: 0, limited: max_out != 0 };
    let _ = take_evicted();
    let _ = take_add_order();

    let nops = r.count()?;
    case.push(nops as u64);
    let mut out = vec![1u64];
    for _ in 0..nops {
        let tag = r.n()?;
        case.push(tag);
        match tag {
            0 => {
                let peer = r.peer()?;
                let addrs = r.maddrs()?;
                let _ = r.maddrs()?;
                let _ = r.maddrs()?;
                let real: Vec<Multiaddr> = addrs.iter().map(|a| real_of(w, a)).collect::<Option<_>>()?;
                case.push(peer);
                enc_list(&addrs, &mut case);
                let n = handle.add_known_address(&w.peers[peer as usize], real.into_iter());
                let order: Vec<Abs> = take_add_order().iter().map(|a| abs_of(w, a)).collect();
                enc_list(&order, &mut case);
                enc_list(&evicted(w), &mut case);
                out.extend([0, n as u64, 0]);
                dump(&store_of(w, &node.manager, peer), &mut out);
            }
            1 => {
                let a = r.maddr()?;
                let kind = r.n()?;
                let _ = r.maddrs()?;
                let real = real_of(w, &a)?;
                let error = match kind {
                    0 => DialError::Timeout,
                    1 => DialError::AddressError(AddressError::InvalidProtocol),
                    _ => return None,
                };
                enc_abs(&a, &mut case);
                case.push(kind);
                node.manager.verif_update_address_on_dial_failure(real, &error);
                enc_list(&evicted(w), &mut case);
                match a.last() {
                    Some((10, p)) => {
                        out.extend([1, 1, 0]);
                        dump(&store_of(w, &node.manager, *p), &mut out);
                    }
                    _ => out.extend([1, 0]),
                }
            }
            2 => {
                let peer = r.peer()?;
                let a = r.maddr()?;
                let listener = r.n()? != 0;
                let _ = r.maddrs()?;
                let real = real_of(w, &a)?;
                case.push(peer);
                enc_abs(&a, &mut case);
                case.push(listener as u64);
                node.manager.verif_update_address_on_connection_established(
                    w.peers[peer as usize],
                    real,
                    listener,
                );
                enc_list(&evicted(w), &mut case);
                if listener {
                    out.extend([1, 0]);
                } else {
                    out.extend([1, 1, 0]);
                    dump(&store_of(w, &node.manager, peer), &mut out);
                }
            }
            3 => {
                let peer = r.peer()?;
                let limit = r.n()?;
                let _ = r.maddrs()?;
                if limit >= 1000 {
                    return None;
                }
                let got = node.manager.verif_dial_addresses(&w.peers[peer as usize], limit as usize);
                let store = store_of(w, &node.manager, peer);
                let got: Vec<Abs> = got.iter().map(|a| abs_of(w, a)).collect();
                case.extend([peer, limit]);
                enc_list(&got, &mut case);
                out.extend([3, 0, got.len() as u64]);
                for a in &got {
                    let sc = store.iter().find(|(b, _)| b == a).map(|(_, s)| *s).unwrap_or(0);
                    enc_abs(a, &mut out);
                    out.push((sc as i64 + SCORE_BIAS) as u64);
                }
            }
            4 => {
                let a = r.maddr()?;
                let real = real_of(w, &a)?;
                enc_abs(&a, &mut case);
                let sup = handle.supported_transport(&real);
                let rt = match TransportManager::verif_route(&real) {
                    Some(SupportedTransport::Tcp) => 0,
                    Some(SupportedTransport::WebSocket) => 1,
                    // only when the harness is built with its optional `quic` feature (C07's QUIC stream)
                    #[cfg(feature = "quic")]
                    Some(SupportedTransport::Quic) => 2,
                    None => 9,
                };
                out.extend([4, sup as u64, rt]);
                enc_parsed(w, TcpAddress::multiaddr_to_socket_address(&real), &mut out);
                enc_parsed(w, WebSocketAddress::multiaddr_to_socket_address(&real), &mut out);
            }
            5 => {
                let a = r.maddr()?;
                if a.iter().any(|(t, _)| *t == 10) {
                    return None;
                }
                enc_abs(&a, &mut case);
                node.manager.register_listen_address(real_of(w, &a)?);
                out.push(5);
            }
            6 => {
                let n = r.n()?;
                if n >= 9 {
                    return None;
                }
                case.push(n);
                while node.held.len() > n as usize {
                    node.release_one();
                }
                while node.held.len() < n as usize {
                    if !node.hold_one() {
                        break;
                    }
                }
                assert!(!node.limited || node.outgoing() == node.held.len(), "limit counter differs");
                out.extend([6, node.held.len() as u64]);
            }
            7 => {
                let peer = r.peer()?;
                let outcome = r.n()?;
                let _ = r.maddrs()?;
                let _ = r.maddrs()?;
                if outcome >= 1000 {
                    return None;
                }
                case.extend([peer, outcome]);
                let before = store_of(w, &node.manager, peer);
                // harness-side guard (DUnroutable in the model): every stored address names the
                // peer and belongs to an installed transport, otherwise dial(peer) is not called
                let routable = before.iter().all(|(a, _)| {
                    let installed = match TransportManager::verif_route(&real_of(w, a).expect("stored")) {
                        Some(SupportedTransport::Tcp) => et,
                        Some(SupportedTransport::WebSocket) => ew,
                        // only when the harness is built with its optional `quic` feature (C07's QUIC stream)
                        #[cfg(feature = "quic")]
                        Some(SupportedTransport::Quic) => false,
                        None => false,
                        // only when the harness is built with its optional `quic` feature
                        #[cfg(feature = "quic")]
                        Some(SupportedTransport::Quic) => false,
                    };
                    installed && a.last() == Some(&(10, peer))
                });
                if !routable {
                    enc_list(&[], &mut case);
                    enc_list(&[], &mut case);
                    out.extend([7, 8]);
                    continue;
                }
                let res = rt.block_on(node.manager.dial(w.peers[peer as usize]));
                let code = dial_code(&res);
                if code != 0 {
                    enc_list(&[], &mut case);
                    enc_list(&[], &mut case);
                    out.extend([7, code]);
                    continue;
                }
                let mut lists: Vec<(Option<usize>, Vec<Multiaddr>)> = Vec::new();
                for script in [&node.tcp, &node.ws] {
                    let mut opened = script.as_ref().map(|s| s.take_opened()).unwrap_or_default();
                    assert!(opened.len() <= 1, "one open() per transport and dial");
                    match opened.pop() {
                        Some((conn, l)) => lists.push((Some(conn), l)),
                        None => lists.push((None, Vec::new())),
                    }
                }
                let abs: Vec<Vec<Abs>> =
                    lists.iter().map(|(_, l)| l.iter().map(|a| abs_of(w, a)).collect()).collect();
                enc_list(&abs[0], &mut case);
                enc_list(&abs[1], &mut case);
                out.extend([7, 0]);
                for l in &abs {
                    out.push(l.len() as u64);
                    for a in l {
                        let sc = before.iter().find(|(b, _)| b == a).map(|(_, s)| *s).unwrap_or(0);
                        enc_abs(a, &mut out);
                        out.push((sc as i64 + SCORE_BIAS) as u64);
                    }
                }
                // the outcome of the attempt
                let scripts = [node.tcp.clone(), node.ws.clone()];
                let total = lists[0].1.len() + lists[1].1.len();
                assert!(total > 0, "dial() returned Ok without opening anything");
                if outcome == 0 {
                    for (i, (conn, l)) in lists.iter().enumerate() {
                        if let (Some(conn), Some(script)) = (conn, &scripts[i]) {
                            script.inject_open_failure(*conn, l.clone());
                        }
                    }
                    node.manager.verif_drain();
                } else {
                    let j = (outcome as usize - 1) % total;
                    let (i, pos) = if j < lists[0].1.len() { (0, j) } else { (1, j - lists[0].1.len()) };
                    let (conn, l) = (lists[i].0.expect("opened"), &lists[i].1);
                    let script = scripts[i].clone().expect("installed");
                    script.inject_connection_opened_with_errors(conn, l[pos].clone(), l[..pos].to_vec());
                    node.manager.verif_drain();
                    script.inject_connection_established(w.peers[peer as usize], conn, l[pos].clone(), false);
                    node.manager.verif_drain();
                    script.resolve_accept(conn, true);
                    node.manager.verif_drain();
                    node.manager.verif_report_closed(w.peers[peer as usize], conn);
                    node.manager.verif_drain();
                }
                let state = node.manager.verif_peer_state(&w.peers[peer as usize]);
                assert!(state[0] == 0, "peer not disconnected after the dial episode: {state:?}");
                assert!(evicted(w).is_empty(), "a dial outcome evicted a record");
                dump(&store_of(w, &node.manager, peer), &mut out);
            }
            _ => return None,
        }
    }
    if r.i != c.len() {
        return None;
    }
    Some((case, out))
}

// ---------------------------------------------------------------- generator

struct Gen<'a> {
    rng: &'a mut Rng,
    ports: [u64; 3],
    /// addresses already produced for a peer (candidates for dial results and rediscovery)
    known: Vec<Vec<Abs>>,
    seq: u64,
    en_tcp: bool,
    en_ws: bool,
}

impl<'a> Gen<'a> {
    fn host(&mut self, allow_unspec: bool) -> Comp {
        let id = if self.rng.chance(70) { self.rng.below(4) } else { self.rng.below(300) };
        match self.rng.below(100) {
            0..=44 => {
                let class = match self.rng.below(100) {
                    0..=7 if allow_unspec => 0,
                    0..=24 => 1,
                    25..=59 => 2,
                    _ => 3,
                };
                (0, class * 65536 + if class == 0 { 0 } else { id })
            }
            45..=69 => {
                let class = match self.rng.below(100) {
                    0..=7 if allow_unspec => 0,
                    0..=24 => 1,
                    25..=59 => 2,
                    _ => 3,
                };
                (1, class * 65536 + if class <= 1 { 0 } else { id })
            }
            70..=79 => (2, id),
            80..=89 => (3, id),
            _ => (4, id),
        }
    }

    fn port(&mut self) -> u64 {
        if self.rng.chance(60) {
            self.rng.pick(&self.ports)
        } else {
            self.rng.range(1, 65535)
        }
    }

    fn any_comp(&mut self) -> Comp {
        match self.rng.below(12) {
            0 | 1 | 2 => self.host(true),
            3 => (5, self.port()),
            4 => (6, self.port()),
            5 => (7, 0),
            6 => (8, 0),
            7 => (9, 0),
            8 | 9 => (10, self.rng.below(NPEERS)),
            _ => (11, self.rng.below(NOTHER)),
        }
    }

    /// a fresh, well-formed dialable address of `peer` (distinct ids: fills a store)
    fn fresh(&mut self, peer: u64) -> Abs {
        self.seq += 1;
        let id = 1000 + self.seq;
        let host = match self.rng.below(6) {
            0 => (0, 65536 + id),
            1 | 2 => (0, 2 * 65536 + id),
            3 => (0, 3 * 65536 + id),
            4 => (1, 3 * 65536 + id),
            _ => (2, id),
        };
        let mut a = vec![host, (5, self.rng.range(1000, 2000))];
        let ws = if self.en_tcp && self.en_ws { self.rng.chance(30) } else { self.en_ws };
        if ws {
            a.push(if self.rng.chance(70) { (7, 0) } else { (8, 0) });
        }
        a.push((10, peer));
        a
    }

    /// an address of `peer` that is (or was) plausibly in its store
    fn known_or_fresh(&mut self, peer: u64) -> Abs {
        if !self.known[peer as usize].is_empty() && self.rng.chance(85) {
            let k = &self.known[peer as usize];
            k[self.rng.below(k.len() as u64) as usize].clone()
        } else {
            self.fresh(peer)
        }
    }

    fn addr(&mut self, peer: u64) -> Abs {
        let r = self.rng.below(100);
        if r < 12 && !self.known[peer as usize].is_empty() {
            let k = &self.known[peer as usize];
            return k[self.rng.below(k.len() as u64) as usize].clone();
        }
        if r < 30 {
            return self.fresh(peer);
        }
        if r < 38 {
            let n = self.rng.below(6);
            return (0..n).map(|_| self.any_comp()).collect();
        }
        let mut a = vec![self.host(true)];
        match self.rng.below(100) {
            0..=54 => a.push((5, self.port())),
            55..=74 => a.extend([(5, self.port()), (7, 0)]),
            75..=84 => a.extend([(5, self.port()), (8, 0)]),
            85..=94 => a.extend([(6, self.port()), (9, 0)]),
            _ => a.push((6, self.port())),
        }
        match self.rng.below(100) {
            0..=71 => a.push((10, peer)),
            72..=81 => a.push((10, self.rng.below(NPEERS))),
            82..=89 => {}
            90..=94 => a.extend([(10, peer), (10, peer)]),
            _ => a.extend([(10, self.rng.below(NPEERS)), (10, peer)]),
        }
        // structural mutations
        if self.rng.chance(12) && !a.is_empty() {
            let i = self.rng.below(a.len() as u64 + 1) as usize;
            let c = self.any_comp();
            a.insert(i, c);
        }
        if self.rng.chance(6) && a.len() > 1 {
            let i = self.rng.below(a.len() as u64) as usize;
            a.remove(i);
        }
        if self.rng.chance(5) && a.len() > 1 {
            let i = self.rng.below(a.len() as u64 - 1) as usize;
            a.swap(i, i + 1);
        }
        a.truncate(MAXCOMPS);
        a
    }

    fn listen_addr(&mut self) -> Abs {
        let mut l = vec![self.host(true)];
        match self.rng.below(10) {
            0..=5 => l.push((5, self.port())),
            6 | 7 => l.extend([(5, self.port()), (7, 0)]),
            8 => l.extend([(6, self.port()), (9, 0)]),
            _ => {}
        }
        l
    }

    fn remember(&mut self, peer: u64, a: &Abs) {
        let k = &mut self.known[peer as usize];
        if k.len() < 200 {
            k.push(a.clone());
        }
    }
}

fn gen_case(rng: &mut Rng, index: u64, thorough: bool) -> Vec<u64> {
    let ports = [30, 31, rng.range(1, 65535)];
    let en_tcp = rng.chance(90);
    let en_ws = rng.chance(65);
    let mut g = Gen { rng, ports, known: vec![Vec::new(); NPEERS as usize], seq: 0, en_tcp, en_ws };
    let local = g.rng.below(4);
    // max_outgoing_connections: none, or 0..=8 (encoded +1)
    let max_out = if g.rng.chance(30) { 0 } else { 1 + g.rng.pick(&[0u64, 1, 2, 3, 3, 5, 8, 8]) };
    let mut c = vec![1, 0, en_tcp as u64, en_ws as u64, 0, local, max_out];
    let small = index < 30;
    // "fill" cases concentrate on one peer so that the bound of 64 is crossed
    let fill = !small && g.rng.chance(50);
    // "clean" cases keep dial results on addresses taken from the peer's own offers, so that
    // dial(peer) is not skipped for an unroutable store
    let clean = g.rng.chance(60);
    let nops = if small {
        g.rng.range(6, 16)
    } else if fill {
        if thorough { g.rng.range(120, 400) } else { g.rng.range(100, 220) }
    } else if thorough {
        g.rng.range(50, 400)
    } else {
        g.rng.range(30, 120)
    };
    let npeers = if fill { 2 } else { g.rng.range(1, 5) };
    let focus = g.rng.range(1, NPEERS - 1);
    let nlisten = g.rng.pick(&[0u64, 1, 1, 2, 3]);
    c.push(nops + nlisten);
    for _ in 0..nlisten {
        let l = g.listen_addr();
        c.push(5);
        enc_abs(&l, &mut c);
    }
    for _ in 0..nops {
        let peer = if fill && g.rng.chance(90) { focus } else { (focus + g.rng.below(npeers)) % NPEERS };
        let r = g.rng.below(100);
        let add_single = if fill { 40 } else { 30 };
        if r < add_single {
            let a = if (fill && g.rng.chance(70)) || (clean && g.rng.chance(50)) { g.fresh(peer) } else { g.addr(peer) };
            g.remember(peer, &a);
            c.extend([0, peer, 1]);
            enc_abs(&a, &mut c);
            c.extend([0, 0]);
        } else if r < add_single + 12 {
            // several addresses in one call (evictions included: the insertion order is observed)
            let n = g.rng.range(2, 6);
            c.extend([0, peer, n]);
            let mut prev: Option<Abs> = None;
            for _ in 0..n {
                let a = match &prev {
                    Some(p) if g.rng.chance(20) => p.clone(),
                    _ if fill && g.rng.chance(60) => g.fresh(peer),
                    _ => g.addr(peer),
                };
                g.remember(peer, &a);
                enc_abs(&a, &mut c);
                prev = Some(a);
            }
            c.extend([0, 0]);
        } else if r < add_single + 22 {
            let a = if clean { g.known_or_fresh(peer) } else { g.addr(peer) };
            c.push(1);
            enc_abs(&a, &mut c);
            c.extend([g.rng.chance(25) as u64, 0]);
        } else if r < add_single + 30 {
            let a = if clean { g.known_or_fresh(peer) } else { g.addr(peer) };
            c.extend([2, peer]);
            enc_abs(&a, &mut c);
            c.extend([g.rng.chance(15) as u64, 0]);
        } else if r < add_single + 36 {
            let limit = g.rng.pick(&[0u64, 1, 2, 3, 5, 8, 63, 64, 100]);
            c.extend([3, peer, limit, 0]);
        } else if r < add_single + 42 {
            let a = g.addr(peer);
            c.push(4);
            enc_abs(&a, &mut c);
        } else if r < add_single + 44 {
            let l = g.listen_addr();
            c.push(5);
            enc_abs(&l, &mut c);
        } else if r < add_single + 49 {
            c.extend([6, g.rng.below(9)]);
        } else {
            // dial(peer): half of the attempts fail completely, the others succeed somewhere
            let outcome = if g.rng.chance(50) { 0 } else { g.rng.range(1, 200) };
            let p = if g.rng.chance(4) { g.rng.below(NPEERS) } else { peer };
            c.extend([7, p, outcome, 0, 0]);
        }
    }
    c
}

pub fn main(args: &Args) {
    let seed = args.u64("seed", 1);
    let ncases = args.u64("cases", 100);
    let thorough = args.str("tier") == Some("thorough");
    let mut out = Outputs::open(args);
    let rt = tokio::runtime::Builder::new_current_thread().enable_all().build().unwrap();
    let _g = rt.enter();
    let mut rng = Rng::new(seed);
    let w = World::new();

    let run = |c: &[u64]| -> (Vec<u64>, Vec<u64>) {
        match catch_unwind(AssertUnwindSafe(|| run_case(&rt, &w, c))) {
            Ok(Some((case, trace))) => (case, trace),
            Ok(None) => (c.to_vec(), vec![0]),
            Err(_) => (c.to_vec(), vec![PANIC_MARK]),
        }
    };

    let mut stored: Vec<Vec<u64>> = Vec::new();
    if let Some(r) = args.str("replay") {
        stored = read_cases(Path::new(r));
    } else if let Some(d) = args.str("corpus") {
        stored = read_cases(Path::new(d));
    }
    for c in stored.iter() {
        // the implementation's choices stored with a case are replaced by this run's
        let (case, t) = run(c);
        out.emit(&case, &t);
    }
    if args.str("replay").is_some() {
        return;
    }
    for i in 0..ncases {
        let mut r = rng.fork();
        let c = gen_case(&mut r, i, thorough);
        let (case, t) = run(&c);
        out.emit(&case, &t);
    }
}
