//! C08 / C09, several services (case kind 5, format: coq/Ts/GlueMulti.v): 2-3 real
//! `TransportService`s with different keep-alive flags and timeouts share real `ProtocolSet`s
//! (one per connection, command channel of a small capacity) and one substream-id counter.
//! `report_connection_established` hands every service its clone of the real `ConnectionHandle`
//! (and downgrades the ProtocolSet's own), the harness plays the connection task: it takes the
//! commands with `ProtocolSet::next()`, holds their permits, answers them through
//! `report_substream_open(_failure)`, and observes through a weak probe whether the command
//! channel still has a strong sender. After every op all services are polled to quiescence.
use crate::util::*;
use futures::StreamExt;
use litep2p::{
    error::SubstreamError,
    protocol::{
        verif::{ProtocolCommand, ProtocolContext, ProtocolSet, TransportManagerEvent, VerifAliveProbe, VerifPermit, VerifService, VerifServiceEvent},
        Direction,
    },
    substream::Substream,
    transport::Endpoint,
    types::{protocol::ProtocolName, ConnectionId, SubstreamId},
    PeerId,
};
use multiaddr::Multiaddr;
use std::{
    collections::{BTreeMap, HashMap, HashSet},
    panic::{catch_unwind, AssertUnwindSafe},
    sync::{
        atomic::{AtomicBool, AtomicUsize, Ordering},
        Arc,
    },
    task::{Context, Poll, Wake, Waker},
    time::{Duration, Instant},
};
use tokio::sync::mpsc;

pub const UNTIMED_T: u64 = 3_600_000;
const JITTER_MS: u64 = 45;

struct Flag(AtomicBool);
impl Wake for Flag {
    fn wake(self: Arc<Self>) {
        self.0.store(true, Ordering::SeqCst);
    }
    fn wake_by_ref(self: &Arc<Self>) {
        self.0.store(true, Ordering::SeqCst);
    }
}

struct World {
    svcs: Vec<VerifService>,
    kas: Vec<bool>,
    names: Vec<ProtocolName>,
    fallbacks: Vec<ProtocolName>,
    table: HashMap<ProtocolName, ProtocolContext>,
    counter: Arc<AtomicUsize>,
    cap: usize,
    mgr_tx: mpsc::Sender<TransportManagerEvent>,
    mgr_rx: mpsc::Receiver<TransportManagerEvent>,
    peers: HashMap<u64, PeerId>,
    rev: HashMap<PeerId, u64>,
    peer_of: BTreeMap<u64, u64>,
    sets: BTreeMap<u64, ProtocolSet>,
    probes: BTreeMap<u64, VerifAliveProbe>,
    /// commands taken by the connection task: (service, id) -> (connection, permit, keep_alive of the command)
    flight: BTreeMap<(usize, u64), (u64, VerifPermit, bool)>,
    subs: BTreeMap<(usize, u64), Vec<Substream>>,
    /// generator's view: open connections in establishment order, ids returned and not yet answered
    live: Vec<(u64, u64)>,
    returned: Vec<(usize, u64)>,
    next_conn: u64,
    flag: Arc<Flag>,
    waker: Waker,
}

impl World {
    fn new(cap: usize, cfg: &[(bool, u64)], n0: u64) -> World {
        let counter = Arc::new(AtomicUsize::new(n0 as usize));
        let mut svcs = Vec::new();
        let mut names = Vec::new();
        let mut fallbacks = Vec::new();
        let mut table = HashMap::new();
        for (i, (ka, t)) in cfg.iter().enumerate() {
            let svc = VerifService::new_shared(Duration::from_millis(*t), *ka, counter.clone(), 64, i);
            let (name, ctx) = svc.protocol_entry();
            names.push(name.clone());
            fallbacks.push(svc.fallback_name());
            table.insert(name, ctx);
            svcs.push(svc);
        }
        let (mgr_tx, mgr_rx) = mpsc::channel(4096);
        let flag = Arc::new(Flag(AtomicBool::new(false)));
        World {
            svcs,
            kas: cfg.iter().map(|x| x.0).collect(),
            names,
            fallbacks,
            table,
            counter,
            cap,
            mgr_tx,
            mgr_rx,
            peers: HashMap::new(),
            rev: HashMap::new(),
            peer_of: BTreeMap::new(),
            sets: BTreeMap::new(),
            probes: BTreeMap::new(),
            flight: BTreeMap::new(),
            subs: BTreeMap::new(),
            live: Vec::new(),
            returned: Vec::new(),
            next_conn: 1,
            waker: Waker::from(flag.clone()),
            flag,
        }
    }

    fn peer(&mut self, p: u64) -> PeerId {
        if let Some(x) = self.peers.get(&p) {
            return *x;
        }
        let id = PeerId::random();
        self.peers.insert(p, id);
        self.rev.insert(id, p);
        id
    }

    fn pidx(&self, p: &PeerId) -> u64 {
        self.rev.get(p).copied().unwrap_or(999_999)
    }

    fn flags(&self, j: usize) -> BTreeMap<(u64, u64), bool> {
        let mut m = BTreeMap::new();
        for (p, prim, sec) in self.svcs[j].contexts() {
            let pi = self.pidx(&p);
            m.insert((pi, prim.0 as u64), prim.1);
            if let Some(s) = sec {
                m.insert((pi, s.0 as u64), s.1);
            }
        }
        m
    }

    /// Poll every service, in order, until it is pending and nobody asked for another poll.
    fn poll_all(&mut self, conn_of_sub: Option<(usize, u64)>, outs: &mut [Vec<[u64; 3]>]) {
        for j in 0..self.svcs.len() {
            for _ in 0..10_000 {
                self.flag.0.store(false, Ordering::SeqCst);
                let mut cx = Context::from_waker(&self.waker);
                let svc = &mut self.svcs[j];
                let r = catch_unwind(AssertUnwindSafe(|| svc.poll_event(&mut cx)));
                match r {
                    Err(_) => {
                        outs[j].push([8, 0, 0]);
                        continue;
                    }
                    Ok(Poll::Ready(None)) => break,
                    Ok(Poll::Ready(Some(ev))) => match ev {
                        VerifServiceEvent::ConnectionEstablished(p) => outs[j].push([1, self.pidx(&p), 0]),
                        VerifServiceEvent::ConnectionClosed(p) => outs[j].push([2, self.pidx(&p), 0]),
                        VerifServiceEvent::SubstreamOpened(p, dir, sub) => {
                            outs[j].push([3, self.pidx(&p), dir.map(|d| d as u64 + 1).unwrap_or(0)]);
                            match conn_of_sub {
                                Some((i, c)) if i == j && self.kas[j] => self.subs.entry((j, c)).or_default().push(sub),
                                _ => drop(sub),
                            }
                        }
                        VerifServiceEvent::SubstreamOpenFailure(id) => outs[j].push([4, id as u64, 0]),
                        VerifServiceEvent::DialFailure(p) => outs[j].push([5, self.pidx(&p), 0]),
                    },
                    Ok(Poll::Pending) =>
                        if !self.flag.0.load(Ordering::SeqCst) {
                            break;
                        },
                }
            }
        }
    }

    fn dump(&self, out: &mut Vec<u64>) {
        for svc in &self.svcs {
            let mut cs: Vec<[u64; 6]> = svc
                .contexts()
                .into_iter()
                .map(|(p, prim, sec)| {
                    let (h, s, sa) = match sec {
                        Some((c, a)) => (1, c as u64, a as u64),
                        None => (0, 0, 0),
                    };
                    [self.pidx(&p), prim.0 as u64, prim.1 as u64, h, s, sa]
                })
                .collect();
            cs.sort();
            out.push(cs.len() as u64);
            for c in cs {
                out.extend(c);
            }
            let mut tk: Vec<(u64, u64)> = svc.tracked().into_iter().map(|(p, c)| (self.pidx(&p), c as u64)).collect();
            tk.sort();
            out.push(tk.len() as u64);
            for (p, c) in tk {
                out.extend([p, c]);
            }
            out.push(svc.armed_timers() as u64);
        }
        out.push(self.counter.load(Ordering::Relaxed) as u64);
        out.push(self.probes.len() as u64);
        for (c, probe) in &self.probes {
            out.extend([*c, probe.alive() as u64]);
        }
    }

    /// One op (without the clock part): per-service outputs and the result of next().
    async fn apply(&mut self, op: &[u64]) -> (Vec<Vec<[u64; 3]>>, [u64; 3]) {
        let n = self.svcs.len();
        let mut outs: Vec<Vec<[u64; 3]>> = vec![Vec::new(); n];
        let mut nres = [0u64; 3];
        let before: Vec<_> = (0..n).map(|j| self.flags(j)).collect();
        let mut conn_of_sub = None;
        match op[1] {
            1 => {
                let (p, c) = (op[2], op[3]);
                let peer = self.peer(p);
                let mut set = ProtocolSet::verif_new_with_capacity(
                    ConnectionId::from(c as usize),
                    self.mgr_tx.clone(),
                    self.counter.clone(),
                    self.table.clone(),
                    self.cap,
                );
                self.probes.insert(c, set.verif_alive_probe());
                self.peer_of.insert(c, p);
                let _ = set
                    .verif_report_connection_established(
                        peer,
                        Endpoint::Listener { address: Multiaddr::empty(), connection_id: ConnectionId::from(c as usize) },
                    )
                    .await;
                self.sets.insert(c, set);
                self.live.push((p, c));
            }
            2 => {
                let (p, c) = (op[2], op[3]);
                let peer = self.peer(p);
                if let Some(mut set) = self.sets.remove(&c) {
                    let _ = set.verif_report_connection_closed(peer, ConnectionId::from(c as usize)).await;
                    drop(set);
                }
                self.flight.retain(|_, v| v.0 != c);
                self.live.retain(|k| *k != (p, c));
                self.returned.clear();
            }
            3 => {
                // what tcp/connection.rs does for an inbound yamux stream: a permit, the table of
                // negotiable names with their keep-alive flags (built by ProtocolSet::new), the
                // negotiated name (main or fallback) decides whether the substream keeps a permit
                let (i, p, c, m) = (op[2] as usize, op[3], op[4], op[5] != 0);
                let peer = self.peer(p);
                let permit = self.sets.get_mut(&c).and_then(|s| s.try_get_permit());
                match permit {
                    Some(permit) => {
                        let name = if m { self.names[i].clone() } else { self.fallbacks[i].clone() };
                        let table = self.sets.get(&c).unwrap().protocols_with_keep_alives();
                        let keep = table.get(&name).map(|k| *k == litep2p::protocol::SubstreamKeepAlive::Yes).unwrap_or(false);
                        let lifetime = if keep { Some(permit.clone()) } else { None };
                        let sub = self.svcs[i].make_substream(peer, 0, lifetime);
                        let set = self.sets.get_mut(&c).unwrap();
                        let _ = set.report_substream_open(peer, name, Direction::Inbound, sub, permit).await;
                        conn_of_sub = Some((i, c));
                    }
                    None => outs[i].push([9, 0, 0]),
                }
            }
            4 => {
                // an outbound substream keeps a permit iff the OpenSubstream command said keep_alive
                let (i, id, m) = (op[2] as usize, op[3], op[4] != 0);
                match self.flight.remove(&(i, id)) {
                    Some((c, permit, keep)) if self.sets.contains_key(&c) => {
                        let p = self.peer_of.get(&c).copied().unwrap_or(0);
                        let peer = self.peer(p);
                        let lifetime = if keep { Some(permit.clone()) } else { None };
                        let sub = self.svcs[i].make_substream(peer, id as usize, lifetime);
                        let name = if m { self.names[i].clone() } else { self.fallbacks[i].clone() };
                        let set = self.sets.get_mut(&c).unwrap();
                        let _ = set
                            .report_substream_open(peer, name, Direction::Outbound(SubstreamId::from(id as usize)), sub, permit)
                            .await;
                        conn_of_sub = Some((i, c));
                    }
                    _ => outs[i].push([9, 0, 0]),
                }
            }
            5 => {
                let (i, id) = (op[2] as usize, op[3]);
                match self.flight.remove(&(i, id)) {
                    Some((c, _permit, _)) if self.sets.contains_key(&c) => {
                        let name = self.names[i].clone();
                        let set = self.sets.get_mut(&c).unwrap();
                        let _ = set
                            .report_substream_open_failure(name, SubstreamId::from(id as usize), SubstreamError::ConnectionClosed)
                            .await;
                    }
                    _ => outs[i].push([9, 0, 0]),
                }
            }
            6 => {
                let peer = self.peer(op[3]);
                self.svcs[op[2] as usize].inject_dial_failure(peer);
            }
            7 => {
                let i = op[2] as usize;
                let peer = self.peer(op[3]);
                let svc = &mut self.svcs[i];
                match catch_unwind(AssertUnwindSafe(|| svc.open_substream(peer))) {
                    Ok(Ok(id)) => {
                        outs[i].push([6, 0, id as u64]);
                        self.returned.push((i, id as u64));
                    }
                    Ok(Err(r)) => outs[i].push([6, r.min(4) as u64, 0]),
                    Err(_) => outs[i].push([8, 0, 0]),
                }
            }
            8 => match self.subs.get_mut(&(op[2] as usize, op[3])) {
                Some(v) if !v.is_empty() => drop(v.pop()),
                _ => outs[op[2] as usize].push([9, 0, 0]),
            },
            12 => match self.subs.get_mut(&(op[2] as usize, op[3])) {
                Some(v) if !v.is_empty() => {
                    let waker = self.waker.clone();
                    let mut cx = Context::from_waker(&waker);
                    let sub = v.last_mut().unwrap();
                    for _ in 0..1000 {
                        let r = catch_unwind(AssertUnwindSafe(|| {
                            tokio::io::AsyncWrite::poll_shutdown(std::pin::Pin::new(&mut *sub), &mut cx)
                        }));
                        match r {
                            Ok(Poll::Pending) => continue,
                            Ok(Poll::Ready(_)) => break,
                            Err(_) => {
                                outs[op[2] as usize].push([8, 0, 0]);
                                break;
                            }
                        }
                    }
                }
                _ => outs[op[2] as usize].push([9, 0, 0]),
            },
            14 => {
                let i = op[2] as usize;
                let peer = self.peer(op[3]);
                let svc = &mut self.svcs[i];
                match catch_unwind(AssertUnwindSafe(|| svc.force_close(peer))) {
                    Ok(r) => outs[i].push([12, r as u64, 0]),
                    Err(_) => outs[i].push([8, 0, 0]),
                }
            }
            _ => {}
        }
        self.poll_all(conn_of_sub, &mut outs);
        while self.mgr_rx.try_recv().is_ok() {}
        if op[1] == 15 {
            let c = op[2];
            nres = match self.sets.get_mut(&c) {
                None => [5, 0, 0],
                Some(set) => match futures::poll!(set.next()) {
                    Poll::Ready(Some(ProtocolCommand::OpenSubstream { substream_id, permit, protocol, keep_alive, .. })) => {
                        let id = substream_id.verif_as_usize() as u64;
                        let i = self.names.iter().position(|n| *n == protocol).unwrap_or(99);
                        self.flight.insert((i, id), (c, permit, keep_alive == litep2p::protocol::SubstreamKeepAlive::Yes));
                        self.returned.retain(|x| *x != (i, id));
                        [1, i as u64, id]
                    }
                    Poll::Ready(Some(ProtocolCommand::ForceClose)) => [2, 0, 0],
                    Poll::Ready(None) => [3, 0, 0],
                    Poll::Pending => [4, 0, 0],
                },
            };
        }
        // Active -> Inactive flips, per service
        for j in 0..n {
            let after = self.flags(j);
            for (k, a) in &after {
                if !*a && before[j].get(k) == Some(&true) {
                    outs[j].push([10, k.0, k.1]);
                }
            }
        }
        (outs, nres)
    }
}

fn op_len(tag: u64) -> Option<usize> {
    Some(match tag {
        0 => 0,
        1 | 2 => 2,
        3 => 4,
        4 => 3,
        5..=8 | 12 | 14 => 2,
        15 => 1,
        _ => return None,
    })
}

/// Same well-formedness as `decode_mcase` in coq/Ts/GlueMulti.v.
#[allow(clippy::type_complexity)]
pub fn parse(c: &[u64]) -> Option<(usize, Vec<(bool, u64)>, u64, Vec<Vec<u64>>)> {
    if c.len() < 5 || c[0] != 5 {
        return None;
    }
    let (cap, n) = (c[1], c[2] as usize);
    if cap == 0 || cap >= 1000 || n == 0 || n >= 9 || c.len() < 3 + 2 * n + 2 {
        return None;
    }
    let mut cfg = Vec::new();
    for j in 0..n {
        let t = c[4 + 2 * j];
        if t == 0 || t >= 100_000_000 {
            return None;
        }
        cfg.push((c[3 + 2 * j] != 0, t));
    }
    let mut i = 3 + 2 * n;
    let n0 = c[i];
    let nops = c[i + 1] as usize;
    i += 2;
    if n0 >= 1_000_000 || nops > c.len() {
        return None;
    }
    let mut ops = Vec::new();
    let mut live: Vec<(u64, u64)> = Vec::new();
    let mut used: HashSet<u64> = HashSet::new();
    for _ in 0..nops {
        let dt = *c.get(i)?;
        let tag = *c.get(i + 1)?;
        let len = op_len(tag)?;
        if i + 2 + len > c.len() || dt >= 100_000_000 {
            return None;
        }
        let op: Vec<u64> = c[i..i + 2 + len].to_vec();
        let svc_op = matches!(tag, 3..=8 | 12 | 14);
        for (j, x) in op[2..].iter().enumerate() {
            if svc_op && j == 0 {
                if *x >= n as u64 {
                    return None;
                }
            } else if *x >= 1_000_000 {
                return None;
            }
        }
        match tag {
            1 => {
                if !used.insert(op[3]) {
                    return None;
                }
                live.push((op[2], op[3]));
            }
            2 => {
                if !live.contains(&(op[2], op[3])) {
                    return None;
                }
                live.retain(|k| *k != (op[2], op[3]));
            }
            _ => {}
        }
        ops.push(op);
        i += 2 + len;
    }
    if i != c.len() {
        return None;
    }
    Some((cap as usize, cfg, n0, ops))
}

pub struct Gen {
    /// scripted ops played first (directed scenarios: both connections of a peer, promotion)
    pub script: Vec<Vec<u64>>,
    pub rng: Rng,
    pub timed: bool,
    pub third: bool,
    pub npeers: u64,
    pub nops: usize,
    pub nsvc: u64,
    pub elapsed: u64,
    pub burst: u64,
}

impl Gen {
    fn next(&mut self, w: &mut World) -> Vec<u64> {
        if !self.script.is_empty() {
            let op = self.script.remove(0);
            self.elapsed += op[0];
            if op[1] == 1 {
                w.next_conn = w.next_conn.max(op[3] + 1);
            }
            return op;
        }
        let r = &mut self.rng;
        let dt = if self.timed && self.elapsed < 3200 { r.pick(&[0u64, 0, 200, 200, 200, 400, 600]) } else { 0 };
        self.elapsed += dt;
        let p = r.below(self.npeers);
        let i = r.below(self.nsvc);
        let live_p: Vec<u64> = w.live.iter().filter(|k| k.0 == p).map(|k| k.1).collect();
        let any_live = w.live.clone();
        let flight: Vec<(usize, u64)> = w.flight.keys().copied().collect();
        if self.burst > 0 {
            // a burst of opens without the connection task taking anything: fills the command channel
            self.burst -= 1;
            return vec![dt, 7, i, p];
        }
        for _ in 0..20 {
            let x = r.below(100);
            let op: Option<Vec<u64>> = match x {
                0..=13 => {
                    let cap = if self.third { 3 } else { 2 };
                    if live_p.len() < cap {
                        let c = w.next_conn;
                        w.next_conn += 1;
                        Some(vec![dt, 1, p, c])
                    } else {
                        None
                    }
                }
                14..=22 => any_live.get(r.below(any_live.len().max(1) as u64) as usize).map(|k| vec![dt, 2, k.0, k.1]),
                23..=30 => {
                    let m = r.chance(50) as u64;
                    any_live.get(r.below(any_live.len().max(1) as u64) as usize).map(|k| vec![dt, 3, i, k.0, k.1, m])
                }
                31..=42 => {
                    let m = r.chance(60) as u64;
                    flight.get(r.below(flight.len().max(1) as u64) as usize).map(|k| vec![dt, 4, k.0 as u64, k.1, m])
                }
                43..=48 => flight.get(r.below(flight.len().max(1) as u64) as usize).map(|k| vec![dt, 5, k.0 as u64, k.1]),
                49 => Some(vec![dt, 6, i, p]),
                50..=64 => Some(vec![dt, 7, i, p]),
                65 =>
                    if !self.timed && w.cap <= 4 {
                        self.burst = w.cap as u64 + 1;
                        Some(vec![dt, 7, i, p])
                    } else {
                        None
                    },
                66..=70 => {
                    let held: Vec<(usize, u64)> = w.subs.iter().filter(|(_, v)| !v.is_empty()).map(|(k, _)| *k).collect();
                    held.get(r.below(held.len().max(1) as u64) as usize).map(|k| vec![dt, 8, k.0 as u64, k.1])
                }
                71..=72 => {
                    let held: Vec<(usize, u64)> = w.subs.iter().filter(|(_, v)| !v.is_empty()).map(|(k, _)| *k).collect();
                    held.get(r.below(held.len().max(1) as u64) as usize).map(|k| vec![dt, 12, k.0 as u64, k.1])
                }
                73..=74 => Some(vec![dt, 14, i, p]),
                75..=92 => {
                    // the connection task takes a command (prefer a connection with something returned and not yet taken)
                    let cs: Vec<u64> = if w.probes.is_empty() { Vec::new() } else { w.probes.keys().copied().collect() };
                    let livec: Vec<u64> = any_live.iter().map(|k| k.1).collect();
                    let pool = if !livec.is_empty() && r.chance(90) { livec } else { cs };
                    pool.get(r.below(pool.len().max(1) as u64) as usize).map(|c| vec![dt, 15, *c])
                }
                93..=94 => Some(vec![dt, 4, i, r.below(12), 1]),
                _ => Some(vec![dt, 0]),
            };
            if let Some(op) = op {
                return op;
            }
        }
        vec![dt, 0]
    }
}

pub enum Src<'a> {
    Fixed(&'a [Vec<u64>]),
    Gen(Gen),
}

/// Runs one case; returns (case, trace, timing was within tolerance).
pub async fn exec(cap: usize, cfg: &[(bool, u64)], n0: u64, mut src: Src<'_>) -> (Vec<u64>, Vec<u64>, bool) {
    let mut w = World::new(cap, cfg, n0);
    let timed_cfg = cfg.iter().any(|x| x.1 != UNTIMED_T);
    let mut case_ops: Vec<u64> = Vec::new();
    let mut trace = vec![5u64];
    let mut ok_time = true;
    let n = match &src {
        Src::Fixed(ops) => ops.len(),
        Src::Gen(g) => g.nops,
    };
    let start = Instant::now();
    let mut logical = 0u64;
    for k in 0..n {
        let op: Vec<u64> = match &mut src {
            Src::Fixed(ops) => ops[k].clone(),
            Src::Gen(g) => g.next(&mut w),
        };
        if op[0] > 0 {
            logical += op[0];
            tokio::time::sleep_until(tokio::time::Instant::from_std(start + Duration::from_millis(logical))).await;
        }
        let timed = logical > 0 || timed_cfg;
        if timed {
            let real = start.elapsed().as_millis() as u64;
            if real + 2 < logical || real > logical + JITTER_MS {
                ok_time = false;
            }
        }
        let (outs, nres) = w.apply(&op).await;
        if timed {
            let real = start.elapsed().as_millis() as u64;
            if real > logical + JITTER_MS {
                ok_time = false;
            }
        }
        case_ops.extend(&op);
        for os in &outs {
            trace.push(os.len() as u64);
            for o in os.iter().filter(|o| o[0] != 10) {
                trace.extend(o);
            }
            for o in os.iter().filter(|o| o[0] == 10) {
                trace.extend(o);
            }
        }
        trace.extend(nres);
        w.dump(&mut trace);
    }
    let mut case = vec![5, cap as u64, cfg.len() as u64];
    for (ka, t) in cfg {
        case.extend([*ka as u64, *t]);
    }
    case.extend([n0, n as u64]);
    case.extend(case_ops);
    (case, trace, ok_time)
}

pub fn run_stored(rt: &tokio::runtime::Runtime, c: &[u64]) -> Vec<u64> {
    let Some((cap, cfg, n0, ops)) = parse(c) else { return vec![0] };
    let mut last = vec![0];
    for _ in 0..6 {
        let (_, tr, ok) = rt.block_on(tokio::task::unconstrained(exec(cap, &cfg, n0, Src::Fixed(&ops))));
        last = tr;
        if ok {
            break;
        }
    }
    last
}

pub fn gen_one(rt: &tokio::runtime::Runtime, mut rng: Rng, timed: bool, thorough: bool) -> (Vec<u64>, Vec<u64>) {
    let nsvc = rng.range(2, 3);
    let mut cfg = Vec::new();
    let mut ts = vec![100u64, 300, 500];
    for _ in 0..nsvc {
        let ka = rng.chance(65);
        let t = if timed { ts.remove(rng.below(ts.len() as u64) as usize) } else { UNTIMED_T };
        cfg.push((ka, t));
    }
    let cap = rng.pick(&[1usize, 2, 2, 4, 4, 256]);
    let n0 = rng.pick(&[0u64, 0, 7, 1000]);
    let third = !timed && rng.chance(8);
    let nops = if timed { rng.range(7, 15) } else if thorough { rng.range(10, 120) } else { rng.range(8, 60) } as usize;
    let npeers = rng.range(1, 2);
    // a third of the timed cases: two overlapping connections of peer 0, activity of one service on
    // one of them, the primary closes first (promotion), then the services idle out one by one
    let mut script: Vec<Vec<u64>> = Vec::new();
    if timed && rng.chance(35) {
        script.push(vec![0, 1, 0, 1]);
        script.push(vec![rng.pick(&[0u64, 200]), 1, 0, 2]);
        match rng.below(3) {
            0 => script.push(vec![rng.pick(&[0u64, 200]), 3, rng.below(nsvc), 0, 2, rng.below(2)]),
            1 => script.push(vec![rng.pick(&[0u64, 200]), 7, rng.below(nsvc), 0]),
            _ => {}
        }
        script.push(vec![rng.pick(&[0u64, 200, 200]), 2, 0, 1]);
        if rng.chance(50) {
            script.push(vec![rng.pick(&[0u64, 200]), 7, rng.below(nsvc), 0]);
        }
        script.push(vec![rng.pick(&[200u64, 400]), 15, 2]);
        script.push(vec![rng.pick(&[200u64, 400]), 15, 2]);
    }
    let nops = nops.max(script.len() + 3);
    let g = Gen { script, rng: rng.fork(), timed, third, npeers, nops, nsvc, elapsed: 0, burst: 0 };
    let (case, trace, ok) = rt.block_on(tokio::task::unconstrained(exec(cap, &cfg, n0, Src::Gen(g))));
    if ok {
        return (case, trace);
    }
    let t = run_stored(rt, &case);
    (case, t)
}
