//! C06, socket stream (tag 9603; child module of c06x.rs): what REALLY happens to a connection the
//! owner accepts or rejects, on real loopback sockets, for the real `TcpTransport` and the real
//! `WebSocketTransport` (facade `litep2p::transport::verif_sock::VerifSock`), and — harness built with
//! `--features quic`, thorough tier — the real `QuicTransport` (transport 2).
//!
//! Two real transports of the same kind: L (under test, driven here call by call the way the
//! manager drives it) and R (a remote node that accepts everything and runs its connection tasks).
//! A case is a list of connections handled one after the other, each with a script:
//!   kind 0  R dials L:  L sees PendingInboundConnection(c)  -> d1 = accept_pending | reject_pending
//!                       then ConnectionEstablished(c)        -> d2 = accept | reject
//!   kind 1  L dials R:  L sees ConnectionEstablished(c)      -> d2 = accept | reject
//!   kind 2  a bare socket connects to L and never speaks: PendingInboundConnection(c) -> reject_pending
//! Recorded per connection (format: coq/C06/Glue.v `sock_expect`):
//!   pending seen, result of the d1 call, established seen, result of the d2 call,
//!   `again`: result of calling reject_pending(c) and reject(c) once more afterwards (both must say
//!            "no such connection": the entry was consumed),
//!   `remote_closed`: the other end observed the connection going away (R's connection task reports
//!            ConnectionClosed, R's dial fails, the bare socket reads EOF) within 10 s,
//!   `later`: number of events L emitted for c after the decision (must be 0).
//! An accepted connection must NOT be observed closing within 150 ms, nor by the end of the case (last
//! number of the trace: accepted connections the remote end saw closing — later rejections must not
//! disturb them).
use super::*;
use litep2p::{
    crypto::ed25519::Keypair,
    transport::verif_sock::{VerifSock, VerifSockEvent},
};
use std::{
    task::Poll,
    time::{Duration, Instant},
};
use tokio::sync::mpsc;

pub const TAG_SOCK: u64 = 9603;

#[derive(Clone, Copy, Debug)]
pub struct Conn {
    pub kind: u64,
    pub d1: u64,
    pub d2: u64,
}

pub fn enc_case(tr: u64, conns: &[Conn]) -> Vec<u64> {
    let mut c = vec![TAG_SOCK, tr, conns.len() as u64];
    for x in conns {
        c.extend([x.kind, x.d1, x.d2]);
    }
    c
}

pub fn dec_case(c: &[u64]) -> Option<(u64, Vec<Conn>)> {
    if c.len() < 3 || c[1] > 2 || c[2] > 64 || c.len() != 3 + 3 * c[2] as usize {
        return None;
    }
    if c[1] == 2 && !cfg!(feature = "quic") {
        return None;
    }
    let mut v = Vec::new();
    for k in 0..c[2] as usize {
        let (kind, d1, d2) = (c[3 + 3 * k], c[4 + 3 * k], c[5 + 3 * k]);
        if kind > 2 || d1 > 1 || d2 > 1 || (kind == 2 && d1 != 0) || (kind == 2 && c[1] == 2) {
            return None;
        }
        v.push(Conn { kind, d1, d2 });
    }
    Some((c[1], v))
}

fn new_sock(tr: u64) -> (VerifSock, Multiaddr) {
    let kp = Keypair::generate();
    if tr == 0 {
        let cfg = litep2p::transport::tcp::config::Config {
            listen_addresses: vec!["/ip4/127.0.0.1/tcp/0".parse().unwrap()],
            reuse_port: false,
            ..Default::default()
        };
        let (t, a) = VerifSock::new_tcp(kp, cfg).unwrap();
        (t, a[0].clone())
    } else if tr == 1 {
        let cfg = litep2p::transport::websocket::config::Config {
            listen_addresses: vec!["/ip4/127.0.0.1/tcp/0/ws".parse().unwrap()],
            reuse_port: false,
            ..Default::default()
        };
        let (t, a) = VerifSock::new_websocket(kp, cfg).unwrap();
        (t, a[0].clone())
    } else {
        new_quic(kp)
    }
}

#[cfg(feature = "quic")]
fn new_quic(kp: Keypair) -> (VerifSock, Multiaddr) {
    let cfg = litep2p::transport::quic::config::Config {
        listen_addresses: vec!["/ip4/127.0.0.1/udp/0/quic-v1".parse().unwrap()],
        ..Default::default()
    };
    let (t, a) = VerifSock::new_quic(kp, cfg).unwrap();
    (t, a[0].clone())
}

#[cfg(not(feature = "quic"))]
fn new_quic(_: Keypair) -> (VerifSock, Multiaddr) {
    unreachable!("QUIC cases are refused by dec_case without the quic feature")
}

/// what R saw: (kind, connection id): 1 established, 2 dial failure, 3 its connection task reported closed
type RObs = (u64, usize);

enum RStep {
    Cmd(Option<(Multiaddr, tokio::sync::oneshot::Sender<usize>)>),
    Ev(Option<VerifSockEvent>),
    Mgr(Option<(PeerId, usize)>),
}

async fn remote_task(
    mut t: VerifSock,
    mut rx: mpsc::UnboundedReceiver<(Multiaddr, tokio::sync::oneshot::Sender<usize>)>,
    obs: mpsc::UnboundedSender<RObs>,
) {
    loop {
        let step = futures::future::poll_fn(|cx| {
            if let Poll::Ready(c) = rx.poll_recv(cx) {
                return Poll::Ready(RStep::Cmd(c));
            }
            if let Poll::Ready(e) = t.poll_event(cx) {
                return Poll::Ready(RStep::Ev(e));
            }
            if let Poll::Ready(m) = t.poll_manager_event(cx) {
                return Poll::Ready(RStep::Mgr(m));
            }
            Poll::Pending
        })
        .await;
        match step {
            RStep::Cmd(None) | RStep::Ev(None) | RStep::Mgr(None) => break,
            RStep::Cmd(Some((addr, back))) => {
                let id = t.draw_connection_id();
                let _ = t.dial(id, addr);
                let _ = back.send(id);
            }
            RStep::Ev(Some(VerifSockEvent::PendingInbound(id))) => {
                let _ = t.accept_pending(id);
            }
            RStep::Ev(Some(VerifSockEvent::Established(id, _, _))) => {
                if let Some(f) = t.accept(id) {
                    tokio::spawn(f);
                }
                let _ = obs.send((1, id));
            }
            RStep::Ev(Some(VerifSockEvent::DialFailure(id))) => {
                let _ = obs.send((2, id));
            }
            RStep::Ev(Some(_)) => {}
            RStep::Mgr(Some((_, id))) => {
                let _ = obs.send((3, id));
            }
        }
    }
}

struct SockWorld {
    l: VerifSock,
    l_addr: Multiaddr,
    r_addr: Multiaddr,
    r_peer: PeerId,
    r_cmd: mpsc::UnboundedSender<(Multiaddr, tokio::sync::oneshot::Sender<usize>)>,
    r_obs: mpsc::UnboundedReceiver<RObs>,
    /// everything L emitted so far
    l_events: Vec<VerifSockEvent>,
    r_seen: Vec<RObs>,
    /// R's ids of the connections L accepted
    accepted_r: Vec<usize>,
}

impl SockWorld {
    async fn pump(&mut self) {
        loop {
            let l = &mut self.l;
            match futures::future::poll_fn(|cx| Poll::Ready(l.poll_event(cx))).await {
                Poll::Ready(Some(e)) => self.l_events.push(e),
                _ => break,
            }
        }
        // connection tasks started by L report to L's own manager channel: drain it
        loop {
            let l = &mut self.l;
            match futures::future::poll_fn(|cx| Poll::Ready(l.poll_manager_event(cx))).await {
                Poll::Ready(Some(_)) => {}
                _ => break,
            }
        }
        while let Ok(o) = self.r_obs.try_recv() {
            self.r_seen.push(o);
        }
    }

    /// poll until `done`, at most `ms`; returns whether it became true
    async fn wait(&mut self, ms: u64, done: impl Fn(&SockWorld) -> bool) -> bool {
        let start = Instant::now();
        loop {
            self.pump().await;
            if done(self) {
                return true;
            }
            if start.elapsed() > Duration::from_millis(ms) {
                return false;
            }
            tokio::time::sleep(Duration::from_millis(1)).await;
        }
    }

    fn events_for(&self, c: usize, from: usize) -> usize {
        self.l_events[from..]
            .iter()
            .filter(|e| match e {
                VerifSockEvent::PendingInbound(x)
                | VerifSockEvent::Established(x, _, _)
                | VerifSockEvent::DialFailure(x)
                | VerifSockEvent::Other(x) => *x == c,
            })
            .count()
    }

    fn socket_addr(a: &Multiaddr) -> std::net::SocketAddr {
        let mut it = a.iter();
        match (it.next(), it.next()) {
            (Some(Protocol::Ip4(ip)), Some(Protocol::Tcp(p))) => std::net::SocketAddr::from((ip, p)),
            _ => panic!("listen address"),
        }
    }

    async fn one(&mut self, x: Conn, out: &mut Vec<u64>) {
        const LONG: u64 = 10_000;
        let mut bare: Option<tokio::net::TcpStream> = None;
        let mut r_id: Option<usize> = None;
        let first_event = self.l_events.len();
        let r_start = self.r_seen.len();
        let mut c: Option<usize> = None;
        let (mut seen_pending, mut r1, mut seen_est, mut r2) = (0u64, 0u64, 0u64, 0u64);
        let mut accepted = false;
        match x.kind {
            0 => {
                let (tx, rx) = tokio::sync::oneshot::channel();
                let addr = self.l_addr.clone().with(Protocol::P2p(self.l.local_peer_id().into()));
                let _ = self.r_cmd.send((addr, tx));
                r_id = rx.await.ok();
            }
            2 => {
                bare = tokio::net::TcpStream::connect(Self::socket_addr(&self.l_addr)).await.ok();
            }
            _ => {
                let id = self.l.draw_connection_id();
                let addr = self.r_addr.clone().with(Protocol::P2p(self.r_peer.into()));
                r1 = self.l.dial(id, addr) as u64;
                c = Some(id);
            }
        }
        if x.kind != 1 {
            // the pending inbound socket
            let ok = self
                .wait(LONG, |w| w.l_events[first_event..].iter().any(|e| matches!(e, VerifSockEvent::PendingInbound(_))))
                .await;
            if ok {
                seen_pending = 1;
                c = self.l_events[first_event..].iter().find_map(|e| match e {
                    VerifSockEvent::PendingInbound(id) => Some(*id),
                    _ => None,
                });
                let id = c.unwrap();
                r1 = if x.d1 == 1 { self.l.accept_pending(id) } else { self.l.reject_pending(id) } as u64;
            }
        }
        let decided_at;
        if x.kind != 2 && (x.kind == 1 || x.d1 == 1) && c.is_some() {
            let id = c.unwrap();
            let ok = self
                .wait(LONG, |w| {
                    w.l_events[first_event..].iter().any(|e| matches!(e, VerifSockEvent::Established(i, _, _) if *i == id))
                })
                .await;
            if ok {
                seen_est = 1;
                if x.d2 == 1 {
                    match self.l.accept(id) {
                        Some(f) => {
                            r2 = 1;
                            accepted = true;
                            tokio::spawn(f);
                        }
                        None => r2 = 0,
                    }
                } else {
                    r2 = self.l.reject(id) as u64;
                }
            }
            decided_at = self.l_events.len();
        } else {
            decided_at = self.l_events.len();
        }
        // the entry is consumed: a second reject / reject_pending finds nothing
        let again = match c {
            Some(id) => (self.l.reject_pending(id) as u64) + (self.l.reject(id) as u64),
            None => 9,
        };
        // what the other end observes about ITS end of this connection
        let r_conn: Option<usize> = match x.kind {
            0 => r_id,
            1 => self.r_seen[r_start..].iter().find(|(k, _)| *k == 1).map(|(_, id)| *id),
            _ => None,
        };
        let gone = |w: &SockWorld| -> bool {
            w.r_seen[r_start..].iter().any(|(k, id)| (*k == 2 || *k == 3) && (r_conn.is_none() || Some(*id) == r_conn))
        };
        let remote_closed = if accepted {
            // must stay open: nothing for 150 ms
            if let Some(id) = r_conn {
                self.accepted_r.push(id);
            }
            self.wait(150, gone).await as u64
        } else if let Some(mut s) = bare.take() {
            use tokio::io::AsyncReadExt;
            let mut buf = [0u8; 16];
            let r = tokio::time::timeout(Duration::from_millis(LONG), s.read(&mut buf)).await;
            matches!(r, Ok(Ok(0)) | Ok(Err(_))) as u64
        } else {
            // R: its dial fails (closed during the handshake) or, if its side completed, its
            // connection task reports the connection closed
            self.wait(LONG, gone).await as u64
        };
        self.pump().await;
        let later = match c {
            Some(id) => self.events_for(id, decided_at) as u64,
            None => 0,
        };
        out.extend([seen_pending, r1, seen_est, r2, again, remote_closed, later]);
    }
}

pub fn run(tr: u64, conns: &[Conn]) -> Vec<u64> {
    // a runtime of its own: dropping it ends every connection task the case started
    let rt = tokio::runtime::Builder::new_current_thread().enable_all().build().unwrap();
    let mut t = vec![1u64];
    rt.block_on(async {
        let (l, l_addr) = new_sock(tr);
        let (r, r_addr) = new_sock(tr);
        let r_peer = r.local_peer_id();
        let (ctx, crx) = mpsc::unbounded_channel();
        let (otx, orx) = mpsc::unbounded_channel();
        let task = tokio::spawn(remote_task(r, crx, otx));
        let mut w = SockWorld { l, l_addr, r_addr, r_peer, r_cmd: ctx, r_obs: orx, l_events: Vec::new(), r_seen: Vec::new(), accepted_r: Vec::new() };
        for x in conns {
            w.one(*x, &mut t).await;
        }
        // existing connections were not disturbed by the later rejections: every accepted connection
        // is still open at the end of the case
        w.pump().await;
        let disturbed = w.r_seen.iter().filter(|(k, id)| (*k == 2 || *k == 3) && w.accepted_r.contains(id)).count();
        t.push(disturbed as u64);
        task.abort();
    });
    rt.shutdown_background();
    t
}

pub fn generated(rng: &mut Rng, only_quic: bool) -> (Vec<u64>, Vec<u64>) {
    let tr = if only_quic { 2 } else { rng.below(2) };
    let n = rng.range(2, 5);
    let conns: Vec<Conn> = (0..n)
        .map(|_| match rng.below(10) {
            0 if tr != 2 => Conn { kind: 2, d1: 0, d2: 0 },
            0 => Conn { kind: 0, d1: 0, d2: 0 },
            1..=5 => Conn { kind: 0, d1: rng.chance(70) as u64, d2: rng.chance(45) as u64 },
            _ => Conn { kind: 1, d1: 1, d2: rng.chance(45) as u64 },
        })
        .collect();
    (enc_case(tr, &conns), run(tr, &conns))
}

/// every script once, for QUIC (no bare sockets: UDP)
pub fn table_quic() -> Vec<(Vec<u64>, Vec<u64>)> {
    let conns = [
        Conn { kind: 0, d1: 0, d2: 0 },
        Conn { kind: 0, d1: 1, d2: 0 },
        Conn { kind: 0, d1: 1, d2: 1 },
        Conn { kind: 1, d1: 1, d2: 0 },
        Conn { kind: 1, d1: 1, d2: 1 },
    ];
    vec![(enc_case(2, &conns), run(2, &conns))]
}

/// every script once, per transport
pub fn table() -> Vec<(Vec<u64>, Vec<u64>)> {
    let mut v = Vec::new();
    for tr in 0..2u64 {
        let conns = [
            Conn { kind: 0, d1: 0, d2: 0 },
            Conn { kind: 0, d1: 1, d2: 0 },
            Conn { kind: 0, d1: 1, d2: 1 },
            Conn { kind: 1, d1: 1, d2: 0 },
            Conn { kind: 1, d1: 1, d2: 1 },
            Conn { kind: 2, d1: 0, d2: 0 },
        ];
        v.push((enc_case(tr, &conns), run(tr, &conns)));
    }
    v
}
