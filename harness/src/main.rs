//! Correspondence harness: runs the litep2p implementation on generated / stored cases and
//! prints one canonical trace per case in the "list of N" wire format of coq/common/Wire.v.
mod c01;
mod c05;
mod c07;
mod c07_loop;
mod gen_c07_msgs;
mod c15;
mod c16;
mod c02;
mod c03;
mod c04;
mod c04x;
mod c04y;
mod c10;
mod c14;
mod c14_glue;
mod c08;
mod c08_compose;
mod c08_multi;
mod c08_names;
mod c08_report;
mod c09_e2e;
mod c13;
mod c11;
mod c12;
mod c17;
mod c17_kad;
mod c18;
mod c20;
mod c19;
mod util;

fn main() {
    let argv: Vec<String> = std::env::args().collect();
    if argv.len() < 2 {
        eprintln!("usage: verif-harness <property> --seed S --cases N --out-cases F --out-trace F [--corpus DIR] [--replay FILE]");
        std::process::exit(2);
    }
    let args = util::Args::parse(&argv[2..]);
    if std::env::var_os("VERIF_SHOW_PANICS").is_none() {
        util::silence_panics();
    }
    match argv[1].as_str() {
        "c01" => c01::main(&args),
        "c05" => c05::main(&args),
        "c07" => c07::main(&args),
        "c15" => c15::main(&args),
        "c16" => c16::main(&args),
        "c03" => c03::main(&args),
        "c04" => c04::main(&args),
        "c10" => c10::main(&args),
        "c14" => c14::main(&args),
        "c08" => c08::main(&args, false),
        "c09" => c08::main(&args, true),
        "c13" => c13::main(&args),
        "c11" => c11::main(&args),
        "c12" => c12::main(&args),
        "c17" => c17::main(&args),
        "c02" => c02::main(&args),
        "c18" => c18::main(&args),
        "c20" => c20::main(&args),
        "c19" => c19::main(&args),
        other => {
            eprintln!("unknown property {other}");
            std::process::exit(2);
        }
    }
}
