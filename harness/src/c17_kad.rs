//! C17, third kind of case (`KAD_TAG`): the REAL `Kademlia::run` loop around the MemoryStore.
//! Case / trace format: `p_kev`, `kdump`, `enc_kout` in coq/C17/Glue.v.
//!
//! The loop is polled by hand on a real `TransportService` (hooks `VerifKademlia`,
//! `VerifServiceInput`, the probe). The harness plays remote peers (inbound PUT_VALUE, ADD_PROVIDER,
//! GET_VALUE, GET_PROVIDERS as protobuf bytes on in-memory carriers; the answers are read back from
//! the carrier) and the user (`KademliaHandle` commands). The routing table stays empty, so the
//! queries the commands start finish at once and only the store matters.
//!
//! Time: one tick = 10 s. The store of the loop reads the real clock; logical time passes by
//! ageing every stored expiry (`VerifProbe::request_store_age`, applied by the loop when it is about
//! to wait) and by advancing tokio's paused clock (refresh timers). Real time that elapses during a
//! case (milliseconds) only ever makes the implementation's clock read slightly *later* than the
//! model's, which cannot flip a comparison between whole ticks.
use crate::{
    c17::{quorum_code, quorum_of, World, KAD_TAG, NKEYS, NPROVS},
    util::*,
};
use futures::{FutureExt, Stream};
use litep2p::{
    codec::ProtocolCodec,
    protocol::{
        libp2p::kademlia::{
            verif::{SchemaMessage, SchemaPeer, SchemaRecord, VerifKadDump, VerifKademlia, VerifProbe, VerifProbeEntry},
            ConfigBuilder, IncomingRecordValidationMode, KademliaEvent, KademliaHandle, Quorum, Record, RecordKey,
        },
        verif::{VerifConnection, VerifServiceInput},
        TransportService,
    },
    transport::verif::{TransportManager, TransportManagerBuilder},
    types::protocol::ProtocolName,
    PeerId,
};
use prost::Message as _;
use std::{
    collections::VecDeque,
    future::Future,
    panic::{catch_unwind, AssertUnwindSafe},
    pin::Pin,
    sync::{Arc, Mutex},
    task::{Context, Poll},
    time::{Duration, Instant},
};
use tokio::io::{AsyncRead, AsyncWrite, ReadBuf};

const TICK: Duration = Duration::from_secs(10);
const INBOUND_BASE: usize = 1_000_000;
const HEADER: usize = 13;
/// publisher code of bytes that are not a peer id
const PUB_INVALID: u64 = 255;

// ------------------------------------------------------------------ carrier

#[derive(Default)]
struct CarrierState {
    rq: VecDeque<u8>,
    written: Vec<u8>,
}

#[derive(Clone, Default)]
struct Carrier(Arc<Mutex<CarrierState>>);

impl AsyncRead for Carrier {
    fn poll_read(self: Pin<&mut Self>, _: &mut Context<'_>, buf: &mut ReadBuf<'_>) -> Poll<std::io::Result<()>> {
        let mut s = self.0.lock().unwrap();
        if s.rq.is_empty() {
            // nothing more ever arrives: the reader waits for its timeout
            return Poll::Pending;
        }
        while buf.remaining() > 0 {
            match s.rq.pop_front() {
                Some(b) => buf.put_slice(&[b]),
                None => break,
            }
        }
        Poll::Ready(Ok(()))
    }
}

impl AsyncWrite for Carrier {
    fn poll_write(self: Pin<&mut Self>, _: &mut Context<'_>, buf: &[u8]) -> Poll<std::io::Result<usize>> {
        self.0.lock().unwrap().written.extend_from_slice(buf);
        Poll::Ready(Ok(buf.len()))
    }
    fn poll_flush(self: Pin<&mut Self>, _: &mut Context<'_>) -> Poll<std::io::Result<()>> {
        Poll::Ready(Ok(()))
    }
    fn poll_shutdown(self: Pin<&mut Self>, _: &mut Context<'_>) -> Poll<std::io::Result<()>> {
        Poll::Ready(Ok(()))
    }
}

fn varint_frame(payload: &[u8]) -> Vec<u8> {
    let mut out = Vec::new();
    let mut n = payload.len();
    loop {
        let b = (n & 0x7f) as u8;
        n >>= 7;
        if n == 0 {
            out.push(b);
            break;
        }
        out.push(b | 0x80);
    }
    out.extend(payload);
    out
}

fn varint_unframe(data: &[u8]) -> Option<&[u8]> {
    let (mut n, mut shift, mut i) = (0usize, 0u32, 0usize);
    loop {
        let b = *data.get(i)?;
        n |= ((b & 0x7f) as usize) << shift;
        i += 1;
        if b & 0x80 == 0 {
            break;
        }
        shift += 7;
        if shift > 28 {
            return None;
        }
    }
    data.get(i..i + n)
}

// ------------------------------------------------------------------ events

#[derive(Clone, Debug)]
enum Ev {
    PutValue { from: u64, key: u64, val: u64, len: u64, publ: u64, ttl: u64 },
    /// (peer, addresses, validity): validity 1 = decodes, 0 = peer id bytes that are no peer id,
    /// 2 = unknown connection type; distances are looked up
    AddProvider { from: u64, key: u64, provs: Vec<(u64, u64, u64)> },
    GetValue { from: u64, key: u64 },
    GetProviders { from: u64, key: u64 },
    CmdPutRecord { key: u64, val: u64, len: u64, exp: u64 },
    CmdPutToPeers { key: u64, val: u64, len: u64, publ: u64, exp: u64, upd: u64 },
    CmdStoreRecord { key: u64, val: u64, len: u64, publ: u64, exp: u64 },
    CmdStartProviding { key: u64, q: u64 },
    CmdStopProviding { key: u64 },
    CmdGetRecord { key: u64 },
    CmdGetProviders { key: u64 },
    Age { d: u64 },
}

fn decode_events(c: &[u64]) -> Option<Vec<Ev>> {
    let n = *c.get(HEADER - 1)? as usize;
    let mut i = HEADER;
    let mut evs = Vec::new();
    let key_ok = |k: u64| (k as usize) < NKEYS;
    let peer_ok = |p: u64| (p as usize) < NPROVS;
    for _ in 0..n {
        let tag = *c.get(i)?;
        let base = i;
        let a = |j: usize| c.get(base + j).copied();
        let ev = match tag {
            0 => {
                let e = Ev::PutValue { from: a(1)?, key: a(2)?, val: a(3)?, len: a(4)?, publ: a(5)?, ttl: a(6)? };
                i += 7;
                e
            }
            1 => {
                let (from, key, n) = (a(1)?, a(2)?, a(3)? as usize);
                let mut provs = Vec::new();
                for j in 0..n {
                    let p = a(4 + 4 * j)?;
                    let na = a(6 + 4 * j)?;
                    let valid = a(7 + 4 * j)?;
                    if !peer_ok(p) || na > 80 || valid > 2 {
                        return None;
                    }
                    provs.push((p, na, valid));
                }
                i += 4 + 4 * n;
                Ev::AddProvider { from, key, provs }
            }
            2 => {
                i += 3;
                Ev::GetValue { from: a(1)?, key: a(2)? }
            }
            3 => {
                i += 3;
                Ev::GetProviders { from: a(1)?, key: a(2)? }
            }
            4 => {
                let e = Ev::CmdPutRecord { key: a(1)?, val: a(2)?, len: a(3)?, exp: a(4)? };
                i += 5;
                e
            }
            5 => {
                let e = Ev::CmdPutToPeers { key: a(1)?, val: a(2)?, len: a(3)?, publ: a(4)?, exp: a(5)?, upd: a(6)? };
                i += 7;
                e
            }
            6 => {
                let e = Ev::CmdStoreRecord { key: a(1)?, val: a(2)?, len: a(3)?, publ: a(4)?, exp: a(5)? };
                i += 6;
                e
            }
            7 => {
                let e = Ev::CmdStartProviding { key: a(1)?, q: a(3)? };
                i += 4;
                e
            }
            8 => {
                i += 3;
                Ev::CmdStopProviding { key: a(1)? }
            }
            9 => {
                i += 2;
                Ev::CmdGetRecord { key: a(1)? }
            }
            10 => {
                i += 2;
                Ev::CmdGetProviders { key: a(1)? }
            }
            11 => {
                let (d, n) = (a(1)?, a(2)? as usize);
                i += 3 + 2 * n; // the recorded order is observed again
                Ev::Age { d }
            }
            _ => return None,
        };
        let ok = match &ev {
            Ev::PutValue { from, key, val, len, publ, ttl } =>
                peer_ok(*from) && key_ok(*key) && *val < 256 && *len < 1 << 16 && (*publ <= NPROVS as u64 + 1 || *publ == PUB_INVALID) && *ttl < 1000,
            Ev::AddProvider { from, key, .. } => peer_ok(*from) && key_ok(*key),
            Ev::GetValue { from, key } | Ev::GetProviders { from, key } => peer_ok(*from) && key_ok(*key),
            Ev::CmdPutRecord { key, val, len, exp } => key_ok(*key) && *val < 256 && *len < 1 << 16 && *exp < 100_000,
            Ev::CmdPutToPeers { key, val, len, publ, exp, upd } =>
                key_ok(*key) && *val < 256 && *len < 1 << 16 && *publ <= NPROVS as u64 + 1 && *exp < 100_000 && *upd <= 1,
            Ev::CmdStoreRecord { key, val, len, publ, exp } =>
                key_ok(*key) && *val < 256 && *len < 1 << 16 && *publ <= NPROVS as u64 + 1 && *exp < 100_000,
            Ev::CmdStartProviding { key, q } => key_ok(*key) && *q < 1 << 30,
            Ev::CmdStopProviding { key } | Ev::CmdGetRecord { key } | Ev::CmdGetProviders { key } => key_ok(*key),
            Ev::Age { d } => *d < 1000,
        };
        if !ok {
            return None;
        }
        evs.push(ev);
    }
    (i == c.len()).then_some(evs)
}

// ------------------------------------------------------------------ the system under test

struct Sys<'a> {
    w: &'a World,
    _manager: TransportManager,
    input: VerifServiceInput,
    handle: KademliaHandle,
    probe: VerifProbe,
    fut: Pin<Box<dyn Future<Output = ()>>>,
    dead: bool,
    dummy: VerifConnection,
    next_inbound: usize,
    dump: VerifKadDump,
    /// logical clock in ticks
    vnow: u64,
    unused_key: RecordKey,
}

fn publisher_of(w: &World, code: u64) -> Option<PeerId> {
    if code == 0 {
        None
    } else if code as usize <= NPROVS {
        Some(w.peers[code as usize - 1])
    } else {
        Some(PeerId::random())
    }
}

fn publisher_code(w: &World, p: &Option<PeerId>) -> u64 {
    match p {
        None => 0,
        Some(p) => w.peers.iter().position(|x| x == p).map(|i| i as u64 + 1).unwrap_or(NPROVS as u64 + 1),
    }
}

fn ticks(d: Duration) -> u64 {
    ((d.as_millis() + 5_000) / 10_000) as u64
}

fn rel(now: Instant, exp: Option<Instant>) -> [u64; 2] {
    match exp {
        None => [2, 0],
        Some(t) if t <= now => [0, ticks(now - t)],
        Some(t) => [1, ticks(t - now)],
    }
}

impl<'a> Sys<'a> {
    fn new(w: &'a World, c: &[u64]) -> Self {
        let manager = TransportManagerBuilder::new().build();
        let (service, input) = TransportService::verif_new(
            &manager,
            w.peers[0],
            ProtocolName::from("/ipfs/kad/1.0.0"),
            ProtocolCodec::UnsignedVarint(Some(70 * 1024)),
            Duration::from_secs(3600 * 24 * 30),
        );
        let public = service.public_addresses();
        for a in w.addrs.iter().take(c[11] as usize) {
            let _ = public.add_address(a.clone());
        }
        let (config, handle) = ConfigBuilder::new()
            .with_replication_factor(c[10] as usize)
            .with_incoming_records_validation_mode(if c[8] != 0 {
                IncomingRecordValidationMode::Automatic
            } else {
                IncomingRecordValidationMode::Manual
            })
            .with_record_ttl(TICK * c[9] as u32)
            .with_max_records(c[1] as usize)
            .with_max_record_size(c[2] as usize)
            .with_max_provider_keys(c[3] as usize)
            .with_max_provider_addresses(c[4] as usize)
            .with_max_providers_per_key(c[5] as usize)
            .with_provider_record_ttl(TICK * c[6] as u32)
            .with_provider_refresh_interval(TICK * c[7] as u32)
            .build();
        let probe = VerifProbe::default();
        let kad = VerifKademlia::new(service, config, probe.clone());
        let fut: Pin<Box<dyn Future<Output = ()>>> = Box::pin(async move {
            let _ = kad.run().await;
        });
        let dummy = input.dummy_connection(9_999_999);
        let mut s = Sys {
            w,
            _manager: manager,
            input,
            handle,
            probe,
            fut,
            dead: false,
            dummy,
            next_inbound: INBOUND_BASE,
            dump: VerifKadDump::default(),
            vnow: 0,
            unused_key: RecordKey::from(vec![250u8, 251, 252, 253]),
        };
        s.poll();
        s.absorb();
        s
    }

    fn poll(&mut self) {
        if self.dead {
            return;
        }
        let waker = futures::task::noop_waker();
        let mut cx = Context::from_waker(&waker);
        for _ in 0..6 {
            let fut = &mut self.fut;
            match catch_unwind(AssertUnwindSafe(|| fut.as_mut().poll(&mut cx))) {
                Ok(Poll::Pending) => {}
                Ok(Poll::Ready(())) | Err(_) => {
                    self.dead = true;
                    return;
                }
            }
        }
    }

    fn absorb(&mut self) -> Vec<KademliaEvent> {
        for en in self.probe.take() {
            if let VerifProbeEntry::AtSelect(d) = en {
                self.dump = d;
            }
        }
        let waker = futures::task::noop_waker();
        let mut cx = Context::from_waker(&waker);
        let mut out = Vec::new();
        while let Poll::Ready(Some(e)) = Pin::new(&mut self.handle).poll_next(&mut cx) {
            out.push(e);
        }
        out
    }

    /// Sends one protobuf message on a fresh inbound substream of `from`; returns what the loop
    /// wrote back (payload of the first frame).
    fn inbound(&mut self, from: u64, msg: SchemaMessage) -> Option<SchemaMessage> {
        let carrier = Carrier::default();
        carrier.0.lock().unwrap().rq.extend(varint_frame(&msg.encode_to_vec()));
        let id = self.next_inbound;
        self.next_inbound += 1;
        let peer = self.w.peers[from as usize];
        if !self.input.substream_opened(peer, None, id, Box::new(carrier.clone()), &self.dummy) {
            return None;
        }
        self.poll();
        let written = carrier.0.lock().unwrap().written.clone();
        varint_unframe(&written).and_then(|p| SchemaMessage::decode(p).ok())
    }

    fn instant_of(&self, v: u64) -> Option<Instant> {
        let now = Instant::now();
        if v >= self.vnow {
            now.checked_add(TICK * (v - self.vnow) as u32)
        } else {
            now.checked_sub(TICK * (self.vnow - v) as u32)
        }
    }

    fn record(&self, key: u64, val: u64, len: u64, publ: u64, exp: u64) -> Option<Record> {
        Some(Record {
            key: self.w.keys[key as usize].clone(),
            value: vec![val as u8; len as usize],
            publisher: publisher_of(self.w, publ),
            expires: if exp == 0 { None } else { Some(self.instant_of(exp - 1)?) },
        })
    }

    fn val_code(&self, value: &[u8], publisher: u64) -> u64 {
        value.first().copied().unwrap_or(0) as u64 + 256 * publisher
    }

    /// Applies one event; appends its wire form to `case` and the answer to `trace`.
    async fn apply(&mut self, e: &Ev, case: &mut Vec<u64>, trace: &mut Vec<u64>) -> Option<()> {
        let w = self.w;
        if self.dead {
            encode_event(w, e, &[], case);
            trace.extend([5, 0]);
            return Some(());
        }
        let mut order: Vec<(u64, u64)> = Vec::new();
        let answer: Vec<u64> = match e {
            Ev::PutValue { from, key, val, len, publ, ttl } => {
                let kb = w.keys[*key as usize].to_vec();
                let msg = SchemaMessage {
                    r#type: 0,
                    cluster_level_raw: 10,
                    key: kb.clone(),
                    record: Some(SchemaRecord {
                        key: kb.clone(),
                        value: vec![*val as u8; *len as usize],
                        time_received: String::new(),
                        publisher: if *publ == PUB_INVALID {
                            vec![1, 2, 3]
                        } else {
                            publisher_of(w, *publ).map(|p| p.to_bytes()).unwrap_or_default()
                        },
                        ttl: (*ttl * 10) as u32,
                    }),
                    closer_peers: vec![],
                    provider_peers: vec![],
                };
                let reply = self.inbound(*from, msg);
                // acknowledged: the answer echoes key and value
                let acked = reply
                    .map(|r| r.r#type == 0 && r.record.map(|x| x.key == kb && x.value.len() as u64 == *len).unwrap_or(false))
                    .unwrap_or(false);
                vec![acked as u64]
            }
            Ev::AddProvider { from, key, provs } => {
                let msg = SchemaMessage {
                    r#type: 2,
                    cluster_level_raw: 10,
                    key: w.keys[*key as usize].to_vec(),
                    record: None,
                    closer_peers: vec![],
                    provider_peers: provs
                        .iter()
                        .map(|(p, na, valid)| {
                            let mut addrs: Vec<Vec<u8>> = w.addrs.iter().take(*na as usize).map(|a| a.to_vec()).collect();
                            if na % 2 == 1 {
                                // a duplicate and bytes that are no multiaddr: neither counts
                                addrs.insert(0, addrs[addrs.len() - 1].clone());
                                addrs.insert(1, vec![255, 1]);
                            }
                            SchemaPeer {
                                id: if *valid == 0 { vec![9, 9, 9] } else { w.peers[*p as usize].to_bytes() },
                                addrs,
                                connection: if *valid == 2 { 77 } else { 1 },
                            }
                        })
                        .collect(),
                };
                let reply = self.inbound(*from, msg);
                vec![if reply.is_some() { 777 } else { 0 }]
            }
            Ev::GetValue { from, key } => {
                let msg = SchemaMessage {
                    r#type: 1,
                    cluster_level_raw: 10,
                    key: w.keys[*key as usize].to_vec(),
                    record: None,
                    closer_peers: vec![],
                    provider_peers: vec![],
                };
                match self.inbound(*from, msg) {
                    Some(r) if r.r#type == 1 => match r.record {
                        None => vec![2, 0],
                        Some(x) => {
                            let publ = if x.publisher.is_empty() {
                                0
                            } else {
                                publisher_code(w, &PeerId::from_bytes(&x.publisher).ok())
                            };
                            vec![
                                2,
                                1,
                                w.keys.iter().position(|k| k.to_vec() == x.key).map(|i| i as u64).unwrap_or(99),
                                self.val_code(&x.value, publ),
                                x.value.len() as u64,
                                if x.ttl == 0 { 0 } else { (x.ttl as u64 + 5) / 10 + 1 },
                            ]
                        }
                    },
                    _ => vec![888],
                }
            }
            Ev::GetProviders { from, key } => {
                let msg = SchemaMessage {
                    r#type: 3,
                    cluster_level_raw: 10,
                    key: w.keys[*key as usize].to_vec(),
                    record: None,
                    closer_peers: vec![],
                    provider_peers: vec![],
                };
                match self.inbound(*from, msg) {
                    Some(r) if r.r#type == 3 => {
                        let mut v = vec![3, r.provider_peers.len() as u64];
                        for p in r.provider_peers {
                            let pi = PeerId::from_bytes(&p.id).ok().and_then(|x| w.peers.iter().position(|y| *y == x));
                            v.extend([pi.map(|i| i as u64).unwrap_or(99), p.addrs.len() as u64]);
                        }
                        v
                    }
                    _ => vec![888],
                }
            }
            Ev::CmdPutRecord { key, val, len, exp } => {
                let r = self.record(*key, *val, *len, 0, *exp)?;
                self.handle.try_put_record(r, Quorum::One).ok()?;
                self.poll();
                vec![0]
            }
            Ev::CmdPutToPeers { key, val, len, publ, exp, upd } => {
                let r = self.record(*key, *val, *len, *publ, *exp)?;
                self.handle.try_put_record_to_peers(r, vec![], *upd != 0, Quorum::One).ok()?;
                self.poll();
                vec![0]
            }
            Ev::CmdStoreRecord { key, val, len, publ, exp } => {
                let r = self.record(*key, *val, *len, *publ, *exp)?;
                self.handle.try_store_record(r).ok()?;
                self.poll();
                vec![0]
            }
            Ev::CmdStartProviding { key, q } => {
                self.handle.start_providing(w.keys[*key as usize].clone(), quorum_of(*q)).now_or_never()?;
                self.poll();
                vec![0]
            }
            Ev::CmdStopProviding { key } => {
                self.handle.stop_providing(w.keys[*key as usize].clone()).now_or_never()?;
                self.poll();
                vec![4, !self.dead as u64]
            }
            Ev::CmdGetRecord { key } => {
                self.handle.try_get_record(w.keys[*key as usize].clone(), Quorum::One).ok()?;
                self.poll();
                let events = self.absorb();
                let mut ans = vec![2, 0];
                for ev in events {
                    if let KademliaEvent::GetRecordPartialResult { record, .. } = ev {
                        let local = (record.peer != w.peers[0]) as u64 * 500;
                        let x = record.record;
                        let remaining = x.expires.map(|t| ticks(t.saturating_duration_since(Instant::now())) + 1).unwrap_or(0);
                        ans = vec![
                            2,
                            1,
                            w.key_index(&x.key) + local,
                            self.val_code(&x.value, publisher_code(w, &x.publisher)),
                            x.value.len() as u64,
                            remaining,
                        ];
                    }
                }
                ans
            }
            Ev::CmdGetProviders { key } => {
                self.handle.get_providers(w.keys[*key as usize].clone()).now_or_never()?;
                self.poll();
                vec![0]
            }
            Ev::Age { d } => {
                if *d > 0 {
                    // phase 1: the store ages; a command that touches nothing makes the loop go round
                    self.probe.request_store_age(TICK * *d as u32);
                    self.handle.stop_providing(self.unused_key.clone()).now_or_never()?;
                    self.poll();
                    self.probe.take_refreshes();
                    // phase 2: tokio's clock moves, the refresh futures complete
                    self.vnow += *d;
                    tokio::time::advance(TICK * *d as u32).await;
                    self.poll();
                    self.poll();
                }
                for r in self.probe.take_refreshes() {
                    let k = w.key_index(&r.key);
                    order.push((k, w.rank[k as usize][0]));
                }
                vec![4, 1]
            }
        };
        let _ = self.absorb();
        encode_event(w, e, &order, case);
        trace.extend(answer);
        if self.dead {
            trace.push(0);
        } else {
            trace.push(1);
            self.emit_dump(trace);
        }
        Some(())
    }

    fn emit_dump(&self, out: &mut Vec<u64>) {
        let w = self.w;
        let now = Instant::now();
        let d = &self.dump.store;
        let mut recs: Vec<[u64; 5]> = d
            .records
            .iter()
            .map(|r| {
                let e = rel(now, r.expires);
                [w.key_index(&r.key), self.val_code(&r.value, publisher_code(w, &r.publisher)), r.value.len() as u64, e[0], e[1]]
            })
            .collect();
        recs.sort();
        out.push(recs.len() as u64);
        for r in recs {
            out.extend(r);
        }
        let mut pk: Vec<(u64, Vec<u64>)> = d
            .provider_keys
            .iter()
            .map(|(k, ps)| {
                let ki = w.key_index(k);
                let mut v = vec![ps.len() as u64];
                for p in ps {
                    let pi = w.peer_index(&p.provider);
                    let e = rel(now, Some(p.expires));
                    v.extend([pi, w.rank[ki as usize][pi as usize], p.addresses.len() as u64, e[0], e[1]]);
                }
                (ki, v)
            })
            .collect();
        pk.sort();
        out.push(pk.len() as u64);
        for (k, v) in pk {
            out.push(k);
            out.extend(v);
        }
        let mut qs: Vec<[u64; 2]> = d
            .local_providers
            .iter()
            .map(|(k, p, q)| {
                let okp = p.peer == w.peers[0] && p.addresses.is_empty();
                [w.key_index(k), if okp { quorum_code(*q) } else { 777_777 }]
            })
            .collect();
        qs.sort();
        out.push(qs.len() as u64);
        for x in qs {
            out.extend(x);
        }
        out.push(d.pending_refresh as u64);
    }
}

fn encode_event(w: &World, e: &Ev, order: &[(u64, u64)], c: &mut Vec<u64>) {
    match e {
        Ev::PutValue { from, key, val, len, publ, ttl } => c.extend([0, *from, *key, *val, *len, *publ, *ttl]),
        Ev::AddProvider { from, key, provs } => {
            c.extend([1, *from, *key, provs.len() as u64]);
            for (p, na, valid) in provs {
                c.extend([*p, w.rank[*key as usize][*p as usize], *na, *valid]);
            }
        }
        Ev::GetValue { from, key } => c.extend([2, *from, *key]),
        Ev::GetProviders { from, key } => c.extend([3, *from, *key]),
        Ev::CmdPutRecord { key, val, len, exp } => c.extend([4, *key, *val, *len, *exp]),
        Ev::CmdPutToPeers { key, val, len, publ, exp, upd } => c.extend([5, *key, *val, *len, *publ, *exp, *upd]),
        Ev::CmdStoreRecord { key, val, len, publ, exp } => c.extend([6, *key, *val, *len, *publ, *exp]),
        Ev::CmdStartProviding { key, q } => c.extend([7, *key, w.rank[*key as usize][0], *q]),
        Ev::CmdStopProviding { key } => c.extend([8, *key, w.rank[*key as usize][0]]),
        Ev::CmdGetRecord { key } => c.extend([9, *key]),
        Ev::CmdGetProviders { key } => c.extend([10, *key]),
        Ev::Age { d } => {
            c.extend([11, *d, order.len() as u64]);
            for (k, dist) in order {
                c.extend([*k, *dist]);
            }
        }
    }
}

fn header_ok(c: &[u64]) -> bool {
    c.len() >= HEADER
        && c[0] == KAD_TAG
        && c[1..6].iter().all(|x| *x < 1 << 30)
        && c[6] < 10_000
        && c[7] >= 1
        && c[7] < 10_000
        && c[8] <= 1
        && c[9] < 10_000
        && c[10] < 1 << 20
        && c[11] <= 80
}

/// Runs a case against the real loop. Returns the case as executed (distances and the observed
/// refresh order filled in) and the trace.
pub fn run(w: &World, c: &[u64]) -> Option<(Vec<u64>, Vec<u64>)> {
    if !header_ok(c) {
        return None;
    }
    let evs = decode_events(c)?;
    // logical time is simulated by moving instants into the past
    assert!(Instant::now().checked_sub(TICK * 400).is_some(), "the monotonic clock is too young for the C17 kad stream");
    let rt = tokio::runtime::Builder::new_current_thread().enable_time().start_paused(true).build().unwrap();
    rt.block_on(tokio::task::unconstrained(async {
        let mut s = Sys::new(w, c);
        let mut case = c[..HEADER].to_vec();
        let mut trace = vec![3u64];
        for e in &evs {
            s.apply(e, &mut case, &mut trace).await?;
        }
        Some((case, trace))
    }))
}

// ------------------------------------------------------------------ generator

pub fn gen_case(rng: &mut Rng, w: &World, thorough: bool) -> Vec<u64> {
    let max_records = rng.pick(&[0u64, 1, 2, 3, 1024]);
    let max_size = rng.pick(&[0u64, 1, 5, 6, 65 * 1024]);
    let max_keys = rng.pick(&[0u64, 1, 2, 3, 1024]);
    let max_addrs = rng.pick(&[0u64, 1, 2, 30, 50]);
    let max_per_key = if rng.chance(3) { 0 } else { rng.pick(&[1u64, 1, 2, 3, 20]) };
    let ttl = rng.pick(&[0u64, 1, 3, 10]);
    let interval = rng.pick(&[1u64, 2, 5]);
    let auto = rng.pick(&[0u64, 1, 1]);
    let rttl = rng.pick(&[0u64, 2, 8]);
    let repl = rng.pick(&[1u64, 2, 20]);
    let npub = rng.pick(&[0u64, 1, 3, 40]);
    let nkeys = rng.range(1, NKEYS as u64);
    let nprovs = rng.range(2, NPROVS as u64);
    let nev = if thorough { rng.range(10, 150) } else { rng.range(6, 50) };
    let mut c = vec![KAD_TAG, max_records, max_size, max_keys, max_addrs, max_per_key, ttl, interval, auto, rttl, repl, npub, nev];
    let mut vnow = 0u64;
    let mut evs: Vec<Ev> = Vec::new();
    for _ in 0..nev {
        let key = rng.below(nkeys);
        let from = rng.range(1, nprovs - 1);
        let len = rng.pick(&[0u64, 1, 3, 4, 5, 6, 7]);
        let val = if len == 0 { 0 } else { rng.below(200) };
        let publ = rng.pick(&[0u64, 0, 1, 2, 3, NPROVS as u64 + 1, PUB_INVALID]);
        let cpubl = if publ == PUB_INVALID { 0 } else { publ };
        let exp = match rng.below(8) {
            0 | 1 => 0,
            2 => 1 + vnow.saturating_sub(1),
            3 => 1 + vnow,
            4 => 1 + vnow + 1,
            5 => 1 + vnow + 2,
            _ => 1 + vnow + rng.range(0, 6),
        };
        let ev = match rng.below(100) {
            0..=14 => Ev::PutValue { from, key, val, len, publ, ttl: rng.pick(&[0u64, 1, 1, 2, 5]) },
            15..=32 => {
                let other = rng.below(nprovs);
                let na = rng.pick(&[0u64, 1, 2, 3, 31, 32, 33, 40, 70]);
                let bad = rng.pick(&[0u64, 2]);
                let provs = match rng.below(14) {
                    0 => vec![],
                    1 => vec![(other, na, 1)],
                    2 => vec![(from, na, 1), (other, 1, 1)],
                    3 => vec![(other, 1, 1), (from, na, 1)],
                    4 => vec![(other, 1, bad), (from, na, 1)],
                    5 => vec![(from, na, 1), (other, 1, bad)],
                    6 => vec![(from, na, bad)],
                    _ => vec![(from, na, 1)],
                };
                Ev::AddProvider { from, key, provs }
            }
            33..=42 => Ev::GetValue { from, key },
            43..=52 => Ev::GetProviders { from, key },
            53..=58 => Ev::CmdPutRecord { key, val, len, exp },
            59..=62 => Ev::CmdPutToPeers { key, val, len, publ: cpubl, exp, upd: rng.below(2) },
            63..=68 => Ev::CmdStoreRecord { key, val, len, publ: cpubl, exp },
            69..=76 => Ev::CmdStartProviding { key, q: rng.pick(&[0u64, 1, 2, 3, 21]) },
            77..=79 => Ev::CmdStopProviding { key },
            80..=84 => Ev::CmdGetRecord { key },
            85..=87 => Ev::CmdGetProviders { key },
            _ => {
                let d = if vnow > 200 { 0 } else { rng.pick(&[1u64, 1, 1, 2, 3, 5]) };
                vnow += d;
                Ev::Age { d }
            }
        };
        evs.push(ev);
    }
    for e in &evs {
        encode_event(w, e, &[], &mut c);
    }
    c
}
