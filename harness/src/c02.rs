//! C02: Noise transport correspondence. Case / trace format: see coq/C02/Glue.v.
//!
//! A real `handshake()` pair is run over an in-memory duplex; afterwards the carrier between the
//! two `NoiseSocket`s is scripted: the writer side's ciphertext is recorded (with scripted partial
//! acceptance / Pending), optionally tampered with, and re-delivered to the reader side in the
//! chunks of the case. Every poll's result and the socket's framing state are logged.
use crate::util::*;
use futures::io::{AsyncRead, AsyncWrite};
use litep2p::{
    config::Role,
    crypto::{
        ed25519::Keypair,
        verif::{handshake, HandshakeTransport, NoiseSocket, VERIF_CONSTS},
    },
};
use std::{
    cell::RefCell,
    collections::VecDeque,
    io,
    panic::{catch_unwind, AssertUnwindSafe},
    path::Path,
    pin::Pin,
    rc::Rc,
    task::{Context, Poll, Waker},
};

const MISMATCH: u64 = 999_999_999_999;
const REP_MAX: u64 = 20000;
const BIG: u64 = 1_000_000;
/// script entries >= SPECIAL: SPECIAL = the carrier call returns Ok(0); SPECIAL + k = Err(kind k)
const SPECIAL: u64 = 1 << 40;

fn kind_of(code: u64) -> io::ErrorKind {
    match code {
        6 => io::ErrorKind::ConnectionReset,
        7 => io::ErrorKind::BrokenPipe,
        8 => io::ErrorKind::TimedOut,
        _ => io::ErrorKind::Other,
    }
}

#[derive(Default)]
struct Shared {
    scripted: bool,
    inbox: [VecDeque<u8>; 2],
    wakers: [Option<Waker>; 2],
    // scripted mode: side 0 writes, side 1 reads
    wscript: VecDeque<u64>,
    written: Vec<u8>,
    rscript: VecDeque<u64>,
    wire: Vec<u8>,
    avail: usize,
    pulled: usize,
    /// the most recent carrier call of side i returned Pending (reset by the harness before every socket poll)
    last_pending: [bool; 2],
    /// the carrier's write half (side 0) has been closed
    closed: bool,
}

struct Carrier {
    side: usize,
    sh: Rc<RefCell<Shared>>,
}

impl AsyncRead for Carrier {
    fn poll_read(self: Pin<&mut Self>, cx: &mut Context<'_>, buf: &mut [u8]) -> Poll<io::Result<usize>> {
        let mut sh = self.sh.borrow_mut();
        if !sh.scripted {
            let side = self.side;
            if sh.inbox[side].is_empty() {
                sh.wakers[side] = Some(cx.waker().clone());
                return Poll::Pending;
            }
            let n = buf.len().min(sh.inbox[side].len());
            for b in buf.iter_mut().take(n) {
                *b = sh.inbox[side].pop_front().unwrap();
            }
            return Poll::Ready(Ok(n));
        }
        sh.last_pending[1] = false;
        match sh.rscript.pop_front() {
            None => Poll::Ready(Ok(0)),
            Some(0) => {
                sh.last_pending[1] = true;
                Poll::Pending
            }
            Some(SPECIAL) => Poll::Ready(Ok(0)),
            Some(n) if n > SPECIAL => Poll::Ready(Err(kind_of(n - SPECIAL).into())),
            Some(n) => {
                let k = (n as usize).min(buf.len()).min(sh.avail - sh.pulled);
                let p = sh.pulled;
                buf[..k].copy_from_slice(&sh.wire[p..p + k]);
                sh.pulled += k;
                Poll::Ready(Ok(k))
            }
        }
    }
}

impl AsyncWrite for Carrier {
    fn poll_write(self: Pin<&mut Self>, _cx: &mut Context<'_>, buf: &[u8]) -> Poll<io::Result<usize>> {
        let mut sh = self.sh.borrow_mut();
        if !sh.scripted {
            let other = 1 - self.side;
            sh.inbox[other].extend(buf.iter().copied());
            if let Some(w) = sh.wakers[other].take() {
                w.wake();
            }
            return Poll::Ready(Ok(buf.len()));
        }
        sh.last_pending[0] = false;
        if sh.closed {
            return Poll::Ready(Err(io::ErrorKind::BrokenPipe.into()));
        }
        match sh.wscript.pop_front() {
            None => {
                sh.written.extend_from_slice(buf);
                Poll::Ready(Ok(buf.len()))
            }
            Some(0) => {
                sh.last_pending[0] = true;
                Poll::Pending
            }
            Some(SPECIAL) => Poll::Ready(Ok(0)),
            Some(n) if n > SPECIAL => Poll::Ready(Err(kind_of(n - SPECIAL).into())),
            Some(n) => {
                let k = (n as usize).min(buf.len());
                sh.written.extend_from_slice(&buf[..k]);
                Poll::Ready(Ok(k))
            }
        }
    }
    fn poll_flush(self: Pin<&mut Self>, _cx: &mut Context<'_>) -> Poll<io::Result<()>> {
        let mut sh = self.sh.borrow_mut();
        if !sh.scripted || sh.closed {
            return Poll::Ready(Ok(()));
        }
        sh.last_pending[0] = false;
        match sh.wscript.pop_front() {
            Some(0) => {
                sh.last_pending[0] = true;
                Poll::Pending
            }
            Some(n) if n > SPECIAL => Poll::Ready(Err(kind_of(n - SPECIAL).into())),
            _ => Poll::Ready(Ok(())),
        }
    }
    fn poll_close(self: Pin<&mut Self>, _cx: &mut Context<'_>) -> Poll<io::Result<()>> {
        let mut sh = self.sh.borrow_mut();
        if !sh.scripted || sh.closed {
            return Poll::Ready(Ok(()));
        }
        sh.last_pending[0] = false;
        match sh.wscript.pop_front() {
            Some(0) => {
                sh.last_pending[0] = true;
                Poll::Pending
            }
            Some(n) if n > SPECIAL => Poll::Ready(Err(kind_of(n - SPECIAL).into())),
            _ => {
                sh.closed = true;
                Poll::Ready(Ok(()))
            }
        }
    }
}

fn pat(i: usize) -> u8 {
    let x = (i as u64).wrapping_mul(0x9E37_79B9_7F4A_7C15);
    ((x >> 56) as u8) ^ (i as u8)
}

fn err_code(e: &io::Error) -> u64 {
    match e.kind() {
        io::ErrorKind::UnexpectedEof => 1,
        io::ErrorKind::InvalidData => 2,
        io::ErrorKind::PermissionDenied => 3,
        io::ErrorKind::WriteZero => 5,
        io::ErrorKind::ConnectionReset => 6,
        io::ErrorKind::BrokenPipe => 7,
        io::ErrorKind::TimedOut => 8,
        _ => 9,
    }
}

/// count-prefixed list reader over a case
struct Cur<'a> {
    c: &'a [u64],
    i: usize,
}
impl<'a> Cur<'a> {
    fn n(&mut self) -> Option<u64> {
        let x = *self.c.get(self.i)?;
        self.i += 1;
        Some(x)
    }
    fn count(&mut self) -> Option<usize> {
        let n = self.n()? as usize;
        if n > self.c.len() - self.i {
            return None;
        }
        Some(n)
    }
}

enum WOp {
    Write(u64),
    Flush,
    Close,
    WriteV(Vec<u64>),
}

struct Case {
    f: u64,
    wb: u64,
    wops: Vec<WOp>,
    wsc: Vec<u64>,
    tamper: [u64; 4],
    reads: Vec<(u64, u64)>,
    rsc: Vec<u64>,
}

fn parse_case(c: &[u64]) -> Option<Case> {
    let mut k = Cur { c, i: 0 };
    let f = k.n()?;
    let wb = k.n()?;
    let mut wops = Vec::new();
    for _ in 0..k.count()? {
        match k.n()? {
            0 => wops.push(WOp::Write(k.n()?)),
            1 => wops.push(WOp::Flush),
            2 => wops.push(WOp::Close),
            3 => {
                let mut v = Vec::new();
                for _ in 0..k.count()? {
                    v.push(k.n()?);
                }
                wops.push(WOp::WriteV(v));
            }
            _ => return None,
        }
    }
    let mut wsc = Vec::new();
    for _ in 0..k.count()? {
        wsc.push(k.n()?);
    }
    let tamper = [k.n()?, k.n()?, k.n()?, k.n()?];
    if tamper[0] > 5 {
        return None;
    }
    let mut reads = Vec::new();
    for _ in 0..k.count()? {
        reads.push((k.n()?, k.n()?));
    }
    let mut rsc = Vec::new();
    for _ in 0..k.count()? {
        rsc.push(k.n()?);
    }
    if k.i != c.len() {
        return None;
    }
    // resource guard (the model accepts such cases; the generator never produces them)
    let too_long = |l: &u64| *l > 4_000_000;
    if f > 8
        || wb > 8
        || wops.iter().any(|o| match o {
            WOp::Write(l) => too_long(l),
            WOp::WriteV(v) => v.iter().any(too_long),
            _ => false,
        })
        || reads.iter().any(|r| r.0 > 4_000_000)
    {
        return None;
    }
    Some(Case { f, wb, wops, wsc, tamper, reads, rsc })
}

fn new_pair(
    rt: &tokio::runtime::Runtime,
    f: usize,
    wb: usize,
) -> (NoiseSocket<Carrier>, NoiseSocket<Carrier>, Rc<RefCell<Shared>>) {
    let sh = Rc::new(RefCell::new(Shared::default()));
    let c0 = Carrier { side: 0, sh: sh.clone() };
    let c1 = Carrier { side: 1, sh: sh.clone() };
    let k0 = Keypair::generate();
    let k1 = Keypair::generate();
    let t = std::time::Duration::from_secs(20);
    let (a, b) = rt.block_on(async {
        tokio::join!(
            handshake(c0, &k0, Role::Dialer, f, wb, t, HandshakeTransport::Tcp),
            handshake(c1, &k1, Role::Listener, f, wb, t, HandshakeTransport::Tcp)
        )
    });
    let (a, _) = a.expect("handshake");
    let (b, _) = b.expect("handshake");
    sh.borrow_mut().scripted = true;
    (a, b, sh)
}

/// one writer-side record: result(2) write_state(3) bytes-with-carrier lastpending carrier-closed
fn wrec(
    res: Result<Poll<io::Result<usize>>, ()>,
    a: &NoiseSocket<Carrier>,
    sh: &Rc<RefCell<Shared>>,
) -> ([u64; 8], bool) {
    match res {
        Err(()) => ([3, 0, 0, 0, 0, 0, 0, 0], false),
        Ok(p) => {
            let st = a.verif_write_state();
            let (t, v) = match p {
                Poll::Ready(Ok(n)) => (0, n as u64),
                Poll::Pending => (1, 0),
                Poll::Ready(Err(e)) => (2, err_code(&e)),
            };
            let s = sh.borrow();
            (
                [
                    t,
                    v,
                    st[0] as u64,
                    st[1] as u64,
                    st[2] as u64,
                    s.written.len() as u64,
                    s.last_pending[0] as u64,
                    s.closed as u64,
                ],
                true,
            )
        }
    }
}

fn run_case(rt: &tokio::runtime::Runtime, c: &[u64]) -> Option<Vec<u64>> {
    let case = parse_case(c)?;
    let (mut a, mut b, sh) = new_pair(rt, case.f as usize, case.wb as usize);
    let waker = futures::task::noop_waker();
    let mut cx = Context::from_waker(&waker);

    let mut out = vec![1u64];
    out.extend(VERIF_CONSTS[..3].iter().map(|x| *x as u64));
    out.push(b.verif_buffer_sizes()[0] as u64);
    out.push(a.verif_buffer_sizes()[1] as u64);

    // ---- writer
    let total_req: usize = case
        .wops
        .iter()
        .map(|o| match o {
            WOp::Write(l) => *l as usize,
            WOp::WriteV(v) => v.iter().map(|l| *l as usize).sum(),
            _ => 0,
        })
        .sum();
    let stream: Vec<u8> = (0..total_req).map(pat).collect();
    sh.borrow_mut().wscript = case.wsc.iter().copied().collect();
    let mut accepted = 0usize;
    let mut recs: Vec<[u64; 8]> = Vec::new();
    let mut ok = true;
    for op in case.wops.iter() {
        sh.borrow_mut().last_pending[0] = false;
        let unit = |p: Poll<io::Result<()>>| p.map(|r| r.map(|_| 0usize));
        let res = match op {
            WOp::Write(len) => {
                let buf = &stream[accepted..accepted + *len as usize];
                catch_unwind(AssertUnwindSafe(|| Pin::new(&mut a).poll_write(&mut cx, buf))).map_err(|_| ())
            }
            WOp::WriteV(lens) => {
                let mut slices = Vec::new();
                let mut p = accepted;
                for l in lens.iter() {
                    slices.push(io::IoSlice::new(&stream[p..p + *l as usize]));
                    p += *l as usize;
                }
                catch_unwind(AssertUnwindSafe(|| Pin::new(&mut a).poll_write_vectored(&mut cx, &slices)))
                    .map_err(|_| ())
            }
            WOp::Flush => catch_unwind(AssertUnwindSafe(|| Pin::new(&mut a).poll_flush(&mut cx)))
                .map(unit)
                .map_err(|_| ()),
            WOp::Close => catch_unwind(AssertUnwindSafe(|| Pin::new(&mut a).poll_close(&mut cx)))
                .map(unit)
                .map_err(|_| ()),
        };
        if let (WOp::Write(_) | WOp::WriteV(_), Ok(Poll::Ready(Ok(n)))) = (op, &res) {
            accepted += *n;
        }
        let (r, cont) = wrec(res, &a, &sh);
        recs.push(r);
        if !cont {
            ok = false;
            break;
        }
    }
    out.push(recs.len() as u64);
    for r in recs.iter() {
        out.extend(r);
    }
    out.push(ok as u64);
    if !ok {
        return Some(out);
    }
    // final flush with an all-accepting carrier
    {
        let mut s = sh.borrow_mut();
        s.wscript.clear();
        s.last_pending[0] = false;
    }
    let res = catch_unwind(AssertUnwindSafe(|| Pin::new(&mut a).poll_flush(&mut cx)))
        .map(|p| p.map(|r| r.map(|_| 0usize)))
        .map_err(|_| ());
    let (r, cont) = wrec(res, &a, &sh);
    out.extend(r);
    if !cont {
        // the trace format needs the rest: an empty wire, no reads
        out.extend([0, 0, 0]);
        return Some(out);
    }

    // ---- the wire: split into frames, tamper
    let wire = std::mem::take(&mut sh.borrow_mut().written);
    let mut items: Vec<Vec<u8>> = Vec::new();
    let mut p = 0usize;
    let mut leftover = false;
    while p < wire.len() {
        if p + 2 > wire.len() {
            leftover = true;
            break;
        }
        let h = ((wire[p] as usize) << 8) | wire[p + 1] as usize;
        if p + 2 + h > wire.len() {
            leftover = true;
            break;
        }
        items.push(wire[p..p + 2 + h].to_vec());
        p += 2 + h;
    }
    out.push(items.len() as u64 + leftover as u64);
    for it in items.iter() {
        out.push((it.len() - 2) as u64);
    }
    if leftover {
        out.push(0);
    }
    let [tt, ta, tb, tc] = case.tamper;
    let i = ta as usize;
    let mut trunc: Option<usize> = None;
    match tt {
        1 => {
            let m = (tc & 0xff) as u8;
            if i < items.len() && m != 0 && (tb as usize) < items[i].len() {
                items[i][tb as usize] ^= m;
            }
        }
        2 => {
            if i < items.len() {
                items.remove(i);
            }
        }
        3 => {
            if i < items.len() {
                let d = items[i].clone();
                items.insert(i + 1, d);
            }
        }
        4 => {
            if i + 1 < items.len() {
                items.swap(i, i + 1);
            }
        }
        5 => trunc = Some(ta as usize),
        _ => {}
    }
    let wire2: Vec<u8> = items.concat();
    let avail = trunc.map(|t| t.min(wire2.len())).unwrap_or(wire2.len());
    out.push(avail as u64);
    {
        let mut s = sh.borrow_mut();
        s.wire = wire2;
        s.avail = avail;
        s.pulled = 0;
        s.rscript = case.rsc.iter().copied().collect();
    }

    // ---- reader: polled on after errors and EOF; only a panic ends the run
    let maxbuf = case.reads.iter().map(|r| r.0 as usize).max().unwrap_or(0);
    let mut buf = vec![0u8; maxbuf];
    let mut delivered = 0usize;
    let mut rrecs: Vec<[u64; 12]> = Vec::new();
    'outer: for (bl, rep) in case.reads.iter() {
        for _ in 0..(*rep).min(REP_MAX) {
            let bl = *bl as usize;
            sh.borrow_mut().last_pending[1] = false;
            let res = catch_unwind(AssertUnwindSafe(|| Pin::new(&mut b).poll_read(&mut cx, &mut buf[..bl])));
            let (pulled, lp) = {
                let s = sh.borrow();
                (s.pulled as u64, s.last_pending[1] as u64)
            };
            match res {
                Err(_) => {
                    rrecs.push([3, 0, 0, 0, 0, 0, 0, 0, 0, 0, 0, 0]);
                    break 'outer;
                }
                Ok(p) => {
                    let st = b.verif_read_state();
                    let (t, x, y) = match p {
                        Poll::Ready(Ok(n)) => {
                            let good = n <= bl
                                && delivered + n <= accepted
                                && buf[..n] == stream[delivered..delivered + n];
                            let pos = if good { delivered as u64 } else { MISMATCH };
                            delivered += n;
                            (0, n as u64, pos)
                        }
                        Poll::Pending => (1, 0, 0),
                        Poll::Ready(Err(e)) => (2, err_code(&e), 0),
                    };
                    let mut r = [t, x, y, 0, 0, 0, 0, 0, 0, 0, pulled, lp];
                    for (j, v) in st.iter().enumerate() {
                        r[3 + j] = *v as u64;
                    }
                    rrecs.push(r);
                }
            }
        }
    }
    out.push(rrecs.len() as u64);
    for r in rrecs.iter() {
        out.extend(r);
    }
    Some(out)
}

// ------------------------------------------------------------------ generator

fn gen_case(rng: &mut Rng, thorough: bool) -> Vec<u64> {
    let mfl = VERIF_CONSTS[2] as u64;
    let msg = VERIF_CONSTS[0] as u64;
    let f = rng.pick(&[1u64, 1, 1, 2, 2, 3, 5]);
    let wb = rng.pick(&[1u64, 1, 2, 2, 4]);
    let m = f * msg;
    let poll_budget: u64 = if thorough { 1500 } else { 350 };
    let byte_budget: u64 = if thorough { 900_000 } else { 450_000 };

    // writer ops
    let small = rng.chance(35);
    let nw = rng.range(1, if small { 10 } else { 6 });
    let mut wops: Vec<u64> = Vec::new();
    let mut nops = 0u64;
    let mut total = 0u64;
    for _ in 0..nw {
        let len = if small {
            rng.pick(&[1u64, 2, 3, 15, 16, 17, 100, 512, 1000, 4096, 16384])
        } else {
            match rng.below(12) {
                0 => mfl - 1,
                1 => mfl,
                2 => mfl + 1,
                3 => 2 * mfl - 1 + rng.below(3),
                4 => 3 * mfl + 1,
                5 => 65520 + rng.below(2),
                6 => 2 * 65520 + rng.below(2),
                7 => 3 * 65520 + 1,
                8 => rng.range(1, 200_000),
                9 => rng.range(1, 70_000),
                10 => rng.pick(&[0u64, 1, 2, 17]),
                _ => rng.range(60_000, 66_000),
            }
        };
        if total + len > byte_budget {
            continue;
        }
        total += len;
        if rng.chance(10) {
            // vectored write: only the first non-empty buffer is taken by the default implementation
            let extra = rng.pick(&[0u64, 1, 7, 100]);
            let lens: Vec<u64> = match rng.below(4) {
                0 => vec![len, extra],
                1 => vec![0, len, extra],
                2 => vec![0, 0],
                _ => vec![0, 0, len],
            };
            total += extra;
            wops.extend([3, lens.len() as u64]);
            wops.extend(lens);
        } else {
            wops.extend([0, len]);
        }
        nops += 1;
        if rng.chance(25) {
            wops.push(1);
            nops += 1;
        }
        if rng.chance(6) {
            // close (possibly early; later calls then hit a closed carrier), sometimes polled twice
            for _ in 0..rng.range(1, 3) {
                wops.push(2);
                nops += 1;
            }
        }
        // a big write is usually accepted in part: offer the rest again
        if len > mfl && rng.chance(60) {
            wops.extend([0, len]);
            nops += 1;
            total += len;
            wops.push(1);
            nops += 1;
        }
    }
    // writer carrier script
    let mut wsc: Vec<u64> = Vec::new();
    match rng.below(4) {
        0 => {}
        1 => {
            for _ in 0..rng.range(1, 12) {
                wsc.push(if rng.chance(60) { 0 } else { rng.pick(&[1u64, 2, 18, 1000, 65537, 65538, BIG]) });
            }
        }
        _ => {
            for _ in 0..rng.range(1, 40) {
                wsc.push(if rng.chance(20) {
                    0
                } else {
                    rng.pick(&[1u64, 1, 2, 3, 17, 18, 19, 1000, 30000, 65536, 65537, 65538, 65539, BIG])
                });
            }
        }
    }
    if rng.chance(15) {
        for _ in 0..rng.range(1, 3) {
            wops.push(2);
            nops += 1;
        }
    }
    // carrier faults on the write side: Ok(0) or an I/O error at a random carrier call
    if rng.chance(15) {
        for _ in 0..rng.range(1, 3) {
            let at = rng.below(wsc.len() as u64 + 1) as usize;
            wsc.insert(at, SPECIAL + rng.pick(&[0u64, 6, 7, 8, 12]));
        }
    }
    let est_frames = total / mfl + nw + 1;
    // tamper
    let tamper: [u64; 4] = if rng.chance(55) {
        [0, 0, 0, 0]
    } else {
        let i = rng.below(est_frames.min(8) + 1);
        match rng.below(6) {
            0 | 1 => {
                let j = match rng.below(6) {
                    0 => 0,
                    1 => 1,
                    2 => 2,
                    3 => rng.range(2, 18),
                    4 => rng.range(2, 70_000),
                    _ => rng.range(2, 1100),
                };
                [1, i, j, if rng.chance(5) { 0 } else { rng.range(1, 255) }]
            }
            2 => [2, i, 0, 0],
            3 => [3, i, 0, 0],
            4 => [4, i, 0, 0],
            _ => [5, rng.below(total + 18 * est_frames + 4), 0, 0],
        }
    };
    // reader carrier script
    let wire_est = total + 18 * est_frames;
    let mut rsc: Vec<u64> = Vec::new();
    let style = rng.below(5);
    let nitems = rng.range(0, if thorough { 400 } else { 120 });
    for _ in 0..nitems {
        if rng.chance(12) {
            rsc.push(0);
            continue;
        }
        rsc.push(match style {
            0 => 1,
            1 => rng.pick(&[1u64, 2, 3]),
            2 => rng.pick(&[1u64, 2, 3, 17, 18, 19, mfl + 16, mfl + 17, mfl + 18, mfl + 19, 65535, 65536, 65537, 65538]),
            3 => rng.pick(&[m - 2, m - 1, m, m + 1, m + 2, 1, 2, msg - 1, msg, msg + 1]),
            _ => rng.range(1, 2 * msg),
        });
    }
    if !rng.chance(8) {
        for _ in 0..(wire_est / 30_000 + 40) {
            rsc.push(BIG);
            if rng.chance(5) {
                rsc.push(0);
            }
        }
    }
    // carrier faults on the read side: a zero-length read or an I/O error at a random carrier call
    // (the start, mid-header and mid-frame positions all occur because the chunking is random)
    if rng.chance(15) {
        for _ in 0..rng.range(1, 3) {
            let at = rng.below(rsc.len().min(30) as u64 + 1) as usize;
            rsc.insert(at, SPECIAL + rng.pick(&[0u64, 0, 6, 7, 8, 12]));
        }
    }
    // reads
    let mut reads: Vec<u64> = Vec::new();
    let mut nreads = 0u64;
    let mut polls = 0u64;
    let rstyle = rng.below(4);
    let nr = rng.range(0, 12);
    for _ in 0..nr {
        let bl = match rstyle {
            0 => rng.pick(&[1u64, 2, 15, 16, 17]),
            1 => rng.pick(&[0u64, 1, 2, 15, 16, 17, 4096, mfl - 16, mfl - 1, mfl, mfl + 1, 65504, 65519, 65520, 70_000]),
            2 => rng.pick(&[4096u64, 16384, mfl - 1, mfl, mfl + 1, 70_000]),
            _ => rng.range(1, 70_000),
        };
        let rep = rng.range(1, if bl < 100 { 40 } else { 12 });
        if polls + rep > poll_budget {
            break;
        }
        polls += rep;
        reads.extend([bl, rep]);
        nreads += 1;
    }
    if !rng.chance(10) {
        // drain until the carrier's EOF (or the error) with a buffer that keeps the trace short
        let bl = rng.pick(&[4096u64, 16384, mfl - 1, mfl, 65520, 70_000]);
        // the socket is polled on after EOF / errors, so a few extra polls exercise the re-poll paths
        let stalls = rsc.iter().filter(|x| **x == 0 || **x >= SPECIAL).count() as u64;
        let bl = bl.max(total / poll_budget + 1);
        let rep = (total / bl.min(mfl) + est_frames + stalls + rng.range(2, 8)).min(poll_budget * 2);
        reads.extend([bl, rep]);
        nreads += 1;
    }

    let mut c = vec![f, wb, nops];
    c.extend(wops);
    c.push(wsc.len() as u64);
    c.extend(wsc);
    c.extend(tamper);
    c.push(nreads);
    c.extend(reads);
    c.push(rsc.len() as u64);
    c.extend(rsc);
    c
}

pub fn main(args: &Args) {
    let seed = args.u64("seed", 1);
    let ncases = args.u64("cases", 100);
    let thorough = args.str("tier") == Some("thorough");
    let mut out = Outputs::open(args);
    let rt = tokio::runtime::Builder::new_current_thread().enable_all().build().unwrap();
    let mut rng = Rng::new(seed);

    let mut stored: Vec<Vec<u64>> = Vec::new();
    if let Some(r) = args.str("replay") {
        stored = read_cases(Path::new(r));
    } else if let Some(d) = args.str("corpus") {
        stored = read_cases(Path::new(d));
    }
    let run = |c: &[u64], out: &mut Outputs| {
        let t = catch_unwind(AssertUnwindSafe(|| run_case(&rt, c)))
            .unwrap_or(Some(vec![PANIC_MARK]))
            .unwrap_or(vec![0]);
        out.emit(c, &t);
    };
    for c in stored.iter() {
        run(c, &mut out);
    }
    if args.str("replay").is_some() {
        return;
    }
    for _ in 0..ncases {
        let mut r = rng.fork();
        let c = gen_case(&mut r, thorough);
        run(&c, &mut out);
    }
}
