//! C02: Noise transport correspondence. Case / trace format: see coq/C02/Glue.v.
//!
//! A real `handshake()` pair is run over an in-memory duplex; afterwards the carrier between the
//! two `NoiseSocket`s is scripted in BOTH directions: what a socket hands to its carrier is
//! recorded (with scripted partial acceptance / Pending / errors); between the phases of a round
//! the network takes the complete frames recorded so far, manipulates them as the case says and
//! appends them to what the other socket's carrier delivers, in the chunks of the case. A case is
//! a list of rounds (direction, writer calls, manipulations, a schedule of poll_read calls
//! interleaved with calls on the reading socket's own writer half). Every poll's result, the
//! socket's framing state, both nonces and the content of the read window are logged.
use crate::util::*;
use futures::io::{AsyncRead, AsyncWrite};
use litep2p::{
    config::Role,
    crypto::{
        ed25519::Keypair,
        verif::{handshake, HandshakeTransport, NoiseSocket, VERIF_CONSTS},
        verif_noise_identity::{VerifNoiseResolver, VERIF_NOISE_PARAMETERS},
    },
};
use std::{
    cell::RefCell,
    collections::VecDeque,
    future::Future,
    io,
    panic::{catch_unwind, AssertUnwindSafe},
    path::Path,
    pin::Pin,
    rc::Rc,
    task::{Context, Poll, Waker},
};

const MISMATCH: u64 = 999_999_999_999;
const REP_MAX: u64 = 20000;
const BIG: u64 = 1_000_000;
const EXT_TAG: u64 = 9002;
const FORGE_MAX: u64 = 70_000;
/// script entries >= SPECIAL: SPECIAL = the carrier call returns Ok(0); SPECIAL + k = Err(kind k)
const SPECIAL: u64 = 1 << 40;

/// Every stable variant of `std::io::ErrorKind` with its code in cases and traces (4 is not a
/// kind: the model's "cannot predict"). The model passes carrier errors through by code
/// (`Model.ecode`, NKINDS = 40); codes outside the table stand for `Other`.
const KINDS: [(u64, io::ErrorKind); 39] = [
    (1, io::ErrorKind::UnexpectedEof),
    (2, io::ErrorKind::InvalidData),
    (3, io::ErrorKind::PermissionDenied),
    (5, io::ErrorKind::WriteZero),
    (6, io::ErrorKind::ConnectionReset),
    (7, io::ErrorKind::BrokenPipe),
    (8, io::ErrorKind::TimedOut),
    (9, io::ErrorKind::Other),
    (10, io::ErrorKind::NotFound),
    (11, io::ErrorKind::ConnectionRefused),
    (12, io::ErrorKind::HostUnreachable),
    (13, io::ErrorKind::NetworkUnreachable),
    (14, io::ErrorKind::ConnectionAborted),
    (15, io::ErrorKind::NotConnected),
    (16, io::ErrorKind::AddrInUse),
    (17, io::ErrorKind::AddrNotAvailable),
    (18, io::ErrorKind::NetworkDown),
    (19, io::ErrorKind::AlreadyExists),
    (20, io::ErrorKind::WouldBlock),
    (21, io::ErrorKind::NotADirectory),
    (22, io::ErrorKind::IsADirectory),
    (23, io::ErrorKind::DirectoryNotEmpty),
    (24, io::ErrorKind::ReadOnlyFilesystem),
    (25, io::ErrorKind::StaleNetworkFileHandle),
    (26, io::ErrorKind::InvalidInput),
    (27, io::ErrorKind::StorageFull),
    (28, io::ErrorKind::NotSeekable),
    (29, io::ErrorKind::QuotaExceeded),
    (30, io::ErrorKind::FileTooLarge),
    (31, io::ErrorKind::ResourceBusy),
    (32, io::ErrorKind::ExecutableFileBusy),
    (33, io::ErrorKind::Deadlock),
    (34, io::ErrorKind::CrossesDevices),
    (35, io::ErrorKind::TooManyLinks),
    (36, io::ErrorKind::InvalidFilename),
    (37, io::ErrorKind::ArgumentListTooLong),
    (38, io::ErrorKind::Interrupted),
    (39, io::ErrorKind::Unsupported),
    (40, io::ErrorKind::OutOfMemory),
];

fn kind_of(code: u64) -> io::ErrorKind {
    KINDS.iter().find(|(c, _)| *c == code).map(|(_, k)| *k).unwrap_or(io::ErrorKind::Other)
}

fn err_code(e: &io::Error) -> u64 {
    let k = e.kind();
    KINDS.iter().find(|(_, x)| *x == k).map(|(c, _)| *c).unwrap_or(9)
}

/// One direction of the scripted carrier: side d writes, side 1-d reads.
#[derive(Default)]
struct Dir {
    wscript: VecDeque<u64>,
    /// ciphertext handed to the carrier and not yet taken over by the network
    written: Vec<u8>,
    /// bytes ever handed to the carrier
    total_written: usize,
    closed: bool,
    /// the most recent write-side carrier call returned Pending
    wlp: bool,
    rscript: VecDeque<u64>,
    /// everything the network has delivered to the reader's carrier
    wire: Vec<u8>,
    avail: usize,
    pulled: usize,
    rlp: bool,
    cut: bool,
    /// frames the network has taken over so far
    nframes: usize,
}

#[derive(Default)]
struct Shared {
    /// per side: the carrier follows the scripts (false: plain in-memory duplex for the handshake)
    scripted: [bool; 2],
    inbox: [VecDeque<u8>; 2],
    wakers: [Option<Waker>; 2],
    dir: [Dir; 2],
}

struct Carrier {
    side: usize,
    sh: Rc<RefCell<Shared>>,
}

impl AsyncRead for Carrier {
    fn poll_read(self: Pin<&mut Self>, cx: &mut Context<'_>, buf: &mut [u8]) -> Poll<io::Result<usize>> {
        let mut sh = self.sh.borrow_mut();
        let side = self.side;
        if !sh.scripted[side] {
            if sh.inbox[side].is_empty() {
                sh.wakers[side] = Some(cx.waker().clone());
                return Poll::Pending;
            }
            let n = buf.len().min(sh.inbox[side].len());
            for b in buf.iter_mut().take(n) {
                *b = sh.inbox[side].pop_front().unwrap();
            }
            return Poll::Ready(Ok(n));
        }
        let d = &mut sh.dir[1 - side];
        d.rlp = false;
        match d.rscript.pop_front() {
            None => Poll::Ready(Ok(0)),
            Some(0) => {
                d.rlp = true;
                Poll::Pending
            }
            Some(SPECIAL) => Poll::Ready(Ok(0)),
            Some(n) if n > SPECIAL => Poll::Ready(Err(kind_of(n - SPECIAL).into())),
            Some(n) => {
                let k = (n as usize).min(buf.len()).min(d.avail - d.pulled);
                let p = d.pulled;
                buf[..k].copy_from_slice(&d.wire[p..p + k]);
                d.pulled += k;
                Poll::Ready(Ok(k))
            }
        }
    }
}

impl AsyncWrite for Carrier {
    fn poll_write(self: Pin<&mut Self>, _cx: &mut Context<'_>, buf: &[u8]) -> Poll<io::Result<usize>> {
        let mut sh = self.sh.borrow_mut();
        let side = self.side;
        if !sh.scripted[side] {
            let other = 1 - side;
            sh.inbox[other].extend(buf.iter().copied());
            if let Some(w) = sh.wakers[other].take() {
                w.wake();
            }
            return Poll::Ready(Ok(buf.len()));
        }
        let d = &mut sh.dir[side];
        d.wlp = false;
        if d.closed {
            return Poll::Ready(Err(io::ErrorKind::BrokenPipe.into()));
        }
        match d.wscript.pop_front() {
            None => {
                d.written.extend_from_slice(buf);
                d.total_written += buf.len();
                Poll::Ready(Ok(buf.len()))
            }
            Some(0) => {
                d.wlp = true;
                Poll::Pending
            }
            Some(SPECIAL) => Poll::Ready(Ok(0)),
            Some(n) if n > SPECIAL => Poll::Ready(Err(kind_of(n - SPECIAL).into())),
            Some(n) => {
                let k = (n as usize).min(buf.len());
                d.written.extend_from_slice(&buf[..k]);
                d.total_written += k;
                Poll::Ready(Ok(k))
            }
        }
    }
    fn poll_flush(self: Pin<&mut Self>, _cx: &mut Context<'_>) -> Poll<io::Result<()>> {
        let mut sh = self.sh.borrow_mut();
        let side = self.side;
        if !sh.scripted[side] || sh.dir[side].closed {
            return Poll::Ready(Ok(()));
        }
        let d = &mut sh.dir[side];
        d.wlp = false;
        match d.wscript.pop_front() {
            Some(0) => {
                d.wlp = true;
                Poll::Pending
            }
            Some(n) if n > SPECIAL => Poll::Ready(Err(kind_of(n - SPECIAL).into())),
            _ => Poll::Ready(Ok(())),
        }
    }
    fn poll_close(self: Pin<&mut Self>, _cx: &mut Context<'_>) -> Poll<io::Result<()>> {
        let mut sh = self.sh.borrow_mut();
        let side = self.side;
        if !sh.scripted[side] || sh.dir[side].closed {
            return Poll::Ready(Ok(()));
        }
        let d = &mut sh.dir[side];
        d.wlp = false;
        match d.wscript.pop_front() {
            Some(0) => {
                d.wlp = true;
                Poll::Pending
            }
            Some(n) if n > SPECIAL => Poll::Ready(Err(kind_of(n - SPECIAL).into())),
            _ => {
                d.closed = true;
                Poll::Ready(Ok(()))
            }
        }
    }
}

/// remember the genuine body of an item whose body is about to be modified
fn touch(it: &mut (Vec<u8>, Option<usize>, Option<Vec<u8>>)) {
    if it.2.is_none() {
        it.2 = Some(it.0[2..].to_vec());
    }
}

/// position-dependent content of the plaintext stream of direction d
fn pat(d: usize, i: usize) -> u8 {
    let x = (i as u64).wrapping_mul(0x9E37_79B9_7F4A_7C15);
    ((x >> 56) as u8) ^ (i as u8) ^ (if d == 0 { 0 } else { 0xa7 })
}

/// count-prefixed list reader over a case
struct Cur<'a> {
    c: &'a [u64],
    i: usize,
}
impl<'a> Cur<'a> {
    fn n(&mut self) -> Option<u64> {
        let x = *self.c.get(self.i)?;
        self.i += 1;
        Some(x)
    }
    fn count(&mut self) -> Option<usize> {
        let n = self.n()? as usize;
        if n > self.c.len() - self.i {
            return None;
        }
        Some(n)
    }
    fn list(&mut self) -> Option<Vec<u64>> {
        let mut v = Vec::new();
        for _ in 0..self.count()? {
            v.push(self.n()?);
        }
        Some(v)
    }
}

#[derive(Clone)]
enum WOp {
    Write(u64),
    Flush,
    Close,
    WriteV(Vec<u64>),
}

enum SOp {
    Read(u64),
    W(WOp),
}

struct Round {
    dir: usize,
    wops: Vec<WOp>,
    wsc: Vec<u64>,
    tampers: Vec<[u64; 4]>,
    sched: Vec<SOp>,
    rsc: Vec<u64>,
    xsc: Vec<u64>,
}

struct Case {
    f: u64,
    wb: u64,
    early: bool,
    rounds: Vec<Round>,
}

fn parse_wop(k: &mut Cur) -> Option<WOp> {
    Some(match k.n()? {
        0 => WOp::Write(k.n()?),
        1 => WOp::Flush,
        2 => WOp::Close,
        3 => WOp::WriteV(k.list()?),
        _ => return None,
    })
}

fn parse_tamper(k: &mut Cur) -> Option<[u64; 4]> {
    let t = [k.n()?, k.n()?, k.n()?, k.n()?];
    if t[0] > 11 {
        return None;
    }
    Some(t)
}

fn parse_case(c: &[u64]) -> Option<Case> {
    let ext = c.first() == Some(&EXT_TAG);
    let mut k = Cur { c, i: if ext { 1 } else { 0 } };
    let f = k.n()?;
    let wb = k.n()?;
    let mut rounds = Vec::new();
    let mut early = false;
    if ext {
        let e = k.n()?;
        if e > 1 {
            return None;
        }
        early = e == 1;
        for _ in 0..k.count()? {
            let dir = k.n()?;
            let mut wops = Vec::new();
            for _ in 0..k.count()? {
                wops.push(parse_wop(&mut k)?);
            }
            let wsc = k.list()?;
            let mut tampers = Vec::new();
            for _ in 0..k.count()? {
                tampers.push(parse_tamper(&mut k)?);
            }
            let mut sched = Vec::new();
            for _ in 0..k.count()? {
                match k.n()? {
                    0 => {
                        let b = k.n()?;
                        let rep = k.n()?.min(REP_MAX);
                        for _ in 0..rep {
                            sched.push(SOp::Read(b));
                        }
                    }
                    1 => sched.push(SOp::W(parse_wop(&mut k)?)),
                    _ => return None,
                }
            }
            let rsc = k.list()?;
            let xsc = k.list()?;
            if dir > 1 {
                return None;
            }
            rounds.push(Round { dir: dir as usize, wops, wsc, tampers, sched, rsc, xsc });
        }
    } else {
        let mut wops = Vec::new();
        for _ in 0..k.count()? {
            wops.push(parse_wop(&mut k)?);
        }
        let wsc = k.list()?;
        let t = parse_tamper(&mut k)?;
        let mut sched = Vec::new();
        for _ in 0..k.count()? {
            let b = k.n()?;
            let rep = k.n()?.min(REP_MAX);
            for _ in 0..rep {
                sched.push(SOp::Read(b));
            }
        }
        let rsc = k.list()?;
        rounds.push(Round { dir: 0, wops, wsc, tampers: vec![t], sched, rsc, xsc: Vec::new() });
    }
    if k.i != c.len() {
        return None;
    }
    // resource guard (the model accepts such cases; the generator never produces them)
    let too_long = |l: &u64| *l > 4_000_000;
    let wop_big = |o: &WOp| match o {
        WOp::Write(l) => too_long(l),
        WOp::WriteV(v) => v.iter().any(too_long),
        _ => false,
    };
    if f > 8
        || wb > 8
        || rounds.len() > 64
        || rounds.iter().any(|r| {
            r.wops.iter().any(wop_big)
                || r.tampers.len() > 64
                || r.sched.len() > 100_000
                || r.sched.iter().any(|s| match s {
                    SOp::Read(b) => *b > 4_000_000,
                    SOp::W(o) => wop_big(o),
                })
        })
    {
        return None;
    }
    Some(Case { f, wb, early, rounds })
}

type Sock = NoiseSocket<Carrier>;

/// both variants of the enum (it only labels log lines)
fn transport_of(f: usize, wb: usize) -> HandshakeTransport {
    if (f + wb) % 2 == 0 {
        HandshakeTransport::Tcp
    } else {
        HandshakeTransport::WebSocket
    }
}

fn pair_plain(rt: &tokio::runtime::Runtime, f: usize, wb: usize) -> (Sock, Sock, Rc<RefCell<Shared>>) {
    let sh = Rc::new(RefCell::new(Shared::default()));
    let c0 = Carrier { side: 0, sh: sh.clone() };
    let c1 = Carrier { side: 1, sh: sh.clone() };
    let k0 = Keypair::generate();
    let k1 = Keypair::generate();
    let t = std::time::Duration::from_secs(20);
    let (a, b) = rt.block_on(async {
        tokio::join!(
            handshake(c0, &k0, Role::Dialer, f, wb, t, transport_of(f, wb)),
            handshake(c1, &k1, Role::Listener, f, wb, t, transport_of(f, wb))
        )
    });
    let (a, _) = a.expect("handshake");
    let (b, _) = b.expect("handshake");
    (a, b, sh)
}

/// snow's limit on the size of a Noise message, measured on a transport state built exactly like
/// litep2p's (same parameters, same resolver): the largest payload + 16 that write_message accepts
fn snow_max() -> u64 {
    thread_local! { static V: std::cell::Cell<u64> = std::cell::Cell::new(0); }
    let v = V.with(|v| v.get());
    if v != 0 {
        return v;
    }
    let mk = || snow::Builder::with_resolver(VERIF_NOISE_PARAMETERS.parse().expect("noise parameters"), Box::new(VerifNoiseResolver));
    let ka = mk().generate_keypair().unwrap();
    let kb = mk().generate_keypair().unwrap();
    let mut a = mk().local_private_key(&ka.private).build_initiator().unwrap();
    let mut b = mk().local_private_key(&kb.private).build_responder().unwrap();
    let mut m = vec![0u8; 70_000];
    let mut o = vec![0u8; 70_000];
    let n = a.write_message(&[], &mut m).unwrap();
    b.read_message(&m[..n], &mut o).unwrap();
    let n = b.write_message(&[], &mut m).unwrap();
    a.read_message(&m[..n], &mut o).unwrap();
    let n = a.write_message(&[], &mut m).unwrap();
    b.read_message(&m[..n], &mut o).unwrap();
    let mut a = a.into_transport_mode().unwrap();
    let payload = vec![0u8; 70_000];
    let mut best = 0u64;
    for l in 65_400usize..65_700 {
        if let Ok(n) = a.write_message(&payload[..l], &mut m) {
            best = best.max(n as u64);
        }
    }
    V.with(|v| v.set(best));
    best
}

struct Run<'a> {
    rt: &'a tokio::runtime::Runtime,
    sock: [Option<Sock>; 2],
    sh: Rc<RefCell<Shared>>,
    stream: [Vec<u8>; 2],
    accepted: [usize; 2],
    delivered: [usize; 2],
    out: Vec<u64>,
}

impl<'a> Run<'a> {
    /// one call on the writer half of side s; the record, and false if it panicked
    fn wop(&mut self, s: usize, op: &WOp) -> ([u64; 9], bool) {
        let waker = futures::task::noop_waker();
        let mut cx = Context::from_waker(&waker);
        self.sh.borrow_mut().dir[s].wlp = false;
        let acc = self.accepted[s];
        let stream = &self.stream[s];
        let a = self.sock[s].as_mut().unwrap();
        let unit = |p: Poll<io::Result<()>>| p.map(|r| r.map(|_| 0usize));
        let res = match op {
            WOp::Write(len) => {
                let buf = &stream[acc..acc + *len as usize];
                catch_unwind(AssertUnwindSafe(|| Pin::new(&mut *a).poll_write(&mut cx, buf))).map_err(|_| ())
            }
            WOp::WriteV(lens) => {
                let mut slices = Vec::new();
                let mut p = acc;
                for l in lens.iter() {
                    slices.push(io::IoSlice::new(&stream[p..p + *l as usize]));
                    p += *l as usize;
                }
                catch_unwind(AssertUnwindSafe(|| Pin::new(&mut *a).poll_write_vectored(&mut cx, &slices)))
                    .map_err(|_| ())
            }
            WOp::Flush => catch_unwind(AssertUnwindSafe(|| Pin::new(&mut *a).poll_flush(&mut cx)))
                .map(unit)
                .map_err(|_| ()),
            WOp::Close => catch_unwind(AssertUnwindSafe(|| Pin::new(&mut *a).poll_close(&mut cx)))
                .map(unit)
                .map_err(|_| ()),
        };
        if let (WOp::Write(_) | WOp::WriteV(_), Ok(Poll::Ready(Ok(n)))) = (op, &res) {
            self.accepted[s] += *n;
        }
        match res {
            Err(()) => ([3, 0, 0, 0, 0, 0, 0, 0, 0], false),
            Ok(p) => {
                let a = self.sock[s].as_ref().unwrap();
                let st = a.verif_write_state();
                let (t, v) = match p {
                    Poll::Ready(Ok(n)) => (0, n as u64),
                    Poll::Pending => (1, 0),
                    Poll::Ready(Err(e)) => (2, err_code(&e)),
                };
                let sh = self.sh.borrow();
                let d = &sh.dir[s];
                (
                    [
                        t,
                        v,
                        st[0] as u64,
                        st[1] as u64,
                        st[2] as u64,
                        d.total_written as u64,
                        d.wlp as u64,
                        d.closed as u64,
                        a.verif_nonces()[0],
                    ],
                    true,
                )
            }
        }
    }

    /// one poll_read with a buffer of bl bytes on side s (direction 1-s); None if it panicked
    fn rop(&mut self, s: usize, bl: usize, buf: &mut Vec<u8>) -> Option<[u64; 14]> {
        let waker = futures::task::noop_waker();
        let mut cx = Context::from_waker(&waker);
        let d = 1 - s;
        if buf.len() < bl {
            buf.resize(bl, 0);
        }
        self.sh.borrow_mut().dir[d].rlp = false;
        let b = self.sock[s].as_mut().unwrap();
        let res = catch_unwind(AssertUnwindSafe(|| Pin::new(&mut *b).poll_read(&mut cx, &mut buf[..bl])));
        let p = res.ok()?;
        let b = self.sock[s].as_ref().unwrap();
        let st = b.verif_read_state();
        let (t, x, y) = match p {
            Poll::Ready(Ok(n)) => {
                let del = self.delivered[d];
                let good = n <= bl && del + n <= self.accepted[d] && buf[..n] == self.stream[d][del..del + n];
                let pos = if good { del as u64 } else { MISMATCH };
                self.delivered[d] += n;
                (0, n as u64, pos)
            }
            Poll::Pending => (1, 0, 0),
            Poll::Ready(Err(e)) => (2, err_code(&e), 0),
        };
        let sh = self.sh.borrow();
        let dd = &sh.dir[d];
        let win = b.verif_read_window();
        let win_ok = win.len() <= dd.pulled && win == &dd.wire[dd.pulled - win.len()..dd.pulled];
        let mut r = [t, x, y, 0, 0, 0, 0, 0, 0, 0, dd.pulled as u64, dd.rlp as u64, b.verif_nonces()[1], win_ok as u64];
        for (j, v) in st.iter().enumerate() {
            r[3 + j] = *v as u64;
        }
        Some(r)
    }

    /// a same-length ciphertext body made by another session with the same nonce
    fn foreign_body(&self, nonce: usize, blen: usize, rng: &mut Rng) -> Vec<u8> {
        if blen < 17 || nonce > 400 {
            return (0..blen).map(|_| rng.next() as u8).collect();
        }
        let (mut a, _b, sh) = pair_plain(self.rt, 1, 2);
        let waker = futures::task::noop_waker();
        let mut cx = Context::from_waker(&waker);
        let data = vec![0x5au8; blen - 16];
        for _ in 0..nonce {
            let _ = Pin::new(&mut a).poll_write(&mut cx, &data[..1]);
            let _ = Pin::new(&mut a).poll_flush(&mut cx);
        }
        sh.borrow_mut().inbox[1].clear();
        let _ = Pin::new(&mut a).poll_write(&mut cx, &data);
        let _ = Pin::new(&mut a).poll_flush(&mut cx);
        let v: Vec<u8> = sh.borrow_mut().inbox[1].drain(..).collect();
        if v.len() == blen + 2 {
            v[2..].to_vec()
        } else {
            (0..blen).map(|_| rng.next() as u8).collect()
        }
    }

    /// writer calls of the round, final flush, the network. false = the run ended (panic)
    fn phase_write(&mut self, rd: &Round) -> bool {
        let d = rd.dir;
        self.sh.borrow_mut().dir[d].wscript = rd.wsc.iter().copied().collect();
        let mut recs: Vec<[u64; 9]> = Vec::new();
        let mut ok = true;
        for op in rd.wops.iter() {
            let (r, cont) = self.wop(d, op);
            recs.push(r);
            if !cont {
                ok = false;
                break;
            }
        }
        self.out.push(recs.len() as u64);
        for r in recs.iter() {
            self.out.extend(r);
        }
        self.out.push(ok as u64);
        if !ok {
            return false;
        }
        // final flush with an all-accepting carrier
        self.sh.borrow_mut().dir[d].wscript.clear();
        let (r, cont) = self.wop(d, &WOp::Flush);
        self.out.extend(r);
        if !cont {
            return false;
        }
        // ---- the network: complete frames recorded so far, manipulated
        let mut sh = self.sh.borrow_mut();
        let dir = &mut sh.dir[d];
        let rec = std::mem::take(&mut dir.written);
        // (bytes, index of the genuine frame, the genuine body once the model counts the body as modified)
        let mut items: Vec<(Vec<u8>, Option<usize>, Option<Vec<u8>>)> = Vec::new();
        let mut p = 0usize;
        while p + 2 <= rec.len() {
            let h = ((rec[p] as usize) << 8) | rec[p + 1] as usize;
            if p + 2 + h > rec.len() {
                break;
            }
            items.push((rec[p..p + 2 + h].to_vec(), Some(dir.nframes + items.len()), None));
            p += 2 + h;
        }
        dir.written = rec[p..].to_vec();
        let leftover = !dir.written.is_empty();
        dir.nframes += items.len();
        self.out.push(items.len() as u64 + leftover as u64);
        for it in items.iter() {
            self.out.push((it.0.len() - 2) as u64);
        }
        if leftover {
            self.out.push(0);
        }
        drop(sh);
        let mut rng = Rng::new(0x5eed ^ items.len() as u64);
        let mut trunc: Option<usize> = None;
        for t in rd.tampers.iter() {
            let [tt, ta, tb, tc] = *t;
            let i = ta.min(usize::MAX as u64) as usize;
            let j = tb.min(usize::MAX as u64) as usize;
            match tt {
                1 => {
                    let m = (tc & 0xff) as u8;
                    if i < items.len() && m != 0 && j < items[i].0.len() {
                        if j >= 2 {
                            touch(&mut items[i]);
                        }
                        items[i].0[j] ^= m;
                    }
                }
                2 => {
                    if i < items.len() {
                        items.remove(i);
                    }
                }
                3 => {
                    if i < items.len() {
                        let c = items[i].clone();
                        items.insert(i + 1, c);
                    }
                }
                4 => {
                    if i < items.len() && i + 1 < items.len() {
                        items.swap(i, i + 1);
                    }
                }
                5 => trunc = Some(trunc.map_or(i, |q| q.min(i))),
                6 => {
                    if i < items.len() {
                        let it = items.remove(i);
                        let at = j.min(items.len());
                        items.insert(at, it);
                    }
                }
                7 => {
                    if i < items.len() {
                        let it = items[i].clone();
                        let at = j.min(items.len());
                        items.insert(at, it);
                    }
                }
                8 => {
                    let h = (tb % 65536) as usize;
                    let bl = tc.min(FORGE_MAX) as usize;
                    let mut v = vec![(h >> 8) as u8, (h & 0xff) as u8];
                    v.extend((0..bl).map(|_| rng.next() as u8));
                    let at = i.min(items.len());
                    items.insert(at, (v, None, None));
                }
                9 => {
                    if i < items.len() {
                        // strictly inside the body (never at its end: the first `header` bytes would
                        // still be the ciphertext)
                        let bl = items[i].0.len() - 2;
                        touch(&mut items[i]);
                        items[i].0.insert(2 + bl / 2, rng.next() as u8);
                    }
                }
                10 => {
                    if i < items.len() && items[i].0.len() > 2 {
                        touch(&mut items[i]);
                        items[i].0.remove(2);
                    }
                }
                11 => {
                    if i < items.len() {
                        let bl = items[i].0.len() - 2;
                        let nonce = items[i].1.unwrap_or(i);
                        let body = self.foreign_body(nonce, bl, &mut rng);
                        touch(&mut items[i]);
                        items[i].0.truncate(2);
                        items[i].0.extend(body);
                    }
                }
                _ => {}
            }
            // the model counts a modified body as "not a ciphertext" for good; two manipulations
            // that undo each other (the same flip twice, a byte inserted and removed again) must
            // therefore not give the genuine body back
            for it in items.iter_mut() {
                if let Some(orig) = &it.2 {
                    if it.0.len() > 2 && it.0[2..] == orig[..] {
                        let last = it.0.len() - 1;
                        it.0[last] ^= 1;
                    }
                }
            }
        }
        let fresh: Vec<u8> = items.iter().flat_map(|it| it.0.iter().copied()).collect();
        let mut sh = self.sh.borrow_mut();
        let dir = &mut sh.dir[d];
        if !dir.cut {
            let base = dir.wire.len();
            dir.avail = base + trunc.map(|t| t.min(fresh.len())).unwrap_or(fresh.len());
            dir.wire.extend(fresh);
            dir.cut = trunc.is_some();
        }
        self.out.push(dir.avail as u64);
        true
    }

    /// the read phase: poll_read calls on the reading side interleaved with calls on its writer half
    fn phase_read(&mut self, rd: &Round) -> bool {
        let d = rd.dir;
        let s = 1 - d;
        {
            let mut sh = self.sh.borrow_mut();
            sh.dir[d].rscript = rd.rsc.iter().copied().collect();
            sh.dir[s].wscript = rd.xsc.iter().copied().collect();
        }
        let mut buf: Vec<u8> = Vec::new();
        let mut recs: Vec<Vec<u64>> = Vec::new();
        let mut ok = true;
        for op in rd.sched.iter() {
            match op {
                SOp::Read(bl) => match self.rop(s, *bl as usize, &mut buf) {
                    Some(r) => {
                        let mut v = vec![0u64];
                        v.extend(r);
                        recs.push(v);
                    }
                    None => {
                        let mut v = vec![0u64, 3];
                        v.extend([0u64; 13]);
                        recs.push(v);
                        ok = false;
                        break;
                    }
                },
                SOp::W(o) => {
                    let (r, cont) = self.wop(s, o);
                    let mut v = vec![1u64];
                    v.extend(r);
                    recs.push(v);
                    if !cont {
                        ok = false;
                        break;
                    }
                }
            }
        }
        self.out.push(recs.len() as u64);
        for r in recs.iter() {
            self.out.extend(r);
        }
        self.out.push(ok as u64);
        ok
    }
}

fn run_case(rt: &tokio::runtime::Runtime, c: &[u64]) -> Option<Vec<u64>> {
    let case = parse_case(c)?;
    let (f, wb) = (case.f as usize, case.wb as usize);
    let early = case.early && case.rounds.first().map(|r| r.dir == 0).unwrap_or(false);

    // plaintext streams: everything side s is ever asked to write
    let mut total_req = [0usize; 2];
    let wlen = |o: &WOp| match o {
        WOp::Write(l) => *l as usize,
        WOp::WriteV(v) => v.iter().map(|l| *l as usize).sum(),
        _ => 0,
    };
    for rd in case.rounds.iter() {
        total_req[rd.dir] += rd.wops.iter().map(wlen).sum::<usize>();
        total_req[1 - rd.dir] += rd
            .sched
            .iter()
            .map(|s| match s {
                SOp::W(o) => wlen(o),
                _ => 0,
            })
            .sum::<usize>();
    }
    let stream = [
        (0..total_req[0]).map(|i| pat(0, i)).collect::<Vec<u8>>(),
        (0..total_req[1]).map(|i| pat(1, i)).collect::<Vec<u8>>(),
    ];

    let header = |a: &Sock, b: &Sock| {
        let mut out = vec![1u64];
        out.extend(VERIF_CONSTS[..3].iter().map(|x| *x as u64));
        out.push(b.verif_buffer_sizes()[0] as u64);
        out.push(a.verif_buffer_sizes()[1] as u64);
        out.push(snow_max());
        out.push(b.verif_buffer_sizes()[2] as u64);
        out
    };

    if !early {
        let (a, b, sh) = pair_plain(rt, f, wb);
        sh.borrow_mut().scripted = [true, true];
        let out = header(&a, &b);
        let mut run = Run { rt, sock: [Some(a), Some(b)], sh, stream, accepted: [0; 2], delivered: [0; 2], out };
        for rd in case.rounds.iter() {
            if !run.phase_write(rd) || !run.phase_read(rd) {
                break;
            }
        }
        return Some(run.out);
    }

    // ---- early data: the dialer finishes its handshake, writes and flushes the first round, and
    // the (manipulated) ciphertext lies behind handshake message 3 in the listener's carrier before
    // the listener's handshake() has read message 3
    let sh = Rc::new(RefCell::new(Shared::default()));
    let c0 = Carrier { side: 0, sh: sh.clone() };
    let c1 = Carrier { side: 1, sh: sh.clone() };
    let k0 = Keypair::generate();
    let k1 = Keypair::generate();
    let t = std::time::Duration::from_secs(20);
    let _guard = rt.enter();
    let waker = futures::task::noop_waker();
    let mut cx = Context::from_waker(&waker);
    let mut fa = Box::pin(handshake(c0, &k0, Role::Dialer, f, wb, t, transport_of(f, wb)));
    let mut fb = Box::pin(handshake(c1, &k1, Role::Listener, f, wb, t, transport_of(f, wb)));
    let mut a: Option<Sock> = None;
    for _ in 0..16 {
        if let Poll::Ready(r) = fa.as_mut().poll(&mut cx) {
            a = Some(r.expect("handshake").0);
            break;
        }
        if let Poll::Ready(_) = fb.as_mut().poll(&mut cx) {
            panic!("listener finished before the dialer");
        }
    }
    let a = a.expect("dialer handshake");
    drop(fa);
    sh.borrow_mut().scripted[0] = true;
    let mut run = Run { rt, sock: [Some(a), None], sh: sh.clone(), stream, accepted: [0; 2], delivered: [0; 2], out: Vec::new() };
    let rd0 = &case.rounds[0];
    let cont = run.phase_write(rd0);
    // put what the network delivers behind message 3
    {
        let mut s = sh.borrow_mut();
        let av = s.dir[0].avail;
        let bytes: Vec<u8> = s.dir[0].wire[..av].to_vec();
        s.inbox[1].extend(bytes);
    }
    let mut b: Option<Sock> = None;
    for _ in 0..16 {
        if let Poll::Ready(r) = fb.as_mut().poll(&mut cx) {
            b = Some(r.expect("handshake").0);
            break;
        }
    }
    let b = b.expect("listener handshake");
    drop(fb);
    {
        // whatever the handshake left in the carrier is what the transport will read
        let mut s = sh.borrow_mut();
        let rest: Vec<u8> = s.inbox[1].drain(..).collect();
        s.dir[0].avail = rest.len();
        s.dir[0].wire = rest;
        s.dir[0].pulled = 0;
        s.scripted[1] = true;
    }
    let mut out = header(run.sock[0].as_ref().unwrap(), &b);
    out.append(&mut run.out);
    run.out = out;
    run.sock[1] = Some(b);
    if cont && run.phase_read(rd0) {
        for rd in case.rounds.iter().skip(1) {
            if !run.phase_write(rd) || !run.phase_read(rd) {
                break;
            }
        }
    }
    Some(run.out)
}

// ------------------------------------------------------------------ generator

fn push_wop(out: &mut Vec<u64>, op: &WOp) {
    match op {
        WOp::Write(l) => out.extend([0, *l]),
        WOp::Flush => out.push(1),
        WOp::Close => out.push(2),
        WOp::WriteV(v) => {
            out.extend([3, v.len() as u64]);
            out.extend(v);
        }
    }
}

/// an I/O error entry: every kind of the table, now and then a code outside it
fn fault(rng: &mut Rng, zero_ok: bool) -> u64 {
    let k = match rng.below(10) {
        0 if zero_ok => 0,
        1 => rng.pick(&[41u64, 99, 4]),
        2 | 3 => rng.pick(&[1u64, 2, 3, 5]),
        _ => KINDS[rng.below(KINDS.len() as u64) as usize].0,
    };
    SPECIAL + k
}

struct GenCfg {
    mfl: u64,
    msg: u64,
    f: u64,
    poll_budget: u64,
    byte_budget: u64,
}

/// writer calls of one phase; returns (ops, bytes offered)
fn gen_wops(rng: &mut Rng, g: &GenCfg, maxn: u64, small: bool, allow_close: bool) -> (Vec<WOp>, u64) {
    let mfl = g.mfl;
    let nw = rng.range(0, maxn);
    let mut ops = Vec::new();
    let mut total = 0u64;
    for _ in 0..nw {
        let len = if small {
            rng.pick(&[1u64, 2, 3, 15, 16, 17, 100, 512, 1000, 4096, 16384])
        } else {
            match rng.below(12) {
                0 => mfl - 1,
                1 => mfl,
                2 => mfl + 1,
                3 => 2 * mfl - 1 + rng.below(3),
                4 => 3 * mfl + 1,
                5 => 65520 + rng.below(2),
                6 => 2 * 65520 + rng.below(2),
                7 => 3 * 65520 + 1,
                8 => rng.range(1, 200_000),
                9 => rng.range(1, 70_000),
                10 => rng.pick(&[0u64, 1, 2, 17]),
                _ => rng.range(60_000, 66_000),
            }
        };
        if total + len > g.byte_budget {
            continue;
        }
        total += len;
        if rng.chance(10) {
            // vectored write: only the first non-empty buffer is taken by the default implementation
            let extra = rng.pick(&[0u64, 1, 7, 100]);
            let lens: Vec<u64> = match rng.below(4) {
                0 => vec![len, extra],
                1 => vec![0, len, extra],
                2 => vec![0, 0],
                _ => vec![0, 0, len],
            };
            total += extra;
            ops.push(WOp::WriteV(lens));
        } else {
            ops.push(WOp::Write(len));
        }
        if rng.chance(25) {
            ops.push(WOp::Flush);
        }
        if allow_close && rng.chance(5) {
            // close (possibly early; later calls then hit a closed carrier), sometimes polled twice
            for _ in 0..rng.range(1, 3) {
                ops.push(WOp::Close);
            }
        }
        // a big write is usually accepted in part: offer the rest again
        if len > mfl && rng.chance(60) && total + len <= g.byte_budget {
            ops.push(WOp::Write(len));
            total += len;
            ops.push(WOp::Flush);
        }
    }
    if allow_close && rng.chance(10) {
        for _ in 0..rng.range(1, 3) {
            ops.push(WOp::Close);
        }
    }
    (ops, total)
}

fn gen_wsc(rng: &mut Rng) -> Vec<u64> {
    let mut wsc: Vec<u64> = Vec::new();
    match rng.below(4) {
        0 => {}
        1 => {
            for _ in 0..rng.range(1, 12) {
                wsc.push(if rng.chance(60) { 0 } else { rng.pick(&[1u64, 2, 18, 1000, 65537, 65538, BIG]) });
            }
        }
        _ => {
            for _ in 0..rng.range(1, 40) {
                wsc.push(if rng.chance(20) {
                    0
                } else {
                    rng.pick(&[1u64, 1, 2, 3, 17, 18, 19, 1000, 30000, 65536, 65537, 65538, 65539, BIG])
                });
            }
        }
    }
    // carrier faults on the write side: Ok(0) or an I/O error at a random carrier call
    if rng.chance(15) {
        for _ in 0..rng.range(1, 3) {
            let at = rng.below(wsc.len() as u64 + 1) as usize;
            wsc.insert(at, fault(rng, true));
        }
    }
    wsc
}

fn gen_tamper(rng: &mut Rng, est_frames: u64, total: u64) -> [u64; 4] {
    let i = rng.below(est_frames.min(8) + 1);
    let j = rng.below(est_frames.min(8) + 2);
    match rng.below(13) {
        0 | 1 => {
            let b = match rng.below(6) {
                0 => 0,
                1 => 1,
                2 => 2,
                3 => rng.range(2, 18),
                4 => rng.range(2, 70_000),
                _ => rng.range(2, 1100),
            };
            [1, i, b, if rng.chance(5) { 0 } else { rng.range(1, 255) }]
        }
        2 => [2, i, 0, 0],
        3 => [3, i, 0, 0],
        4 => [4, i, 0, 0],
        5 => [5, rng.below(total + 18 * est_frames + 4), 0, 0],
        6 => [6, i, j, 0],
        7 => [7, i, j, 0],
        8 => {
            let h = rng.pick(&[0u64, 1, 16, 17, 18, 100, 65535, 65536 + 40, 30000]);
            let bl = match rng.below(4) {
                0 => h % 65536,
                1 => 0,
                2 => rng.range(0, 200),
                _ => (h % 65536).saturating_sub(1),
            };
            [8, i, h, bl]
        }
        9 => [9, i, 0, 0],
        10 => [10, i, 0, 0],
        11 => [11, i, 0, 0],
        _ => [0, 0, 0, 0],
    }
}

fn gen_rsc(rng: &mut Rng, g: &GenCfg, wire_est: u64, thorough: bool) -> Vec<u64> {
    let (mfl, msg, m) = (g.mfl, g.msg, g.f.max(1) * g.msg);
    let mut rsc: Vec<u64> = Vec::new();
    let style = rng.below(5);
    let nitems = rng.range(0, if thorough { 400 } else { 120 });
    for _ in 0..nitems {
        if rng.chance(12) {
            rsc.push(0);
            continue;
        }
        rsc.push(match style {
            0 => 1,
            1 => rng.pick(&[1u64, 2, 3]),
            2 => rng.pick(&[1u64, 2, 3, 17, 18, 19, mfl + 16, mfl + 17, mfl + 18, mfl + 19, 65535, 65536, 65537, 65538]),
            3 => rng.pick(&[m - 2, m - 1, m, m + 1, m + 2, 1, 2, msg - 1, msg, msg + 1]),
            _ => rng.range(1, 2 * msg),
        });
    }
    if !rng.chance(8) {
        for _ in 0..(wire_est / 30_000 + 40) {
            rsc.push(BIG);
            if rng.chance(5) {
                rsc.push(0);
            }
        }
    }
    // carrier faults on the read side: a zero-length read or an I/O error at a random carrier call
    // (the start, mid-header and mid-frame positions all occur because the chunking is random)
    if rng.chance(15) {
        for _ in 0..rng.range(1, 3) {
            let at = rng.below(rsc.len().min(30) as u64 + 1) as usize;
            rsc.insert(at, fault(rng, true));
        }
    }
    rsc
}

/// (buffer length, repetitions) pairs of a read phase
fn gen_reads(rng: &mut Rng, g: &GenCfg, total: u64, est_frames: u64, stalls: u64, polls: &mut u64) -> Vec<(u64, u64)> {
    let mfl = g.mfl;
    let mut reads = Vec::new();
    let rstyle = rng.below(4);
    let nr = rng.range(0, 12);
    for _ in 0..nr {
        let bl = match rstyle {
            0 => rng.pick(&[1u64, 2, 15, 16, 17]),
            1 => rng.pick(&[0u64, 1, 2, 15, 16, 17, 4096, mfl - 16, mfl - 1, mfl, mfl + 1, 65504, 65519, 65520, 70_000]),
            2 => rng.pick(&[4096u64, 16384, mfl - 1, mfl, mfl + 1, 70_000]),
            _ => rng.range(1, 70_000),
        };
        let rep = rng.range(1, if bl < 100 { 40 } else { 12 });
        if *polls + rep > g.poll_budget {
            break;
        }
        *polls += rep;
        reads.push((bl, rep));
    }
    if !rng.chance(10) {
        // drain until the carrier's EOF (or the error) with a buffer that keeps the trace short
        let bl = rng.pick(&[4096u64, 16384, mfl - 1, mfl, 65520, 70_000]);
        // the socket is polled on after EOF / errors, so a few extra polls exercise the re-poll paths
        let bl = bl.max(total / g.poll_budget + 1);
        let rep = (total / bl.min(mfl) + est_frames + stalls + rng.range(2, 8)).min(g.poll_budget * 2);
        reads.push((bl, rep));
    }
    reads
}

/// the single-round, dialer-writes format (kept: C19 and the stored cases use it)
fn gen_case_old(rng: &mut Rng, thorough: bool) -> Vec<u64> {
    let mfl = VERIF_CONSTS[2] as u64;
    let msg = VERIF_CONSTS[0] as u64;
    let f = rng.pick(&[1u64, 1, 1, 2, 2, 3, 5]);
    let wb = rng.pick(&[1u64, 1, 2, 2, 4]);
    let g = GenCfg { mfl, msg, f, poll_budget: if thorough { 1500 } else { 350 }, byte_budget: if thorough { 900_000 } else { 450_000 } };
    let small = rng.chance(35);
    let (wops, total) = gen_wops(rng, &g, if small { 10 } else { 6 }, small, true);
    let wsc = gen_wsc(rng);
    let est_frames = total / mfl + wops.len() as u64 + 1;
    let tamper = if rng.chance(55) { [0, 0, 0, 0] } else { gen_tamper(rng, est_frames, total) };
    let rsc = gen_rsc(rng, &g, total + 18 * est_frames, thorough);
    let stalls = rsc.iter().filter(|x| **x == 0 || **x >= SPECIAL).count() as u64;
    let mut polls = 0;
    let reads = gen_reads(rng, &g, total, est_frames, stalls, &mut polls);
    let mut c = vec![f, wb, wops.len() as u64];
    for o in wops.iter() {
        push_wop(&mut c, o);
    }
    c.push(wsc.len() as u64);
    c.extend(wsc);
    c.extend(tamper);
    c.push(reads.len() as u64);
    for (b, r) in reads.iter() {
        c.extend([*b, *r]);
    }
    c.push(rsc.len() as u64);
    c.extend(rsc);
    c
}

/// several rounds in both directions, lists of manipulations, both halves of a socket in use
fn gen_case_ext(rng: &mut Rng, thorough: bool) -> Vec<u64> {
    let mfl = VERIF_CONSTS[2] as u64;
    let msg = VERIF_CONSTS[0] as u64;
    // a zero read-ahead factor or write-buffer size is outside the property (the oracle says so);
    // the model is still compared
    let f = if rng.chance(1) { 0 } else { rng.pick(&[1u64, 1, 1, 2, 2, 3, 5]) };
    let wb = if rng.chance(1) { 0 } else { rng.pick(&[1u64, 1, 2, 2, 4]) };
    let nrounds = rng.pick(&[1u64, 1, 2, 2, 3, 4]);
    let g = GenCfg {
        mfl,
        msg,
        f,
        poll_budget: (if thorough { 1500 } else { 350 }) / nrounds,
        byte_budget: (if thorough { 900_000 } else { 450_000 }) / nrounds,
    };
    let first_dir = rng.below(2);
    let early = first_dir == 0 && rng.chance(35);
    let mut c = vec![EXT_TAG, f, wb, early as u64, nrounds];
    let mut dir = first_dir;
    for r in 0..nrounds {
        if r > 0 && rng.chance(70) {
            dir = 1 - dir;
        }
        let small = rng.chance(40);
        let closes = rng.chance(30);
        let (wops, mut total) = gen_wops(rng, &g, if small { 8 } else { 4 }, small, closes);
        let wsc = if early && r == 0 && rng.chance(50) { Vec::new() } else { gen_wsc(rng) };
        let est_frames = total / mfl + wops.len() as u64 + 1;
        let mut tampers: Vec<[u64; 4]> = Vec::new();
        if !rng.chance(55) {
            for _ in 0..rng.pick(&[1u64, 1, 1, 2, 3]) {
                tampers.push(gen_tamper(rng, est_frames, total));
            }
        } else if rng.chance(10) {
            tampers.push([0, 0, 0, 0]);
        }
        // what an earlier round left in this direction comes on top
        total += g.byte_budget / 2;
        let rsc = gen_rsc(rng, &g, total + 18 * est_frames, thorough);
        let stalls = rsc.iter().filter(|x| **x == 0 || **x >= SPECIAL).count() as u64;
        let mut polls = 0;
        let reads = gen_reads(rng, &g, total, est_frames, stalls, &mut polls);
        // the schedule: the reads, with calls on the reading socket's writer half in between
        let cross = rng.chance(45);
        let (xsmall, xclose) = (rng.chance(60), rng.chance(15));
        let (xops, _) = if cross { gen_wops(rng, &g, 4, xsmall, xclose) } else { (Vec::new(), 0) };
        let xsc = if cross { gen_wsc(rng) } else { Vec::new() };
        let mut sched: Vec<Vec<u64>> = Vec::new();
        for (b, rep) in reads.iter() {
            // split a run of equal reads so that writer calls can fall inside it
            let mut left = *rep;
            while left > 0 {
                let k = if cross { rng.range(1, left) } else { left };
                sched.push(vec![0, *b, k]);
                left -= k;
            }
        }
        for o in xops.iter() {
            let at = rng.below(sched.len() as u64 + 1) as usize;
            let mut v = vec![1u64];
            push_wop(&mut v, o);
            sched.insert(at, v);
        }
        // keep the relative order of the writer calls as generated (insertion above may permute
        // them, which is fine: any order is a valid schedule)
        c.push(dir);
        c.push(wops.len() as u64);
        for o in wops.iter() {
            push_wop(&mut c, o);
        }
        c.push(wsc.len() as u64);
        c.extend(wsc);
        c.push(tampers.len() as u64);
        for t in tampers.iter() {
            c.extend(t);
        }
        c.push(sched.len() as u64);
        for s in sched.iter() {
            c.extend(s);
        }
        c.push(rsc.len() as u64);
        c.extend(rsc);
        c.push(xsc.len() as u64);
        c.extend(xsc);
    }
    c
}

fn gen_case(rng: &mut Rng, thorough: bool) -> Vec<u64> {
    if rng.chance(30) {
        gen_case_old(rng, thorough)
    } else {
        gen_case_ext(rng, thorough)
    }
}

pub fn main(args: &Args) {
    let seed = args.u64("seed", 1);
    let ncases = args.u64("cases", 100);
    let thorough = args.str("tier") == Some("thorough");
    let mut out = Outputs::open(args);
    let rt = tokio::runtime::Builder::new_current_thread().enable_all().build().unwrap();
    let mut rng = Rng::new(seed);

    let mut stored: Vec<Vec<u64>> = Vec::new();
    if let Some(r) = args.str("replay") {
        stored = read_cases(Path::new(r));
    } else if let Some(d) = args.str("corpus") {
        stored = read_cases(Path::new(d));
    }
    let run = |c: &[u64], out: &mut Outputs| {
        let t = catch_unwind(AssertUnwindSafe(|| run_case(&rt, c)))
            .unwrap_or(Some(vec![PANIC_MARK]))
            .unwrap_or(vec![0]);
        out.emit(c, &t);
    };
    for c in stored.iter() {
        run(c, &mut out);
    }
    if args.str("replay").is_some() {
        return;
    }
    for _ in 0..ncases {
        let mut r = rng.fork();
        let c = gen_case(&mut r, thorough);
        run(&c, &mut out);
    }
}
