//! C07, kind 3 — *loop level*: the real connection event loop (`TcpConnection::start` /
//! `WebSocketConnection::start`) over a loopback socket, polled BY HAND.
//!
//! Side A is the connection under test: a real `ProtocolSet` built by `ProtocolSet::new` from
//! protocols whose channels the harness owns (capacity `cap`, optional fallback names), the
//! production constructor of the connection object (hooks `verif_connection` /
//! `VerifWsConnection::listener`) and its `start()` future, which is never spawned: the harness polls
//! it (under `catch_unwind`), so the schedule of the connection task against everything else is the
//! harness's choice. Side R is a bare yamux endpoint (hook `verif_raw_peer` / `raw_dialer`) that opens
//! substreams, answers, refuses, resets or stalls the negotiation, and closes. The protocols act through
//! the real `ConnectionHandle`s they received with `ConnectionEstablished`.
//!
//! case  = 3 tr n fbmask dead0 cap nops (op a b f c)*
//!         tr: bits 0-1 0 TCP 1 WebSocket 2 QUIC (harness built with the `quic` feature), bit 2 hold (long
//!         substream-open timeout, b = 4 allowed); n protocols (1..4); protocol i has the fallback name iff bit i of
//!         fbmask; dead0: receivers dropped before the connection is accepted; f: 0, or p+1 = the channel
//!         of protocol p is full while the op runs (observed: has the loop ended / has the manager been
//!         told before the channel is drained); c: slot the harness fills with the exit arm it observed
//!         op 1 protocol a opens a substream, R: b = 0 accepts 1 refuses 2 resets 3 stalls (timeout)
//!            2 R opens a substream proposing name a (2i main of i, 2i+1 fallback of i, else unknown),
//!              b = 0 negotiates, 3 stalls after the header
//!            3 protocol a force-closes | 4 protocol a drops its handle | 5 the receiver of protocol a
//!            is dropped | 6 the manager's receiver is dropped | 7 R closes (b = 0 yamux close, 1 socket)
//!            9 every protocol drops its handle and R opens a substream (name a) before the loop is
//!              polled again: the `None` command and the refused permit race
//! trace = 1 (cnt kind*){n} then per op: rc early_done early_mgr (cnt kind*){n} mgr state arm
//!         kind 1 established 2 closed 3 inbound substream 4 outbound substream 5 open failure
//!         state 0 running 1 ended Ok 2 ended Err 3 panicked; arm 0, or 1 + index of the exit message
//!         in gen_c07_msgs.rs (1 no permit, 2 error, 3 end of stream, 4 force close, 5 no command sender)
use crate::gen_c07_msgs::{TCP_EXIT_MSGS, WS_EXIT_MSGS};
#[cfg(feature = "quic")]
use crate::gen_c07_msgs::QUIC_EXIT_MSGS;
#[cfg(feature = "quic")]
use litep2p::transport::quic::verif_loop::{verif_pair as quic_pair, VerifQuicRaw, VerifQuicStream};
use crate::util::Rng;
use futures::{AsyncWriteExt, FutureExt};
use litep2p::{
    codec::ProtocolCodec,
    config::Role,
    crypto::ed25519::Keypair,
    protocol::{
        verif::{InnerTransportEvent, ProtocolContext, ProtocolSet, TransportManagerEvent},
        Direction, SubstreamKeepAlive,
    },
    transport::{
        tcp::verif::TcpConnection,
        websocket::verif::{negotiate_protocol as ws_negotiate, VerifWsConnection},
        Endpoint,
    },
    types::{protocol::ProtocolName, ConnectionId, SubstreamId},
    yamux, PeerId,
};
use std::{
    collections::{HashMap, VecDeque},
    future::Future,
    pin::Pin,
    sync::{
        atomic::{AtomicUsize, Ordering},
        Arc, Mutex,
    },
    task::{Context, Poll},
    time::Duration,
};
use tokio::sync::mpsc;

const OPEN_TIMEOUT: Duration = Duration::from_millis(400);
/// substream-open timeout of `hold` cases: never reached while the case runs
const HOLD_TIMEOUT: Duration = Duration::from_secs(30);

// ------------------------------------------------------------------------------------------
// log capture: the message of the arm through which the loop ended
// ------------------------------------------------------------------------------------------

struct Cap(Arc<Mutex<Vec<String>>>, Arc<Mutex<Vec<String>>>);

struct MsgVisitor(Option<String>, String);
impl tracing::field::Visit for MsgVisitor {
    fn record_debug(&mut self, field: &tracing::field::Field, value: &dyn std::fmt::Debug) {
        if field.name() == "message" {
            self.0 = Some(format!("{value:?}"));
        } else {
            self.1.push_str(&format!(" {}={value:?}", field.name()));
        }
    }
    fn record_str(&mut self, field: &tracing::field::Field, value: &str) {
        if field.name() == "message" {
            self.0 = Some(value.to_string());
        }
    }
}

impl tracing::Subscriber for Cap {
    fn enabled(&self, m: &tracing::Metadata<'_>) -> bool {
        *m.level() <= tracing::Level::DEBUG && (m.target() == "litep2p::tcp::connection"
                || m.target() == "litep2p::websocket::connection"
                || m.target() == "litep2p::quic::connection")
    }
    fn new_span(&self, _: &tracing::span::Attributes<'_>) -> tracing::span::Id {
        tracing::span::Id::from_u64(1)
    }
    fn record(&self, _: &tracing::span::Id, _: &tracing::span::Record<'_>) {}
    fn record_follows_from(&self, _: &tracing::span::Id, _: &tracing::span::Id) {}
    fn event(&self, ev: &tracing::Event<'_>) {
        let mut v = MsgVisitor(None, String::new());
        ev.record(&mut v);
        if let Some(m) = v.0 {
            // debugging aid (C07_LOOP_TRAP): the whole history with the other fields
            self.1.lock().unwrap().push(format!("{m}{}", v.1));
            self.0.lock().unwrap().push(m);
        }
    }
    fn enter(&self, _: &tracing::span::Id) {}
    fn exit(&self, _: &tracing::span::Id) {}
}

// ------------------------------------------------------------------------------------------

fn main_name(i: usize) -> ProtocolName {
    ProtocolName::from(format!("/c07/loop/{i}"))
}
fn fb_name(i: usize) -> ProtocolName {
    ProtocolName::from(format!("/c07/loop/{i}/fb"))
}
fn name_of_code(code: u64, n: usize) -> String {
    let i = (code / 2) as usize;
    if i < n {
        if code % 2 == 0 {
            main_name(i).to_string()
        } else {
            fb_name(i).to_string()
        }
    } else {
        format!("/c07/unknown/{code}")
    }
}

fn kind_of(ev: &InnerTransportEvent) -> u64 {
    match ev {
        InnerTransportEvent::ConnectionEstablished { .. } => 1,
        InnerTransportEvent::ConnectionClosed { .. } => 2,
        InnerTransportEvent::SubstreamOpened { direction, .. } => match direction {
            Direction::Inbound => 3,
            Direction::Outbound(_) => 4,
        },
        InnerTransportEvent::SubstreamOpenFailure { .. } => 5,
        InnerTransportEvent::DialFailure { .. } => 9,
    }
}

/// The remote end: a bare yamux peer (TCP, WebSocket) or a bare QUIC peer.
enum Raw {
    Tcp(litep2p::transport::tcp::verif::VerifRawPeer),
    Ws(litep2p::transport::websocket::verif::VerifRawWsPeer),
    #[cfg(feature = "quic")]
    Quic(Arc<VerifQuicRaw>),
}

/// What R needs to open streams and to close.
#[derive(Clone)]
enum Ctl {
    Yamux(yamux::Control),
    #[cfg(feature = "quic")]
    Quic(Arc<VerifQuicRaw>),
}

/// A stream at R: inbound and not negotiated yet, or negotiated and only kept open.
enum RStream {
    Yamux(yamux::Stream),
    Held(#[allow(dead_code)] Box<dyn std::any::Any + Send>),
    #[cfg(feature = "quic")]
    Quic(VerifQuicStream),
}

impl Raw {
    fn ctl(&self) -> Ctl {
        match self {
            Raw::Tcp(r) => Ctl::Yamux(r.control()),
            Raw::Ws(r) => Ctl::Yamux(r.control()),
            #[cfg(feature = "quic")]
            Raw::Quic(r) => Ctl::Quic(r.clone()),
        }
    }
    async fn next(&mut self) -> Option<RStream> {
        match self {
            Raw::Tcp(r) => r.next().await.and_then(|x| x.ok()).map(RStream::Yamux),
            Raw::Ws(r) => r.next().await.and_then(|x| x.ok()).map(RStream::Yamux),
            #[cfg(feature = "quic")]
            Raw::Quic(r) => r.next_inbound().await.map(RStream::Quic),
        }
    }
}

async fn negotiate(
    tr: u64,
    stream: yamux::Stream,
    dialer: bool,
    names: Vec<String>,
) -> Option<litep2p::verif_multistream_select::Negotiated<yamux::Stream>> {
    let t = Duration::from_secs(2);
    let r = if tr == 0 {
        TcpConnection::verif_negotiate_protocol(stream, dialer, names, t).await
    } else {
        ws_negotiate(stream, dialer, names, t).await
    };
    r.ok().map(|(s, _)| s)
}

/// R answers an inbound stream as the listener of multistream-select with `names` as its protocols.
async fn answer(tr: u64, stream: RStream, names: Vec<String>) -> Option<RStream> {
    match stream {
        RStream::Yamux(s) => negotiate(tr, s, false, names).await.map(|x| RStream::Held(Box::new(x))),
        #[cfg(feature = "quic")]
        RStream::Quic(s) => s.negotiate(names).await.map(RStream::Quic),
        RStream::Held(_) => None,
    }
}

/// R opens a stream and proposes `name`; `stall`: only the multistream header is written.
async fn remote_open(tr: u64, ctl: Ctl, name: String, stall: bool) -> Option<RStream> {
    match ctl {
        Ctl::Yamux(mut ctl) => {
            let mut s = ctl.open_stream().await.ok()?;
            if stall {
                let _ = s.write_all(b"\x13/multistream/1.0.0\n").await;
                let _ = s.flush().await;
                Some(RStream::Yamux(s))
            } else {
                negotiate(tr, s, true, vec![name]).await.map(|x| RStream::Held(Box::new(x)))
            }
        }
        #[cfg(feature = "quic")]
        Ctl::Quic(raw) => raw.open(vec![name], stall).await.map(RStream::Quic),
    }
}

struct St {
    n: usize,
    rxs: Vec<Option<mpsc::Receiver<InnerTransportEvent>>>,
    txs: Vec<mpsc::Sender<InnerTransportEvent>>,
    mgr_rx: Option<mpsc::Receiver<TransportManagerEvent>>,
    handles: Vec<Option<litep2p::protocol::verif_protocol_set::ConnectionHandle>>,
    fut: Option<Pin<Box<dyn Future<Output = litep2p::Result<()>>>>>,
    /// 0 running 1 Ok 2 Err 3 panicked
    state: u64,
    got: Vec<Vec<u64>>,
    mgr: u64,
    skip: Option<usize>,
}

impl St {
    fn poll_a(&mut self) -> bool {
        let Some(fut) = self.fut.as_mut() else { return false };
        let w = futures::task::noop_waker();
        let mut cx = Context::from_waker(&w);
        match std::panic::catch_unwind(std::panic::AssertUnwindSafe(|| fut.as_mut().poll(&mut cx))) {
            Ok(Poll::Pending) => false,
            Ok(Poll::Ready(r)) => {
                self.state = if r.is_ok() { 1 } else { 2 };
                self.fut = None;
                true
            }
            Err(_) => {
                self.state = 3;
                // the future is poisoned: forget it without running its destructor twice
                if let Some(f) = self.fut.take() {
                    let _ = std::panic::catch_unwind(std::panic::AssertUnwindSafe(move || drop(f)));
                }
                true
            }
        }
    }

    /// Receive (and drop) everything that waits on the protocol channels and on the manager's.
    fn drain(&mut self) -> bool {
        let mut progress = false;
        for i in 0..self.n {
            if self.skip == Some(i) {
                continue;
            }
            if let Some(rx) = self.rxs[i].as_mut() {
                while let Ok(ev) = rx.try_recv() {
                    let k = kind_of(&ev);
                    if k != 9 {
                        self.got[i].push(k);
                        progress = true;
                    }
                    drop(ev);
                }
            }
        }
        if let Some(rx) = self.mgr_rx.as_mut() {
            while rx.try_recv().is_ok() {
                self.mgr += 1;
                progress = true;
            }
        }
        progress
    }
}

async fn turn() {
    for _ in 0..3 {
        tokio::task::yield_now().await;
    }
    tokio::time::sleep(Duration::from_millis(1)).await;
    for _ in 0..3 {
        tokio::task::yield_now().await;
    }
}

struct Remote {
    control: Ctl,
    driver: tokio::task::JoinHandle<()>,
    policies: Arc<Mutex<VecDeque<u64>>>,
    handled: Arc<AtomicUsize>,
    expected: usize,
    acts: Vec<tokio::task::JoinHandle<()>>,
    /// helpers that only hold a stalled stream: nothing waits for them
    bg: Vec<tokio::task::JoinHandle<()>>,
    up: bool,
}

/// Rounds of (let everything else run, poll A, receive) until nothing is outstanding and nothing has
/// happened for a few rounds.
async fn quiesce(st: &mut St, r: &mut Remote, min_wait: Duration, max_wait: Duration) {
    let start = std::time::Instant::now();
    let mut idle = 0;
    for _ in 0..3000 {
        turn().await;
        let mut progress = st.poll_a();
        progress |= st.drain();
        let outstanding = st.state == 0
            && r.up
            && (r.handled.load(Ordering::SeqCst) < r.expected || r.acts.iter().any(|h| !h.is_finished()));
        if progress || outstanding || start.elapsed() < min_wait {
            idle = 0;
        } else {
            idle += 1;
        }
        if idle >= 8 || start.elapsed() > max_wait {
            break;
        }
    }
}

/// R opens a substream and proposes `name`; `stall`: it goes silent after the multistream header.
fn spawn_remote_open(rem: &mut Remote, tr: u64, name: String, stall: bool) {
    let ctl = rem.control.clone();
    let list = if stall { &mut rem.bg } else { &mut rem.acts };
    list.push(tokio::spawn(async move {
        let held = remote_open(tr, ctl, name, stall).await;
        tokio::time::sleep(if stall { Duration::from_secs(60) } else { Duration::from_millis(60) }).await;
        drop(held);
    }));
}

/// R goes away: `graceful` closes the yamux connection first; QUIC: an application close either way.
async fn remote_close(rem: &mut Remote, graceful: bool) {
    match rem.control.clone() {
        Ctl::Yamux(mut ctl) => {
            if graceful {
                let h = tokio::spawn(async move {
                    let _ = ctl.close().await;
                });
                for _ in 0..20 {
                    turn().await;
                    if h.is_finished() {
                        break;
                    }
                }
                h.abort();
            }
        }
        #[cfg(feature = "quic")]
        Ctl::Quic(raw) => raw.close(),
    }
    for h in rem.acts.drain(..).chain(rem.bg.drain(..)) {
        h.abort();
    }
    rem.driver.abort();
    rem.up = false;
}

pub fn run_loop(case: &mut [u64]) -> Vec<u64> {
    if case.len() < 7 {
        return vec![0];
    }
    let (tr, n, fbmask, dead0, cap, nops) =
        (case[1], case[2] as usize, case[3], case[4], case[5] as usize, case[6] as usize);
    // tr: bits 0-1 transport (0 TCP, 1 WebSocket, 2 QUIC), bit 2 hold
    let hold = tr >> 2 & 1 == 1;
    let open_timeout = if hold { HOLD_TIMEOUT } else { OPEN_TIMEOUT };
    if tr > 7 || tr & 3 == 3 || tr == 6 || (tr & 3 == 2 && !cfg!(feature = "quic")) || !(1..=4).contains(&n) || !(1..=64).contains(&cap) || case.len() != 7 + 5 * nops || nops > 40 {
        return vec![0];
    }
    if fbmask >= 16 || dead0 >= 16 {
        return vec![0];
    }
    for k in 0..nops {
        let (op, b) = (case[7 + 5 * k], case[9 + 5 * k]);
        if !((1..=7).contains(&op) || op == 9) {
            return vec![0];
        }
        // b = 3 waits for the open timeout, b = 4 leaves the negotiation pending: the latter in hold cases only
        if (op == 1 || op == 2) && ((hold && b == 3) || (!hold && b == 4)) {
            return vec![0];
        }
        // QUIC: whether an outbound open that times out is answered is C08's business (F-C08a)
        if op == 1 && b == 3 && tr & 3 == 2 {
            return vec![0];
        }
        // races: an inbound substream only together with "every handle dropped"; in hold cases only that pair
        if op == 9 && (b >= 16 || if hold { b != 0 } else { b & 8 != 0 && b & 4 == 0 }) {
            return vec![0];
        }
    }
    let msgs = Arc::new(Mutex::new(Vec::<String>::new()));
    let history = Arc::new(Mutex::new(Vec::<String>::new()));
    let _guard = tracing::subscriber::set_default(Cap(msgs.clone(), history.clone()));
    let trap = std::env::var("C07_LOOP_TRAP").is_ok();
    let mut pend_seen = 0u64;
    let rt = tokio::runtime::Builder::new_current_thread().enable_all().build().unwrap();
    let tr = tr & 3;
    // exit messages of the transport in source order, and the arm (1 no permit, 2 error, 3 end of stream,
    // 4 force close, 5 no command sender) each of them stands for
    let (exit_msgs, exit_arms): (&[&str], &[u64]) = match tr {
        0 => (TCP_EXIT_MSGS, &[1, 2, 3, 4, 5]),
        1 => (WS_EXIT_MSGS, &[1, 2, 3, 4, 5]),
        #[cfg(feature = "quic")]
        _ => (QUIC_EXIT_MSGS, &[1, 2, 5, 4]),
        #[cfg(not(feature = "quic"))]
        _ => return vec![0],
    };
    // (if the source has gained or lost a closed report the lists differ in length: the skeleton proofs break;
    // the harness goes on and names what it cannot place 99)
    let result: Option<Vec<u64>> = rt.block_on(async {

        let mut protocols = HashMap::new();
        let mut rxs = Vec::new();
        let mut txs = Vec::new();
        for i in 0..n {
            let (tx, rx) = mpsc::channel(cap);
            protocols.insert(
                main_name(i),
                ProtocolContext {
                    codec: ProtocolCodec::Identity(32),
                    tx: tx.clone(),
                    fallback_names: if fbmask >> i & 1 == 1 { vec![fb_name(i)] } else { Vec::new() },
                    keep_alive: SubstreamKeepAlive::Yes,
                },
            );
            txs.push(tx);
            rxs.push(if dead0 >> i & 1 == 1 { None } else { Some(rx) });
        }
        let (mgr_tx, mgr_rx) = mpsc::channel::<TransportManagerEvent>(64);
        let id = ConnectionId::from(7usize);
        let mut set = ProtocolSet::new(id, mgr_tx.clone(), Arc::new(AtomicUsize::new(0)), protocols);
        drop(mgr_tx);
        let peer = PeerId::random();
        let endpoint = Endpoint::Listener { address: "/ip4/127.0.0.1/tcp/1".parse().unwrap(), connection_id: id };

        let mut st = St {
            n,
            rxs,
            txs,
            mgr_rx: Some(mgr_rx),
            handles: (0..n).map(|_| None).collect(),
            fut: None,
            state: 0,
            got: vec![Vec::new(); n],
            mgr: 0,
            skip: None,
        };
        // what `accept` does first: tell the protocols (they receive while the report runs)
        {
            let mut rep = Box::pin(set.verif_report_connection_established(peer, endpoint));
            let mut done = false;
            for _ in 0..200 {
                if let Some(r) = (&mut rep).now_or_never() {
                    r.ok()?;
                    done = true;
                    break;
                }
                for i in 0..n {
                    if let Some(rx) = st.rxs[i].as_mut() {
                        while let Ok(ev) = rx.try_recv() {
                            if let InnerTransportEvent::ConnectionEstablished { sender, .. } = ev {
                                st.handles[i] = Some(sender);
                                st.got[i].push(1);
                            }
                        }
                    }
                }
                tokio::task::yield_now().await;
            }
            if !done {
                return None;
            }
        }
        for i in 0..n {
            if let Some(rx) = st.rxs[i].as_mut() {
                while let Ok(ev) = rx.try_recv() {
                    if let InnerTransportEvent::ConnectionEstablished { sender, .. } = ev {
                        st.handles[i] = Some(sender);
                        st.got[i].push(1);
                    }
                }
            }
        }
        let mut tr_out = vec![1u64];
        for i in 0..n {
            tr_out.push(st.got[i].len() as u64);
            tr_out.extend(st.got[i].drain(..));
        }

        // both ends negotiate (noise + yamux over a loopback socket, or QUIC over loopback UDP)
        let (ka, kr) = (Keypair::generate(), Keypair::generate());
        let raw: Raw;
        if tr == 2 {
            #[cfg(feature = "quic")]
            {
                let (a, r) = quic_pair(ka, kr, id, set, open_timeout).await?;
                st.fut = Some(Box::pin(a.start()));
                raw = Raw::Quic(Arc::new(r));
            }
            #[cfg(not(feature = "quic"))]
            {
                let _ = (ka, kr, set);
                return None;
            }
        } else {
            let listener = tokio::net::TcpListener::bind("127.0.0.1:0").await.ok()?;
            let addr = listener.local_addr().ok()?;
            let (dialed, accepted) = tokio::join!(tokio::net::TcpStream::connect(addr), listener.accept());
            let (dialed, accepted) = (dialed.ok()?, accepted.ok()?.0);
            let _ = dialed.set_nodelay(true);
            let _ = accepted.set_nodelay(true);
            if tr == 0 {
                let (a, r) = tokio::join!(
                    TcpConnection::verif_connection(accepted, Role::Listener, ka, id, set, open_timeout),
                    TcpConnection::verif_raw_peer(dialed, Role::Dialer, kr, Duration::from_secs(20))
                );
                st.fut = Some(Box::pin(a.ok()?.verif_start()));
                raw = Raw::Tcp(r.ok()?);
            } else {
                let (a, r) = tokio::join!(
                    VerifWsConnection::listener(accepted, ka, id, set, open_timeout),
                    VerifWsConnection::raw_dialer(dialed, kr, Duration::from_secs(20))
                );
                st.fut = Some(Box::pin(a.ok()?.start()));
                raw = Raw::Ws(r.ok()?);
            }
        }
        let all_names: Vec<String> =
            (0..n).flat_map(|i| [main_name(i).to_string(), fb_name(i).to_string()]).collect();
        let policies = Arc::new(Mutex::new(VecDeque::<u64>::new()));
        let handled = Arc::new(AtomicUsize::new(0));
        let control = raw.ctl();
        let driver = {
            let (policies, handled, all_names) = (policies.clone(), handled.clone(), all_names.clone());
            let mut raw = raw;
            tokio::spawn(async move {
                let mut held = Vec::new();
                while let Some(stream) = raw.next().await {
                    let pol = policies.lock().unwrap().pop_front().unwrap_or(2);
                    let (handled, all_names) = (handled.clone(), all_names.clone());
                    match pol {
                        0 | 1 => held.push(tokio::spawn(async move {
                            let names = if pol == 0 { all_names } else { vec!["/c07/other".to_string()] };
                            let s = answer(tr, stream, names).await;
                            handled.fetch_add(1, Ordering::SeqCst);
                            tokio::time::sleep(Duration::from_secs(3)).await;
                            drop(s);
                        })),
                        3 | 4 => held.push(tokio::spawn(async move {
                            handled.fetch_add(1, Ordering::SeqCst);
                            tokio::time::sleep(Duration::from_secs(60)).await;
                            drop(stream);
                        })),
                        _ => {
                            drop(stream);
                            handled.fetch_add(1, Ordering::SeqCst);
                        }
                    }
                }
                for h in held {
                    h.abort();
                }
            })
        };
        let mut rem = Remote { control, driver, policies, handled, expected: 0, acts: Vec::new(), bg: Vec::new(), up: true };
        quiesce(&mut st, &mut rem, Duration::ZERO, Duration::from_secs(4)).await;
        {
            // record 0: the first polls of the loop
            let mut arm = 0u64;
            if st.state != 0 {
                for m in msgs.lock().unwrap().iter() {
                    if let Some(ix) = exit_msgs.iter().position(|x| x == m) {
                        arm = exit_arms.get(ix).copied().unwrap_or(99);
                    }
                }
            }
            tr_out.extend([0, 0, 0]);
            for i in 0..n {
                st.got[i].sort();
                tr_out.push(st.got[i].len() as u64);
                tr_out.extend(st.got[i].drain(..));
            }
            tr_out.push(st.mgr);
            st.mgr = 0;
            tr_out.push(st.state);
            tr_out.push(arm);
        }

        for k in 0..nops {
            let base = 7 + 5 * k;
            let (op, a, b, f) = (case[base], case[base + 1], case[base + 2], case[base + 3]);
            let ai = a as usize;
            msgs.lock().unwrap().clear();
            let mut rc = 0u64;
            let mut min_wait = Duration::ZERO;
            let state_before = st.state;
            // a full channel while the op runs
            let fill = if f >= 1 && (f as usize) <= n { Some(f as usize - 1) } else { None };
            if let Some(p) = fill {
                for _ in 0..cap + 1 {
                    let _ = st.txs[p].try_send(InnerTransportEvent::DialFailure { peer, addresses: Vec::new() });
                }
            }
            match op {
                1 => {
                    if ai >= n {
                        rc = 2;
                    } else {
                        match st.handles[ai].as_mut() {
                            None => rc = 1,
                            Some(h) => match h.try_get_permit() {
                                None => rc = 1,
                                Some(permit) => {
                                    let fbs = if fbmask >> ai & 1 == 1 { vec![fb_name(ai)] } else { Vec::new() };
                                    let was_running = st.state == 0;
                                    if was_running {
                                        rem.policies.lock().unwrap().push_back(b);
                                    }
                                    match h.open_substream(
                                        main_name(ai),
                                        fbs,
                                        SubstreamId::from(1000 + k),
                                        permit,
                                        SubstreamKeepAlive::Yes,
                                    ) {
                                        Ok(()) => {
                                            rem.expected += 1;
                                            if b == 3 {
                                                min_wait = OPEN_TIMEOUT + Duration::from_millis(150);
                                            }
                                        }
                                        Err(_) => {
                                            rc = 1;
                                            if was_running {
                                                rem.policies.lock().unwrap().pop_back();
                                            }
                                        }
                                    }
                                }
                            },
                        }
                    }
                }
                2 => {
                    if st.state != 0 || !rem.up {
                        rc = 2;
                    } else {
                        let stall = b == 3 || b == 4;
                        if b == 3 {
                            min_wait = OPEN_TIMEOUT + Duration::from_millis(150);
                        }
                        spawn_remote_open(&mut rem, tr, name_of_code(a, n), stall);
                    }
                }
                9 => {
                    // several things before the loop is polled again; b = 0 means 12
                    let mask = if b == 0 { 12 } else { b };
                    if st.state != 0 || !rem.up {
                        rc = 2;
                    } else {
                        if mask & 1 != 0 {
                            if let Some(h) = st.handles.iter_mut().flatten().next() {
                                let _ = h.force_close();
                            }
                        }
                        if mask & 8 != 0 {
                            spawn_remote_open(&mut rem, tr, name_of_code(a, n), false);
                        }
                        if mask & 4 != 0 {
                            for h in st.handles.iter_mut() {
                                *h = None;
                            }
                        }
                        // let R's stream reach A's socket while the loop is not polled
                        for _ in 0..6 {
                            turn().await;
                        }
                        if mask & 2 != 0 {
                            remote_close(&mut rem, false).await;
                            for _ in 0..3 {
                                turn().await;
                            }
                        }
                    }
                }
                3 => {
                    if ai >= n {
                        rc = 2;
                    } else {
                        match st.handles[ai].as_mut() {
                            None => rc = 1,
                            Some(h) => {
                                if h.force_close().is_err() {
                                    rc = 1;
                                }
                            }
                        }
                    }
                }
                4 => {
                    if ai >= n {
                        rc = 2;
                    } else {
                        st.handles[ai] = None;
                    }
                }
                5 => {
                    if ai >= n {
                        rc = 2;
                    } else {
                        st.rxs[ai] = None;
                    }
                }
                6 => st.mgr_rx = None,
                7 => {
                    if st.state != 0 || !rem.up {
                        rc = 2;
                    } else {
                        remote_close(&mut rem, b == 0).await;
                    }
                }
                _ => rc = 2,
            }
            // with a full channel: what has happened before it is drained?
            let (mut early_done, mut early_mgr) = (0u64, 0u64);
            if let Some(p) = fill {
                st.skip = Some(p);
                quiesce(&mut st, &mut rem, min_wait, min_wait + Duration::from_millis(600)).await;
                st.skip = None;
                if state_before == 0 {
                    early_done = (st.state != 0) as u64;
                    early_mgr = st.mgr.min(1);
                }
            }
            quiesce(&mut st, &mut rem, if fill.is_some() { Duration::ZERO } else { min_wait }, Duration::from_secs(4)).await;
            // stalled helpers of R hold nothing the model knows about: finished or not, forget them
            rem.acts.retain(|h| !h.is_finished());

            let mut arm = 0u64;
            if st.state != 0 {
                for m in msgs.lock().unwrap().iter() {
                    if let Some(ix) = exit_msgs.iter().position(|x| x == m) {
                        arm = exit_arms.get(ix).copied().unwrap_or(99);
                    }
                }
            }
            if (op == 1 || op == 2) && b == 4 && rc == 0 && state_before == 0 {
                pend_seen += 1;
            }
            history.lock().unwrap().push(format!("-- end of op {k} {:?} rc {rc} state {} arm {arm}", &case[base..base + 4], st.state));
            if trap && state_before == 0 && st.state != 0 && arm == 5 && pend_seen > 0 {
                eprintln!("TRAP: `None` command with a negotiation pending; case {:?}\n{}", &case[..], history.lock().unwrap().join("\n"));
            }
            if std::env::var("C07_LOOP_DEBUG").is_ok() {
                eprintln!("op {k} {:?} rc {rc} state {} arm {arm} log {:?}", &case[base..base + 4], st.state, msgs.lock().unwrap());
            }
            case[base + 4] = arm;
            tr_out.extend([rc, early_done, early_mgr]);
            for i in 0..n {
                st.got[i].sort();
                tr_out.push(st.got[i].len() as u64);
                tr_out.extend(st.got[i].drain(..));
            }
            tr_out.push(st.mgr);
            st.mgr = 0;
            tr_out.push(st.state);
            tr_out.push(arm);
        }
        for h in rem.acts.drain(..).chain(rem.bg.drain(..)) {
            h.abort();
        }
        rem.driver.abort();
        Some(tr_out)
    });
    drop(rt);
    result.unwrap_or(vec![0])
}

/// Which things happen at once in a race (bit 0 force-close, 1 the remote closes, 2 every handle dropped,
/// 3 inbound substream — only together with bit 2); 0 = 12.
fn race_mask(rng: &mut Rng, hold: bool) -> u64 {
    if hold {
        return 0;
    }
    rng.pick(&[0u64, 0, 1, 2, 3, 4, 5, 6, 7, 12, 13, 14, 15])
}

/// Scenario generator: mostly short lives of one connection with every termination cause, with
/// protocols that have exited before or during, with full channels at the moment of the exit.
pub fn gen_loop(rng: &mut Rng, transports: &[u64]) -> Vec<u64> {
    // one case in four runs with a substream-open timeout that is never reached: negotiations the remote
    // does not answer stay pending (and keep a permit) while the connection is closed around them
    let transport = rng.pick(transports);
    // (not on QUIC: there a pending negotiation fails by itself as soon as the connection is lost, and whether
    // the loop reports that failure before it ends is the scheduler's choice)
    let hold = rng.chance(25) && transport != 2;
    let tr = transport + if hold { 4 } else { 0 };
    let n = rng.range(1, 4);
    let fbmask = rng.below(1 << n);
    let dead0 = if rng.chance(35) { rng.below(1 << n) } else { 0 };
    let cap = rng.pick(&[1u64, 1, 2, 4, 16]);
    let nops = rng.range(2, 9);
    let mut ops: Vec<[u64; 5]> = Vec::new();
    let mut stalls = 0;
    for j in 0..nops {
        let last = j + 1 == nops;
        let r = rng.below(100);
        let p = rng.below(n);
        let name = if rng.chance(85) { rng.below(2 * n) } else { 2 * n + rng.below(3) };
        let fill = if rng.chance(25) { 1 + rng.below(n) } else { 0 };
        let o = if last && r < 70 {
            // a termination cause at the end
            match rng.below(6) {
                0 => [3, p, 0, fill, 0],
                1 => [7, 0, rng.below(2), fill, 0],
                2 => [9, name, 0, fill, 0],
                3 => [7, 0, 1, fill, 0],
                4 => [9, name, race_mask(rng, hold), fill, 0],
                _ => [9, name, 0, 0, 0],
            }
        } else if r < 22 {
            let mut k = rng.pick(&[0u64, 0, 0, 1, 2, 3]);
            if k == 3 {
                stalls += 1;
                if hold {
                    k = 4;
                } else if stalls > 1 || transport == 2 {
                    k = 1;
                }
            }
            [1, p, k, fill, 0]
        } else if r < 46 {
            let mut k = rng.pick(&[0u64, 0, 0, 0, 3]);
            if k == 3 {
                stalls += 1;
                if hold {
                    k = 4;
                } else if stalls > 1 {
                    k = 0;
                }
            }
            [2, name, k, fill, 0]
        } else if r < 52 {
            [3, p, 0, fill, 0]
        } else if r < 70 {
            [4, p, 0, fill, 0]
        } else if r < 84 {
            [5, p, 0, 0, 0]
        } else if r < 88 {
            [6, 0, 0, 0, 0]
        } else if r < 94 {
            [7, 0, rng.below(2), fill, 0]
        } else {
            [9, name, race_mask(rng, hold), fill, 0]
        };
        ops.push(o);
    }
    if hold && rng.chance(60) {
        let at = rng.below(ops.len() as u64) as usize;
        let o = if rng.chance(50) { [1, rng.below(n), 4, 0, 0] } else { [2, rng.below(2 * n), 4, 0, 0] };
        ops.insert(at, o);
    }
    let mut c = vec![3, tr, n, fbmask, dead0, cap, ops.len() as u64];
    for o in ops {
        c.extend(o);
    }
    c
}
