//! C14, second stream: the Kademlia event loop around the routing table (kademlia/mod.rs).
//! Case / trace format: see "glue cases" in coq/C14/Glue.v.
//!
//! The REAL `Kademlia::run` loop is polled by hand on a real `TransportService` (hooks of C16:
//! `VerifKademlia`, `VerifServiceInput`, the probe). The harness plays the transports (connections,
//! substreams over in-memory carriers whose written bytes are captured) and the user
//! (`KademliaHandle`). One step = one injected event + polls of the loop. What the query engine
//! decides (which peers get a `PeerContext`, whether a dial was pending, which peers a reply led
//! `update_routing_table` to see) is observed and written into the case as the list of glue
//! operations of the step; the table after every step (probe snapshot), the `peers` set and every
//! FIND_NODE / GET_VALUE / GET_PROVIDERS reply are compared with the Coq model.
//!
//! All keys are SHA-256 keys of real peer ids; peers are mined so that they fall into chosen
//! buckets (255 .. 247) of the local key and overflow them.
use crate::{c14::peer_from_seed, util::*};
use bytes::BytesMut;
use futures::Stream;
use litep2p::{
    codec::ProtocolCodec,
    protocol::{
        libp2p::kademlia::{
            verif::{
                ConnectionType, KademliaMessage, KademliaPeer, Key, VerifKadDump, VerifKademlia, VerifProbe,
                VerifProbeEntry,
            },
            ConfigBuilder, KademliaEvent, KademliaHandle, Quorum, Record, RecordKey, RoutingTableUpdateMode,
        },
        verif::{VerifConnection, VerifServiceInput},
        TransportService,
    },
    transport::verif::{TransportManager, TransportManagerBuilder},
    types::protocol::ProtocolName,
    PeerId,
};
use multiaddr::Multiaddr;
use std::{
    collections::{BTreeSet, HashMap, VecDeque},
    future::Future,
    pin::Pin,
    sync::{Arc, Mutex},
    task::{Context, Poll},
    time::Duration,
};
use tokio::io::{AsyncRead, AsyncWrite, ReadBuf};

const LIMBS: usize = 8;
const INBOUND_BASE: usize = 1_000_000;

// ------------------------------------------------------------------ carrier

#[derive(Default)]
struct CarrierState {
    rq: VecDeque<u8>,
    eof: bool,
    written: Vec<u8>,
}

#[derive(Clone, Default)]
struct Carrier(Arc<Mutex<CarrierState>>);

impl AsyncRead for Carrier {
    fn poll_read(self: Pin<&mut Self>, _: &mut Context<'_>, buf: &mut ReadBuf<'_>) -> Poll<std::io::Result<()>> {
        let mut s = self.0.lock().unwrap();
        if !s.rq.is_empty() {
            while buf.remaining() > 0 {
                match s.rq.pop_front() {
                    Some(b) => buf.put_slice(&[b]),
                    None => break,
                }
            }
            Poll::Ready(Ok(()))
        } else if s.eof {
            Poll::Ready(Ok(()))
        } else {
            // nothing more ever arrives on this carrier: the reader waits (for its timeout)
            Poll::Pending
        }
    }
}

impl AsyncWrite for Carrier {
    fn poll_write(self: Pin<&mut Self>, _: &mut Context<'_>, buf: &[u8]) -> Poll<std::io::Result<usize>> {
        self.0.lock().unwrap().written.extend_from_slice(buf);
        Poll::Ready(Ok(buf.len()))
    }
    fn poll_flush(self: Pin<&mut Self>, _: &mut Context<'_>) -> Poll<std::io::Result<()>> {
        Poll::Ready(Ok(()))
    }
    fn poll_shutdown(self: Pin<&mut Self>, _: &mut Context<'_>) -> Poll<std::io::Result<()>> {
        Poll::Ready(Ok(()))
    }
}

fn varint_frame(payload: &[u8]) -> Vec<u8> {
    let mut out = Vec::new();
    let mut n = payload.len();
    loop {
        let b = (n & 0x7f) as u8;
        n >>= 7;
        if n == 0 {
            out.push(b);
            break;
        }
        out.push(b | 0x80);
    }
    out.extend(payload);
    out
}

fn varint_unframe(data: &[u8]) -> Option<&[u8]> {
    let (mut n, mut shift, mut i) = (0usize, 0u32, 0usize);
    loop {
        let b = *data.get(i)?;
        n |= ((b & 0x7f) as usize) << shift;
        i += 1;
        if b & 0x80 == 0 {
            break;
        }
        shift += 7;
        if shift > 28 {
            return None;
        }
    }
    data.get(i..i + n)
}

// ------------------------------------------------------------------ case vocabulary

#[derive(Clone, Debug)]
pub enum Ev {
    AddKnown(u64, u64),
    /// peer, inbound (Endpoint::Listener: no address is recorded)
    Establish(u64, u64),
    /// every connection of the peer closes
    Close(u64),
    /// a second connection to a peer that has one (the service keeps it as secondary and tells
    /// the protocol nothing)
    Establish2(u64),
    /// one of two connections closes (0 = the primary, 1 = the secondary): the peer stays connected
    CloseOne(u64, u64),
    /// requester, target, kind (0 FIND_NODE, 1 GET_VALUE, 2 GET_PROVIDERS)
    Request(u64, u64, u64),
    InboundEof(u64),
    /// peer, number of addresses, with the /p2p suffix (= the addresses add_known_peer stored)
    DialFail(u64, u64, u64),
    FindNodeCmd(u64),
    /// responder, peers of the reply with their address counts
    Respond(u64, Vec<(u64, u64)>),
    PutToPeers(u64),
    Poll,
    /// what the transport manager believes about the peer (decides the result of `dial`):
    /// 0 unknown, 1 disconnected with an address (dial is accepted), 2 connected, 3 dialing
    Mgr(u64, u64),
}

impl Ev {
    fn encode(&self) -> (u64, Vec<u64>) {
        match self {
            Ev::AddKnown(p, na) => (1, vec![*p, *na]),
            Ev::Establish(p, l) => (2, vec![*p, *l]),
            Ev::Close(p) => (3, vec![*p]),
            Ev::Establish2(p) => (12, vec![*p]),
            Ev::CloseOne(p, w) => (13, vec![*p, *w]),
            Ev::Request(p, t, kind) => (4, vec![*p, *t, *kind]),
            Ev::InboundEof(p) => (5, vec![*p]),
            Ev::DialFail(p, na, sfx) => (6, vec![*p, *na, *sfx]),
            Ev::FindNodeCmd(t) => (7, vec![*t]),
            Ev::Respond(p, l) => {
                let mut a = vec![*p];
                for (q, na) in l {
                    a.extend([*q, *na]);
                }
                (8, a)
            }
            Ev::PutToPeers(p) => (9, vec![*p]),
            Ev::Poll => (10, vec![]),
            Ev::Mgr(p, v) => (11, vec![*p, *v]),
        }
    }

    fn decode(tag: u64, a: &[u64]) -> Option<Ev> {
        Some(match (tag, a.len()) {
            (1, 2) => Ev::AddKnown(a[0], a[1]),
            (2, 1) => Ev::Establish(a[0], 0),
            (2, 2) => Ev::Establish(a[0], a[1]),
            (3, 1) => Ev::Close(a[0]),
            (12, 1) => Ev::Establish2(a[0]),
            (13, 2) => Ev::CloseOne(a[0], a[1]),
            (4, 3) => Ev::Request(a[0], a[1], a[2]),
            (5, 1) => Ev::InboundEof(a[0]),
            (6, 2) => Ev::DialFail(a[0], a[1], 0),
            (6, 3) => Ev::DialFail(a[0], a[1], a[2]),
            (7, 1) => Ev::FindNodeCmd(a[0]),
            (8, n) if n % 2 == 1 => Ev::Respond(a[0], a[1..].chunks(2).map(|c| (c[0], c[1])).collect()),
            (9, 1) => Ev::PutToPeers(a[0]),
            (10, 0) => Ev::Poll,
            (11, 2) if a[1] <= 3 => Ev::Mgr(a[0], a[1]),
            _ => return None,
        })
    }
}

pub struct Header {
    pub k: u64,
    /// seeds of the peers; index 0 is the local peer
    pub seeds: Vec<u64>,
}

pub fn decode_case(c: &[u64]) -> Option<(Header, Vec<Ev>)> {
    if c.len() < 4 || c[0] != 0 {
        return None;
    }
    let k = c[1];
    let n = c[2] as usize;
    if n == 0 || n > 5000 || c.len() < 3 + n * (LIMBS + 1) + 1 {
        return None;
    }
    let mut seeds = Vec::new();
    for i in 0..n {
        let s = c[3 + i * (LIMBS + 1)];
        if s == 0 {
            return None;
        }
        seeds.push(s);
    }
    let mut i = 3 + n * (LIMBS + 1);
    let nsteps = *c.get(i)? as usize;
    i += 1;
    let mut evs = Vec::new();
    for _ in 0..nsteps {
        let tag = *c.get(i)?;
        let na = *c.get(i + 1)? as usize;
        let args = c.get(i + 2..i + 2 + na)?;
        i += 2 + na;
        let ev = Ev::decode(tag, args)?;
        // skip the recorded operations: they are observed again
        let nops = *c.get(i)? as usize;
        i += 1;
        for _ in 0..nops {
            let t = *c.get(i)?;
            i += match t {
                10 | 15 | 17 => 3,
                11 => 4,
                12 | 13 | 16 => 2,
                14 => 2 + 2 * (*c.get(i + 1)? as usize),
                _ => return None,
            };
        }
        if ev_peers(&ev).iter().any(|p| *p as usize >= n) {
            return None;
        }
        evs.push(ev);
    }
    if i != c.len() {
        return None;
    }
    Some((Header { k, seeds }, evs))
}

fn ev_peers(e: &Ev) -> Vec<u64> {
    match e {
        Ev::AddKnown(p, _) | Ev::Establish(p, _) | Ev::Close(p) | Ev::InboundEof(p) | Ev::DialFail(p, _, _) => vec![*p],
        Ev::Establish2(p) | Ev::CloseOne(p, _) => vec![*p],
        Ev::FindNodeCmd(p) | Ev::PutToPeers(p) | Ev::Mgr(p, _) => vec![*p],
        Ev::Request(p, t, _) => vec![*p, *t],
        Ev::Respond(p, l) => std::iter::once(*p).chain(l.iter().map(|x| x.0)).collect(),
        Ev::Poll => vec![],
    }
}

// ------------------------------------------------------------------ the system under test

type Snap = Vec<Vec<[u64; 3]>>;

pub struct Sys {
    k: u64,
    peers: Vec<PeerId>,
    raw: Vec<[u8; 32]>,
    ids: HashMap<[u8; 32], u64>,
    pidx: HashMap<PeerId, u64>,
    _manager: TransportManager,
    input: VerifServiceInput,
    handle: KademliaHandle,
    probe: VerifProbe,
    fut: Pin<Box<dyn Future<Output = ()>>>,
    finished: bool,
    /// the connections of a peer as the service sees them: [primary] or [primary, secondary]
    conns: HashMap<u64, Vec<VerifConnection>>,
    manual: bool,
    dummy: VerifConnection,
    next_cid: usize,
    next_inbound: usize,
    pub pending_subs: HashMap<u64, VecDeque<usize>>,
    dump: VerifKadDump,
    snap: Snap,
    /// peers the model believes to hold a PeerContext
    mpeers: BTreeSet<u64>,
}

fn conn_code(c: ConnectionType) -> u64 {
    match c {
        ConnectionType::NotConnected => 0,
        ConnectionType::Connected => 1,
        ConnectionType::CanConnect => 2,
        ConnectionType::CannotConnect => 3,
    }
}

impl Sys {
    pub fn new(h: &Header) -> Option<Self> {
        // k >= 100: routing-table update mode Manual, replication factor k - 100
        let manual = h.k >= 100;
        let k = h.k % 100;
        if k == 0 || k > 64 {
            return None;
        }
        let peers: Vec<PeerId> = h.seeds.iter().map(|s| peer_from_seed(*s)).collect();
        let raw: Vec<[u8; 32]> = peers.iter().map(|p| Key::from(*p).verif_raw()).collect();
        let mut ids = HashMap::new();
        let mut pidx = HashMap::new();
        for (i, r) in raw.iter().enumerate() {
            ids.entry(*r).or_insert(i as u64 + 1);
            pidx.entry(peers[i]).or_insert(i as u64);
        }
        let manager = TransportManagerBuilder::new().build();
        let (service, input) = TransportService::verif_new(
            &manager,
            peers[0],
            ProtocolName::from("/ipfs/kad/1.0.0"),
            ProtocolCodec::UnsignedVarint(Some(70 * 1024)),
            Duration::from_secs(3600 * 24),
        );
        let (config, handle) = ConfigBuilder::new()
            .with_replication_factor(k as usize)
            .with_routing_table_update_mode(if manual {
                RoutingTableUpdateMode::Manual
            } else {
                RoutingTableUpdateMode::Automatic
            })
            .build();
        let probe = VerifProbe::default();
        let kad = VerifKademlia::new(service, config, probe.clone());
        let fut: Pin<Box<dyn Future<Output = ()>>> = Box::pin(async move {
            let _ = kad.run().await;
        });
        let dummy = input.dummy_connection(9_999_999);
        let mut s = Sys {
            k,
            peers,
            raw,
            ids,
            pidx,
            _manager: manager,
            input,
            handle,
            probe,
            fut,
            finished: false,
            conns: HashMap::new(),
            manual,
            dummy,
            next_cid: 1,
            next_inbound: INBOUND_BASE,
            pending_subs: HashMap::new(),
            dump: VerifKadDump::default(),
            snap: vec![Vec::new(); 256],
            mpeers: BTreeSet::new(),
        };
        s.poll();
        s.absorb();
        Some(s)
    }

    pub fn limbs(&self, i: usize) -> [u64; LIMBS] {
        let mut l = [0u64; LIMBS];
        for j in 0..LIMBS {
            let r = &self.raw[i];
            l[j] = u32::from_be_bytes([r[4 * j], r[4 * j + 1], r[4 * j + 2], r[4 * j + 3]]) as u64;
        }
        l
    }

    fn addrs(&self, p: u64, n: u64) -> Vec<Multiaddr> {
        (0..n.min(4)).map(|i| format!("/ip4/10.{}.{}.{}/tcp/{}", i + 1, p / 250, p % 250 + 1, 3000 + i).parse().unwrap()).collect()
    }

    fn poll(&mut self) {
        if self.finished {
            return;
        }
        let waker = futures::task::noop_waker();
        let mut cx = Context::from_waker(&waker);
        for _ in 0..4 {
            if let Poll::Ready(()) = self.fut.as_mut().poll(&mut cx) {
                self.finished = true;
                return;
            }
        }
    }

    /// probe entries, open requests; returns the user events
    fn absorb(&mut self) -> Vec<KademliaEvent> {
        for en in self.probe.take() {
            if let VerifProbeEntry::AtSelect(d) = en {
                self.dump = d;
            }
        }
        for (p, cs) in self.conns.iter_mut() {
            for c in cs.iter_mut() {
                let reqs = c.take_open_requests();
                if !reqs.is_empty() {
                    self.pending_subs.entry(*p).or_default().extend(reqs);
                }
            }
        }
        let waker = futures::task::noop_waker();
        let mut cx = Context::from_waker(&waker);
        let mut out = Vec::new();
        while let Poll::Ready(Some(e)) = Pin::new(&mut self.handle).poll_next(&mut cx) {
            out.push(e);
        }
        out
    }

    fn table_snap(&self) -> Snap {
        let mut s: Snap = vec![Vec::new(); 256];
        for (i, nodes) in &self.dump.routing_table {
            if *i < 256 {
                s[*i] = nodes
                    .iter()
                    .map(|n| [self.ids.get(&n.key).copied().unwrap_or(0), n.has_addresses as u64, conn_code(n.connection)])
                    .collect();
            }
        }
        s
    }

    fn observed_peers(&self) -> BTreeSet<u64> {
        self.dump.peers.iter().map(|(p, _)| self.pidx.get(p).copied().unwrap_or(u64::MAX)).collect()
    }

    fn kad_peer(&self, q: u64, na: u64) -> KademliaPeer {
        let peer = self.peers[q as usize];
        let addrs = self
            .addrs(q, na)
            .into_iter()
            .map(|a| a.with(multiaddr::Protocol::P2p(peer.into())))
            .collect();
        KademliaPeer::new(peer, addrs, ConnectionType::CanConnect)
    }

    fn emit_buckets(out: &mut Vec<u64>, l: &[(usize, &Vec<[u64; 3]>)]) {
        out.push(l.len() as u64);
        for (i, b) in l {
            out.push(*i as u64);
            out.push(b.len() as u64);
            for n in b.iter() {
                out.extend(n);
            }
        }
    }

    fn emit_peers(&self, out: &mut Vec<u64>) {
        let mut v: Vec<u64> = self
            .observed_peers()
            .iter()
            .map(|p| if *p == u64::MAX { 0 } else { self.ids.get(&self.raw[*p as usize]).copied().unwrap_or(0) })
            .collect();
        v.sort();
        out.push(v.len() as u64);
        out.extend(v);
    }

    /// Injects one event, polls the loop, appends the step (event, observed operations) to `case`
    /// and the step's outputs to `trace`.
    pub fn apply(&mut self, e: &Ev, case: &mut Vec<u64>, trace: &mut Vec<u64>) {
        let pending_before: BTreeSet<u64> =
            self.dump.pending_dials.iter().filter_map(|(p, _)| self.pidx.get(p).copied()).collect();
        let mut ops: Vec<Vec<u64>> = Vec::new();
        let mut reply_from: Option<Carrier> = None;
        let mut respond_list: Option<Vec<(u64, u64)>> = None;
        match e {
            Ev::AddKnown(p, na) => {
                if self.handle.try_add_known_peer(self.peers[*p as usize], self.addrs(*p, *na)).is_ok() {
                    ops.push(vec![10, *p, *na]);
                }
            }
            Ev::Establish(p, inbound) => {
                if !self.conns.contains_key(p) {
                    let cid = self.next_cid;
                    self.next_cid += 1;
                    let addr = self.addrs(*p, 1).pop().unwrap();
                    let c = if *inbound != 0 {
                        self.input.connection_established_inbound(self.peers[*p as usize], cid, addr, 512)
                    } else {
                        self.input.connection_established(self.peers[*p as usize], cid, addr, 512)
                    };
                    if let Some(c) = c {
                        self.conns.insert(*p, vec![c]);
                        let pending = pending_before.contains(p);
                        ops.push(vec![11, *p, (*inbound == 0) as u64, pending as u64]);
                        if pending {
                            self.mpeers.insert(*p);
                        }
                    }
                }
            }
            Ev::Establish2(p) => {
                // the service keeps a second connection as secondary and reports nothing; a third
                // one is ignored
                if self.conns.get(p).map_or(false, |cs| cs.len() == 1) {
                    let cid = self.next_cid;
                    self.next_cid += 1;
                    let addr = self.addrs(*p, 2).pop().unwrap();
                    if let Some(c) = self.input.connection_established(self.peers[*p as usize], cid, addr, 512) {
                        self.conns.get_mut(p).unwrap().push(c);
                    }
                }
            }
            Ev::CloseOne(p, which) => {
                // one of two connections closes: the peer stays connected, the protocol hears nothing
                if self.conns.get(p).map_or(false, |cs| cs.len() == 2) {
                    let cs = self.conns.get_mut(p).unwrap();
                    let c = cs.remove((*which as usize).min(1));
                    self.input.connection_closed(self.peers[*p as usize], &c);
                    if *which == 0 {
                        self.pending_subs.remove(p);
                    }
                }
            }
            Ev::Close(p) => {
                if let Some(cs) = self.conns.remove(p) {
                    // the secondary first: only the last close is reported to the protocol
                    for c in cs.iter().rev() {
                        self.input.connection_closed(self.peers[*p as usize], c);
                    }
                    self.pending_subs.remove(p);
                    ops.push(vec![12, *p]);
                    self.mpeers.remove(p);
                }
            }
            Ev::Request(p, t, kind) => {
                let bytes = self.peers[*t as usize].to_bytes();
                let msg: Vec<u8> = match kind {
                    0 => KademliaMessage::find_node(bytes).to_vec(),
                    1 => KademliaMessage::get_record(RecordKey::from(bytes)).to_vec(),
                    _ => KademliaMessage::get_providers_request(RecordKey::from(bytes)).to_vec(),
                };
                let carrier = Carrier::default();
                carrier.0.lock().unwrap().rq.extend(varint_frame(&msg));
                let id = self.next_inbound;
                self.next_inbound += 1;
                let conn = self.conns.get(p).and_then(|cs| cs.first()).unwrap_or(&self.dummy);
                if self.input.substream_opened(self.peers[*p as usize], None, id, Box::new(carrier.clone()), conn) {
                    ops.push(vec![13, *p]);
                    self.mpeers.insert(*p);
                    ops.push(vec![17, *p, *t]);
                    reply_from = Some(carrier);
                }
            }
            Ev::InboundEof(p) => {
                let carrier = Carrier::default();
                carrier.0.lock().unwrap().eof = true;
                let id = self.next_inbound;
                self.next_inbound += 1;
                let conn = self.conns.get(p).and_then(|cs| cs.first()).unwrap_or(&self.dummy);
                if self.input.substream_opened(self.peers[*p as usize], None, id, Box::new(carrier), conn) {
                    ops.push(vec![13, *p]);
                    ops.push(vec![12, *p]);
                    self.mpeers.remove(p);
                }
            }
            Ev::DialFail(p, na, sfx) => {
                let peer = self.peers[*p as usize];
                let mut ad = self.addrs(*p, *na);
                if *sfx != 0 {
                    ad = ad.into_iter().map(|a| a.with(multiaddr::Protocol::P2p(peer.into()))).collect();
                }
                if self.input.dial_failure(peer, ad) {
                    ops.push(vec![15, *p, *na]);
                }
            }
            Ev::FindNodeCmd(t) => {
                let _ = self.handle.try_find_node(self.peers[*t as usize]);
            }
            Ev::Respond(p, l) => {
                let sid = self.pending_subs.get_mut(p).and_then(|q| q.pop_front());
                if let (Some(sid), Some(conn)) = (sid, self.conns.get(p).and_then(|cs| cs.first())) {
                    let peers: Vec<KademliaPeer> = l.iter().map(|(q, na)| self.kad_peer(*q, *na)).collect();
                    let msg = KademliaMessage::find_node_response(vec![1u8, 2, 3], peers);
                    let carrier = Carrier::default();
                    carrier.0.lock().unwrap().rq.extend(varint_frame(&msg));
                    if self.input.substream_opened(self.peers[*p as usize], Some(sid), sid, Box::new(carrier), conn) {
                        respond_list = Some(l.clone());
                    }
                }
            }
            Ev::PutToPeers(p) => {
                let r = self.handle.try_put_record_to_peers(
                    Record { key: RecordKey::from(vec![9u8, 9, *p as u8]), value: vec![1], publisher: None, expires: None },
                    vec![self.peers[*p as usize]],
                    false,
                    Quorum::One,
                );
                if r.is_ok() && *p != 0 {
                    ops.push(vec![16, *p]);
                }
            }
            Ev::Poll => {}
            Ev::Mgr(p, v) => {
                let addr = self.addrs(*p, 1).pop().unwrap();
                self._manager.verif_force_peer(self.peers[*p as usize], *v as usize, addr);
            }
        }
        self.poll();
        let events = self.absorb();
        // what update_routing_table saw
        for ev in events {
            if let KademliaEvent::RoutingTableUpdate { peers } = ev {
                if self.manual {
                    // Manual mode: the user is told, the table is not written
                    continue;
                }
                let l = respond_list.clone().unwrap_or_default();
                let mut op = vec![14, peers.len() as u64];
                for q in peers {
                    let qi = self.pidx.get(&q).copied().unwrap_or(0);
                    let na = l.iter().find(|x| x.0 == qi).map(|x| x.1).unwrap_or(0);
                    op.extend([qi, na]);
                }
                ops.push(op);
            }
        }
        // PeerContexts created / removed by the engine's decisions
        let seen = self.observed_peers();
        for q in seen.iter() {
            if *q != u64::MAX && !self.mpeers.contains(q) {
                ops.push(vec![13, *q]);
            }
        }
        for q in self.mpeers.iter() {
            if !seen.contains(q) {
                ops.push(vec![12, *q]);
            }
        }
        self.mpeers = seen.into_iter().filter(|q| *q != u64::MAX).collect();

        // ---- case
        let (tag, args) = e.encode();
        case.push(tag);
        case.push(args.len() as u64);
        case.extend(args);
        case.push(ops.len() as u64);
        for o in &ops {
            case.extend(o);
        }
        // ---- trace
        if let Some(c) = reply_from {
            let w = c.0.lock().unwrap().written.clone();
            let peers: Vec<PeerId> = varint_unframe(&w)
                .and_then(|payload| KademliaMessage::from_bytes(BytesMut::from(payload), 100_000))
                .map(|m| match m {
                    KademliaMessage::FindNode { peers, .. } => peers,
                    KademliaMessage::GetRecord { peers, .. } => peers,
                    KademliaMessage::GetProviders { peers, .. } => peers,
                    _ => Vec::new(),
                })
                .unwrap_or_default()
                .iter()
                .map(|p| p.verif_peer())
                .collect();
            trace.push(peers.len() as u64);
            for p in peers {
                trace.push(self.pidx.get(&p).map(|i| self.ids[&self.raw[*i as usize]]).unwrap_or(0));
            }
        }
        let next = self.table_snap();
        let ch: Vec<(usize, &Vec<[u64; 3]>)> =
            (0..256).filter(|j| self.snap[*j] != next[*j]).map(|j| (j, &next[j])).collect();
        Self::emit_buckets(trace, &ch);
        drop(ch);
        self.snap = next;
        self.emit_peers(trace);
        if self.finished {
            trace.push(PANIC_MARK);
        }
    }

    pub fn finish(&self, trace: &mut Vec<u64>) {
        let ne: Vec<(usize, &Vec<[u64; 3]>)> =
            (0..256).filter(|j| !self.snap[*j].is_empty()).map(|j| (j, &self.snap[j])).collect();
        Self::emit_buckets(trace, &ne);
        self.emit_peers(trace);
    }

    pub fn header(&self, out: &mut Vec<u64>, seeds: &[u64]) {
        out.extend([0, self.k + if self.manual { 100 } else { 0 }, seeds.len() as u64]);
        for (i, s) in seeds.iter().enumerate() {
            out.push(*s);
            out.extend(self.limbs(i));
        }
    }

    pub fn connected(&self, p: u64) -> bool {
        self.conns.contains_key(&p)
    }

    pub fn with_connections(&self, n: usize) -> Vec<u64> {
        let mut v: Vec<u64> = self.conns.iter().filter(|(_, cs)| cs.len() == n).map(|(p, _)| *p).collect();
        v.sort();
        v
    }

    pub fn some_pending(&self) -> Vec<u64> {
        let mut v: Vec<u64> =
            self.pending_subs.iter().filter(|(p, q)| !q.is_empty() && self.conns.contains_key(p)).map(|(p, _)| *p).collect();
        v.sort();
        v
    }
}

fn runtime() -> tokio::runtime::Runtime {
    tokio::runtime::Builder::new_current_thread().enable_time().start_paused(true).build().unwrap()
}

/// Replays a stored glue case; returns the case with freshly observed operations and the trace.
pub fn run_stored(c: &[u64]) -> Option<(Vec<u64>, Vec<u64>)> {
    let (h, evs) = decode_case(c)?;
    let rt = runtime();
    rt.block_on(tokio::task::unconstrained(async {
        let mut s = Sys::new(&h)?;
        let mut case = Vec::new();
        s.header(&mut case, &h.seeds);
        case.push(evs.len() as u64);
        let mut trace = vec![1u64];
        for e in &evs {
            s.apply(e, &mut case, &mut trace);
        }
        s.finish(&mut trace);
        Some((case, trace))
    }))
}

// ------------------------------------------------------------------ generator

fn bucket_of(local: &[u8; 32], key: &[u8; 32]) -> Option<usize> {
    for i in 0..32 {
        let x = local[i] ^ key[i];
        if x != 0 {
            return Some(255 - (i * 8 + x.leading_zeros() as usize));
        }
    }
    None
}

pub fn generate(rng: &mut Rng, small: bool, thorough: bool) -> Option<(Vec<u64>, Vec<u64>)> {
    let local_seed = 5_000_000 + rng.below(1_000_000);
    let local = Key::from(peer_from_seed(local_seed)).verif_raw();
    // mine peers by bucket
    let base = 1 + rng.below(100_000) * 10_000;
    let mut by_bucket: HashMap<usize, Vec<u64>> = HashMap::new();
    let nmine = if small { 400 } else { 6000 };
    for s in base..base + nmine {
        let k = Key::from(peer_from_seed(s)).verif_raw();
        if let Some(b) = bucket_of(&local, &k) {
            by_bucket.entry(b).or_default().push(s);
        }
    }
    let mut seeds = vec![local_seed];
    let mut groups: Vec<Vec<u64>> = Vec::new();
    let nfocus = if small { 1 } else { rng.range(2, 3) };
    let mut used: Vec<usize> = Vec::new();
    for _ in 0..nfocus {
        let b = 255 - rng.below(if small { 3 } else { 8 }) as usize;
        if used.contains(&b) {
            continue;
        }
        used.push(b);
        let avail = by_bucket.get(&b).cloned().unwrap_or_default();
        let want = if small { rng.range(2, 5) } else { rng.range(21, 30) } as usize;
        let mut g = Vec::new();
        for s in avail.into_iter().take(want) {
            g.push(seeds.len() as u64);
            seeds.push(s);
        }
        if !g.is_empty() {
            groups.push(g);
        }
    }
    let nscatter = if small { rng.range(1, 3) } else { rng.range(4, 12) };
    let mut scatter = Vec::new();
    for _ in 0..nscatter {
        let b = 255 - rng.below(12) as usize;
        if let Some(v) = by_bucket.get_mut(&b) {
            if let Some(s) = v.pop() {
                if !seeds.contains(&s) {
                    scatter.push(seeds.len() as u64);
                    seeds.push(s);
                }
            }
        }
    }
    let all: Vec<u64> = (1..seeds.len() as u64).collect();
    if all.is_empty() {
        return None;
    }
    let k = match rng.below(10) {
        0 => 1,
        1 => 3,
        2 => 5,
        3 => 25,
        _ => 20,
    } + if rng.chance(12) { 100 } else { 0 };
    let h = Header { k, seeds: seeds.clone() };
    let nsteps = if small {
        rng.range(5, 18)
    } else if thorough {
        rng.range(40, 300)
    } else {
        rng.range(30, 140)
    };
    let rt = runtime();
    rt.block_on(tokio::task::unconstrained(async {
        let mut s = Sys::new(&h)?;
        let mut case = Vec::new();
        s.header(&mut case, &seeds);
        case.push(nsteps);
        let mut trace = vec![1u64];
        let pick = |rng: &mut Rng, groups: &Vec<Vec<u64>>, all: &Vec<u64>| -> u64 {
            if rng.chance(75) && !groups.is_empty() {
                let g = &groups[rng.below(groups.len() as u64) as usize];
                g[rng.below(g.len() as u64) as usize]
            } else if rng.chance(3) {
                0
            } else {
                all[rng.below(all.len() as u64) as usize]
            }
        };
        let mut nsteps_left = nsteps;
        // a part of the peers is dialable from the start, so that queries leave pending dials
        for q in all.iter() {
            if nsteps_left > 1 && rng.chance(if small { 10 } else { 4 }) {
                s.apply(&Ev::Mgr(*q, 1), &mut case, &mut trace);
                nsteps_left -= 1;
            }
        }
        for _ in 0..nsteps_left {
            let p = pick(rng, &groups, &all);
            let pend = s.some_pending();
            let e = match rng.below(100) {
                0..=27 => Ev::AddKnown(p, if rng.chance(8) { 0 } else { rng.range(1, 2) }),
                28..=42 => {
                    if !pend.is_empty() && rng.chance(85) {
                        let who = pend[rng.below(pend.len() as u64) as usize];
                        let n = rng.range(1, if small { 4 } else { 26 });
                        let mut l = Vec::new();
                        for _ in 0..n {
                            let q = pick(rng, &groups, &all);
                            if !l.iter().any(|x: &(u64, u64)| x.0 == q) {
                                l.push((q, if rng.chance(10) { 0 } else { rng.range(1, 2) }));
                            }
                        }
                        Ev::Respond(who, l)
                    } else {
                        Ev::FindNodeCmd(p)
                    }
                }
                43..=54 => Ev::Establish(p, rng.chance(50) as u64),
                55..=57 => {
                    // a second connection, preferably to a peer that has exactly one
                    let one = s.with_connections(1);
                    if !one.is_empty() && rng.chance(85) {
                        Ev::Establish2(one[rng.below(one.len() as u64) as usize])
                    } else {
                        Ev::Establish2(p)
                    }
                }
                58..=60 => {
                    let any: Vec<u64> = s.with_connections(1).into_iter().chain(s.with_connections(2)).collect();
                    if !any.is_empty() && rng.chance(80) {
                        Ev::Close(any[rng.below(any.len() as u64) as usize])
                    } else {
                        Ev::Close(p)
                    }
                }
                61..=62 => {
                    let two = s.with_connections(2);
                    if !two.is_empty() {
                        Ev::CloseOne(two[rng.below(two.len() as u64) as usize], rng.below(2))
                    } else {
                        Ev::Establish2(p)
                    }
                }
                63..=76 => {
                    let t = if rng.chance(50) { p } else { pick(rng, &groups, &all) };
                    Ev::Request(pick(rng, &groups, &all), t, rng.below(3))
                }
                77..=80 => Ev::InboundEof(p),
                81..=85 => Ev::DialFail(p, rng.below(3), rng.chance(60) as u64),
                86..=93 => Ev::FindNodeCmd(p),
                94..=95 => Ev::PutToPeers(p),
                96..=98 => Ev::Mgr(p, if rng.chance(80) { 1 } else { rng.below(4) }),
                _ => Ev::Poll,
            };
            s.apply(&e, &mut case, &mut trace);
        }
        s.finish(&mut trace);
        Some((case, trace))
    }))
}
