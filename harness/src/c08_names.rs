//! C09 / C08, the name tables of `ProtocolSet::new` (case kind 6, format: coq/Ts/GlueMulti.v,
//! model: coq/Ts/Names.v): a real `ProtocolSet` is built from protocols with 0-3 fallback names and
//! mixed keep-alive flags; read back: `protocols_with_keep_alives()` — the table every transport
//! offers to multistream-select for inbound substreams and reads, under the negotiated name, to
//! decide whether the accepted substream stores a connection lifetime permit — and, for a list of
//! names, which protocol `report_substream_open` hands the substream to and under which names.
use crate::util::*;
use litep2p::{
    codec::ProtocolCodec,
    protocol::{
        verif::{InnerTransportEvent, ProtocolContext, ProtocolSet, VerifService},
        Direction, SubstreamKeepAlive,
    },
    types::{protocol::ProtocolName, ConnectionId},
    PeerId,
};
use std::{
    collections::{HashMap, HashSet},
    sync::{atomic::AtomicUsize, Arc},
    time::Duration,
};
use tokio::sync::mpsc;

fn name(n: u64) -> ProtocolName {
    ProtocolName::from(format!("/n/{n}"))
}
fn num(p: &ProtocolName) -> u64 {
    p.to_string().rsplit('/').next().and_then(|x| x.parse().ok()).unwrap_or(999_999)
}

#[allow(clippy::type_complexity)]
pub fn parse(c: &[u64]) -> Option<(Vec<(u64, bool, Vec<u64>)>, Vec<u64>)> {
    if c.len() < 3 || c[0] != 6 {
        return None;
    }
    let n = c[1] as usize;
    if n == 0 || n >= 9 {
        return None;
    }
    let mut i = 2;
    let mut tbl = Vec::new();
    let mut seen = HashSet::new();
    let mut mains = Vec::new();
    let mut fbs_all = Vec::new();
    for _ in 0..n {
        let m = *c.get(i)?;
        let ka = *c.get(i + 1)? != 0;
        let nf = *c.get(i + 2)? as usize;
        i += 3;
        if i + nf > c.len() {
            return None;
        }
        let fbs: Vec<u64> = c[i..i + nf].to_vec();
        i += nf;
        mains.push(m);
        fbs_all.extend(fbs.iter().copied());
        tbl.push((m, ka, fbs));
    }
    for x in mains.iter().chain(fbs_all.iter()) {
        if *x >= 1_000_000 || !seen.insert(*x) {
            return None;
        }
    }
    let nq = *c.get(i)? as usize;
    i += 1;
    if i + nq != c.len() {
        return None;
    }
    let qs: Vec<u64> = c[i..].to_vec();
    if qs.iter().any(|x| *x >= 1_000_000) {
        return None;
    }
    Some((tbl, qs))
}

pub fn run(rt: &tokio::runtime::Runtime, c: &[u64]) -> Vec<u64> {
    let Some((tbl, qs)) = parse(c) else { return vec![0] };
    rt.block_on(async move {
        let mut table = HashMap::new();
        let mut rxs = Vec::new();
        for (m, ka, fbs) in &tbl {
            let (tx, rx) = mpsc::channel(64);
            rxs.push(rx);
            table.insert(
                name(*m),
                ProtocolContext {
                    tx,
                    codec: ProtocolCodec::Identity(32),
                    fallback_names: fbs.iter().map(|f| name(*f)).collect(),
                    keep_alive: if *ka { SubstreamKeepAlive::Yes } else { SubstreamKeepAlive::No },
                },
            );
        }
        let (mgr_tx, _mgr_rx) = mpsc::channel(64);
        let mut set = ProtocolSet::new(ConnectionId::from(1usize), mgr_tx, Arc::new(AtomicUsize::new(0)), table);
        let mut trace = vec![6u64];
        let mut ka: Vec<(u64, u64)> = set
            .protocols_with_keep_alives()
            .iter()
            .map(|(n, k)| (num(n), (*k == SubstreamKeepAlive::Yes) as u64))
            .collect();
        ka.sort();
        trace.push(ka.len() as u64);
        for (n, k) in ka {
            trace.extend([n, k]);
        }
        let helper = VerifService::new(Duration::from_secs(3600), true, 0);
        let peer = PeerId::random();
        for q in qs {
            let Some(permit) = set.try_get_permit() else {
                trace.extend([7, 0, 0]);
                continue;
            };
            let sub = helper.make_substream(peer, 0, None);
            match set.report_substream_open(peer, name(q), Direction::Inbound, sub, permit).await {
                Err(_) => trace.extend([1, 0, 0]),
                Ok(()) => {
                    let mut got = None;
                    for rx in rxs.iter_mut() {
                        if let Ok(InnerTransportEvent::SubstreamOpened { protocol, fallback, .. }) = rx.try_recv() {
                            got = Some((num(&protocol), fallback.map(|f| num(&f) + 1).unwrap_or(0)));
                        }
                    }
                    match got {
                        Some((m, f)) => trace.extend([0, m, f]),
                        None => trace.extend([8, 0, 0]),
                    }
                }
            }
        }
        trace
    })
}

pub fn gen(rng: &mut Rng) -> Vec<u64> {
    let n = rng.range(1, 5);
    let mut pool: Vec<u64> = (1..40).collect();
    let mut c = vec![6, n];
    let mut names = Vec::new();
    for _ in 0..n {
        let m = pool.remove(rng.below(pool.len() as u64) as usize);
        let nf = rng.range(0, 3);
        c.extend([m, rng.chance(55) as u64, nf]);
        names.push(m);
        for _ in 0..nf {
            let f = pool.remove(rng.below(pool.len() as u64) as usize);
            c.push(f);
            names.push(f);
        }
    }
    let nq = rng.range(1, 6);
    c.push(nq);
    for _ in 0..nq {
        if rng.chance(85) {
            c.push(names[rng.below(names.len() as u64) as usize]);
        } else {
            c.push(rng.range(50, 60));
        }
    }
    c
}
