//! C12: one notification stream, sender user -> receiver user, built from the real
//! `NotificationHandle`, `NotificationSink`, `Connection` and `Substream` of litep2p over
//! scripted in-memory carriers. Case/trace format: see coq/C12/Glue.v.
use crate::util::*;
use futures::{FutureExt, StreamExt};
use litep2p::{
    codec::ProtocolCodec,
    protocol::notification::{
        verif::{new_handle, ProtocolSide},
        NotificationCommand, NotificationError, NotificationEvent, NotificationHandle,
        NotificationSink,
    },
    substream::Substream,
    types::{protocol::ProtocolName, SubstreamId},
    PeerId,
};
use std::{
    collections::VecDeque,
    future::Future,
    io,
    panic::{catch_unwind, AssertUnwindSafe},
    path::Path,
    pin::Pin,
    sync::{
        atomic::{AtomicU64, Ordering},
        Arc, Mutex,
    },
    task::{Context, Poll, Waker},
};
use tokio::{
    io::{AsyncRead, AsyncWrite, ReadBuf},
    sync::oneshot,
    task::JoinHandle,
};

// ---------------------------------------------------------------- carrier

#[derive(Default)]
struct Pipe {
    buf: VecDeque<u8>,
    wgate: bool,
    rgate: bool,
    wclosed: bool,
    killed: bool,
    rwaker: Option<Waker>,
    wwaker: Option<Waker>,
    // parser of the written byte stream (unsigned-varint frames)
    written: u64,
    read: u64,
    hdr: Vec<u8>,
    remaining: Option<u64>,
    first: bool,
    frame_ends: Vec<u64>,
    modes: Vec<bool>,
}

impl Pipe {
    fn new() -> Arc<Mutex<Pipe>> {
        Arc::new(Mutex::new(Pipe { wgate: true, rgate: true, ..Default::default() }))
    }
    fn wake(&mut self) {
        if let Some(w) = self.rwaker.take() {
            w.wake();
        }
        if let Some(w) = self.wwaker.take() {
            w.wake();
        }
    }
    fn frame_done(&mut self) {
        self.frame_ends.push(self.written);
        self.remaining = None;
    }
    fn feed(&mut self, data: &[u8]) {
        for &b in data {
            self.written += 1;
            match self.remaining {
                None => {
                    self.hdr.push(b);
                    if b & 0x80 == 0 {
                        let mut v = 0u64;
                        for (i, x) in self.hdr.iter().enumerate() {
                            v |= ((x & 0x7f) as u64) << (7 * i);
                        }
                        self.hdr.clear();
                        self.remaining = Some(v);
                        self.first = true;
                        if v == 0 {
                            self.modes.push(false);
                            self.frame_done();
                        }
                    }
                }
                Some(r) => {
                    if self.first {
                        self.modes.push(b == 1);
                        self.first = false;
                    }
                    if r == 1 {
                        self.frame_done();
                    } else {
                        self.remaining = Some(r - 1);
                    }
                }
            }
        }
    }
    fn frames_buffered(&self) -> u64 {
        let read = self.frame_ends.iter().filter(|e| **e <= self.read).count();
        (self.frame_ends.len() - read) as u64
    }
}

struct WEnd(Arc<Mutex<Pipe>>);
struct REnd(Arc<Mutex<Pipe>>);

impl AsyncWrite for WEnd {
    fn poll_write(self: Pin<&mut Self>, cx: &mut Context<'_>, data: &[u8]) -> Poll<io::Result<usize>> {
        let mut p = self.0.lock().unwrap();
        if p.killed {
            return Poll::Ready(Err(io::ErrorKind::BrokenPipe.into()));
        }
        if !p.wgate {
            p.wwaker = Some(cx.waker().clone());
            return Poll::Pending;
        }
        p.buf.extend(data.iter());
        p.feed(data);
        if let Some(w) = p.rwaker.take() {
            w.wake();
        }
        Poll::Ready(Ok(data.len()))
    }
    fn poll_flush(self: Pin<&mut Self>, cx: &mut Context<'_>) -> Poll<io::Result<()>> {
        let mut p = self.0.lock().unwrap();
        if p.killed {
            return Poll::Ready(Err(io::ErrorKind::BrokenPipe.into()));
        }
        if !p.wgate {
            p.wwaker = Some(cx.waker().clone());
            return Poll::Pending;
        }
        Poll::Ready(Ok(()))
    }
    fn poll_shutdown(self: Pin<&mut Self>, _cx: &mut Context<'_>) -> Poll<io::Result<()>> {
        let mut p = self.0.lock().unwrap();
        p.wclosed = true;
        p.wake();
        Poll::Ready(Ok(()))
    }
}
impl AsyncRead for WEnd {
    fn poll_read(self: Pin<&mut Self>, _cx: &mut Context<'_>, _b: &mut ReadBuf<'_>) -> Poll<io::Result<()>> {
        Poll::Pending
    }
}
impl Drop for WEnd {
    fn drop(&mut self) {
        let mut p = self.0.lock().unwrap();
        p.wclosed = true;
        p.wake();
    }
}

impl AsyncRead for REnd {
    fn poll_read(self: Pin<&mut Self>, cx: &mut Context<'_>, b: &mut ReadBuf<'_>) -> Poll<io::Result<()>> {
        let mut p = self.0.lock().unwrap();
        if p.killed {
            return Poll::Ready(Ok(()));
        }
        if !p.rgate {
            p.rwaker = Some(cx.waker().clone());
            return Poll::Pending;
        }
        if !p.buf.is_empty() {
            let n = b.remaining().min(p.buf.len());
            for _ in 0..n {
                let x = p.buf.pop_front().unwrap();
                b.put_slice(&[x]);
            }
            p.read += n as u64;
            return Poll::Ready(Ok(()));
        }
        if p.wclosed {
            return Poll::Ready(Ok(()));
        }
        p.rwaker = Some(cx.waker().clone());
        Poll::Pending
    }
}
impl AsyncWrite for REnd {
    fn poll_write(self: Pin<&mut Self>, _cx: &mut Context<'_>, data: &[u8]) -> Poll<io::Result<usize>> {
        Poll::Ready(Ok(data.len()))
    }
    fn poll_flush(self: Pin<&mut Self>, _cx: &mut Context<'_>) -> Poll<io::Result<()>> {
        Poll::Ready(Ok(()))
    }
    fn poll_shutdown(self: Pin<&mut Self>, _cx: &mut Context<'_>) -> Poll<io::Result<()>> {
        Poll::Ready(Ok(()))
    }
}

// ---------------------------------------------------------------- quiescence

static POLLS: AtomicU64 = AtomicU64::new(0);

struct Counted<F>(Pin<Box<F>>);
impl<F: Future> Future for Counted<F> {
    type Output = F::Output;
    fn poll(mut self: Pin<&mut Self>, cx: &mut Context<'_>) -> Poll<F::Output> {
        POLLS.fetch_add(1, Ordering::SeqCst);
        self.0.as_mut().poll(cx)
    }
}
fn spawn_counted<F: Future + Send + 'static>(f: F) -> JoinHandle<F::Output>
where
    F::Output: Send + 'static,
{
    tokio::spawn(Counted(Box::pin(f)))
}

/// Runs the spawned tasks until none of them is runnable.
async fn settle() {
    for _ in 0..100_000 {
        let c0 = POLLS.load(Ordering::SeqCst);
        tokio::task::yield_now().await;
        if POLLS.load(Ordering::SeqCst) == c0 {
            return;
        }
    }
    panic!("no quiescence");
}

// ---------------------------------------------------------------- world

struct Period {
    ab: Arc<Mutex<Pipe>>,
    ba: Arc<Mutex<Pipe>>,
    a_task: JoinHandle<()>,
    b_task: JoinHandle<()>,
    a_shutdown: Option<oneshot::Sender<()>>,
    b_shutdown: Option<oneshot::Sender<()>>,
    a_probe: NotificationSink,
    _b_sink: NotificationSink,
}

struct World {
    cfg: [u64; 5],
    peer_a: PeerId,
    peer_b: PeerId,
    handle_a: NotificationHandle,
    handle_b: NotificationHandle,
    side_a: ProtocolSide,
    side_b: ProtocolSide,
    per: u64,
    cur: Option<Period>,
    old: Vec<Period>,
    a_sink_per: Option<u64>,
    async_ok: Arc<AtomicU64>,
    async_err: Arc<AtomicU64>,
    issued: u64,
    fc: u64,
    nyes: u64,
    hints: Vec<Vec<bool>>,
    task_panicked: bool,
}

fn payload(per: u64, sync: bool, tag: u64, len: u64) -> Vec<u8> {
    let mut v = vec![0u8; len as usize];
    v[0] = sync as u8;
    v[1] = per as u8;
    v[2] = tag as u8;
    v[3] = (tag >> 8) as u8;
    v
}

impl World {
    fn new(cfg: [u64; 5]) -> Self {
        let proto = ProtocolName::from("/verif/notif/1");
        let (handle_a, side_a) = new_handle(proto.clone(), 1024, 64, 64);
        let (handle_b, side_b) = new_handle(proto, 1024, cfg[2] as usize, 64);
        World {
            cfg,
            peer_a: PeerId::random(),
            peer_b: PeerId::random(),
            handle_a,
            handle_b,
            side_a,
            side_b,
            per: 0,
            cur: None,
            old: Vec::new(),
            a_sink_per: None,
            async_ok: Arc::new(AtomicU64::new(0)),
            async_err: Arc::new(AtomicU64::new(0)),
            issued: 0,
            fc: 0,
            nyes: 0,
            hints: Vec::new(),
            task_panicked: false,
        }
    }

    fn a_alive(&self) -> bool {
        self.cur.as_ref().map(|p| !p.a_task.is_finished()).unwrap_or(false)
    }
    fn b_alive(&self) -> bool {
        self.cur.as_ref().map(|p| !p.b_task.is_finished()).unwrap_or(false)
    }

    fn retire(&mut self) {
        if let Some(p) = self.cur.take() {
            self.hints.push(p.ab.lock().unwrap().modes.clone());
            self.old.push(p);
        }
    }

    async fn reopen(&mut self) -> u64 {
        if self.a_alive() || self.b_alive() {
            return 1;
        }
        self.retire();
        self.per += 1;
        let k = self.per;
        let (ab, ba) = (Pipe::new(), Pipe::new());
        let max_out = Some(self.cfg[3] as usize);
        let max_in = Some(self.cfg[4] as usize);
        let sub = |peer: PeerId, id: usize, io: Box<dyn litep2p::substream::verif::VerifIo>, max| {
            Substream::verif_new(peer, SubstreamId::from(id), io, ProtocolCodec::UnsignedVarint(max))
        };
        // receiver first (the model appends HOpened to handle B's queue, then to handle A's)
        let (b_fut, b_shutdown, b_sink) = self
            .side_b
            .open(
                self.peer_a,
                sub(self.peer_a, 1, Box::new(REnd(ab.clone())), max_in),
                sub(self.peer_a, 2, Box::new(WEnd(ba.clone())), max_in),
                1,
                1,
                vec![k as u8],
            )
            .await;
        let (a_fut, a_shutdown, a_probe) = self
            .side_a
            .open(
                self.peer_b,
                sub(self.peer_b, 3, Box::new(REnd(ba.clone())), max_out),
                sub(self.peer_b, 4, Box::new(WEnd(ab.clone())), max_out),
                self.cfg[0] as usize,
                self.cfg[1] as usize,
                vec![k as u8],
            )
            .await;
        let a_task = spawn_counted(a_fut);
        let b_task = spawn_counted(b_fut);
        self.cur = Some(Period {
            ab,
            ba,
            a_task,
            b_task,
            a_shutdown: Some(a_shutdown),
            b_shutdown: Some(b_shutdown),
            a_probe,
            _b_sink: b_sink,
        });
        0
    }

    fn dump(&mut self, out: &mut Vec<u64>) {
        while let Ok(c) = self.side_a.command_rx.try_recv() {
            if let NotificationCommand::ForceClose { .. } = c {
                self.fc += 1;
            }
        }
        while self.side_b.command_rx.try_recv().is_ok() {}
        while self.side_a.shutdown_rx.try_recv().is_ok() {
            self.nyes += 1;
        }
        while self.side_b.shutdown_rx.try_recv().is_ok() {
            self.nyes += 1;
        }
        let (a, b) = (self.a_alive(), self.b_alive());
        let (sf, af) = match (&self.cur, a) {
            (Some(p), true) => {
                let (s, a) = p.a_probe.verif_free();
                (s as u64, a as u64)
            }
            _ => (0, 0),
        };
        let ok = self.async_ok.load(Ordering::SeqCst);
        let err = self.async_err.load(Ordering::SeqCst);
        let car = match (&self.cur, b) {
            (Some(p), true) => p.ab.lock().unwrap().frames_buffered(),
            _ => 0,
        };
        out.extend([
            a as u64,
            b as u64,
            sf,
            af,
            self.issued - ok - err,
            ok,
            err,
            car,
            self.side_b.notif_free() as u64,
            self.fc,
            self.nyes,
            0,
        ]);
    }
}

fn now<F: Future>(f: F) -> Option<F::Output> {
    tokio::task::unconstrained(f).now_or_never()
}

/// Splits a case into configuration and actions (the hint section, if any, is ignored: it is
/// re-created from what the implementation does in this run).
fn parse_case(c: &[u64]) -> Option<([u64; 5], Vec<Vec<u64>>)> {
    if c.len() < 6 {
        return None;
    }
    let cfg = [c[0], c[1], c[2], c[3], c[4]];
    if cfg[0] == 0 || cfg[1] == 0 || cfg[2] == 0 || cfg[0] > 4096 || cfg[1] > 4096 || cfg[2] > 4096 {
        return None;
    }
    let n = c[5] as usize;
    let mut i = 6;
    let mut acts = Vec::new();
    for _ in 0..n {
        let tag = *c.get(i)?;
        let l = match tag {
            0 | 1 | 2 => 3,
            3..=8 => 1,
            _ => return None,
        };
        if i + l > c.len() {
            return None;
        }
        let a = c[i..i + l].to_vec();
        if tag <= 1 && (a[2] < 4 || a[2] > 1 << 22 || a[1] >= 65536) {
            return None;
        }
        acts.push(a);
        i += l;
    }
    Some((cfg, acts))
}

fn encode_case(cfg: &[u64; 5], acts: &[Vec<u64>], hints: &[Vec<bool>]) -> Vec<u64> {
    let mut c: Vec<u64> = cfg.to_vec();
    c.push(acts.len() as u64);
    for a in acts {
        c.extend(a);
    }
    c.push(hints.len() as u64);
    for h in hints {
        c.push(h.len() as u64);
        c.extend(h.iter().map(|b| *b as u64));
    }
    c
}

async fn run_actions(cfg: [u64; 5], acts: &[Vec<u64>]) -> (Vec<u64>, Vec<Vec<bool>>) {
    let mut w = World::new(cfg);
    let mut out = vec![1u64];
    for a in acts {
        match a[0] {
            0 => {
                let r = if w.handle_a.notification_sink(w.peer_b).is_none() {
                    let _ = w.handle_a.send_sync_notification(w.peer_b, payload(0, true, a[1], a[2]));
                    3
                } else {
                    let per = w.a_sink_per.unwrap_or(0);
                    match w.handle_a.send_sync_notification(w.peer_b, payload(per, true, a[1], a[2])) {
                        Ok(()) => 0,
                        Err(NotificationError::ChannelClogged) => 1,
                        Err(NotificationError::NoConnection) => 2,
                        Err(_) => 9,
                    }
                };
                out.push(r);
            }
            1 => match w.handle_a.notification_sink(w.peer_b) {
                None => out.push(3),
                Some(sink) => {
                    let per = w.a_sink_per.unwrap_or(0);
                    let p = payload(per, false, a[1], a[2]);
                    let (ok, err) = (w.async_ok.clone(), w.async_err.clone());
                    w.issued += 1;
                    spawn_counted(async move {
                        match sink.send_async_notification(p).await {
                            Ok(()) => ok.fetch_add(1, Ordering::SeqCst),
                            Err(_) => err.fetch_add(1, Ordering::SeqCst),
                        };
                    });
                    out.push(0);
                }
            },
            2 => {
                if let Some(p) = &w.cur {
                    let mut g = p.ab.lock().unwrap();
                    g.wgate = a[1] != 0;
                    g.rgate = a[2] != 0;
                    g.wake();
                }
                out.push(0);
            }
            3 => match now(w.handle_b.next()) {
                None => out.push(0),
                Some(Some(NotificationEvent::NotificationStreamOpened { handshake, .. })) =>
                    out.extend([1, handshake[0] as u64]),
                Some(Some(NotificationEvent::NotificationStreamClosed { .. })) => out.push(2),
                Some(Some(NotificationEvent::NotificationReceived { notification, .. })) => {
                    let n = &notification;
                    let tag = n[2] as u64 | (n[3] as u64) << 8;
                    out.extend([3, n[1] as u64, n[0] as u64, tag, n.len() as u64]);
                }
                Some(_) => out.push(9),
            },
            4 => {
                let mut evs = Vec::new();
                let mut n = 0;
                while let Some(e) = now(w.handle_a.next()) {
                    n += 1;
                    match e {
                        Some(NotificationEvent::NotificationStreamOpened { handshake, .. }) => {
                            w.a_sink_per = Some(handshake[0] as u64);
                            evs.extend([1, handshake[0] as u64]);
                        }
                        Some(NotificationEvent::NotificationStreamClosed { .. }) => {
                            w.a_sink_per = None;
                            evs.push(2);
                        }
                        _ => evs.push(9),
                    }
                }
                out.push(n);
                out.extend(evs);
            }
            5 => {
                if w.a_alive() {
                    if let Some(tx) = w.cur.as_mut().and_then(|p| p.a_shutdown.take()) {
                        let _ = tx.send(());
                    }
                    out.push(0);
                } else {
                    out.push(1);
                }
            }
            6 => {
                if w.b_alive() {
                    if let Some(tx) = w.cur.as_mut().and_then(|p| p.b_shutdown.take()) {
                        let _ = tx.send(());
                    }
                    out.push(0);
                } else {
                    out.push(1);
                }
            }
            7 => {
                if w.a_alive() || w.b_alive() {
                    let p = w.cur.as_ref().unwrap();
                    for pipe in [&p.ab, &p.ba] {
                        let mut g = pipe.lock().unwrap();
                        g.killed = true;
                        g.buf.clear();
                        g.read = g.written;
                        g.wake();
                    }
                    out.push(0);
                } else {
                    out.push(1);
                }
            }
            8 => {
                let r = w.reopen().await;
                out.push(r);
            }
            _ => unreachable!(),
        }
        settle().await;
        w.dump(&mut out);
    }
    w.retire();
    // a panic inside a Connection task must not pass for a clean close
    for p in w.old.iter_mut() {
        for t in [&mut p.a_task, &mut p.b_task] {
            if t.is_finished() {
                if let Some(Err(e)) = t.now_or_never() {
                    if e.is_panic() {
                        w.task_panicked = true;
                    }
                }
            }
        }
    }
    if w.task_panicked {
        out = vec![PANIC_MARK];
    }
    (out, w.hints.clone())
}

/// Runs one case against the real code; returns the case completed with the observed merge
/// choices and the trace.
fn run_case(c: &[u64]) -> (Vec<u64>, Vec<u64>) {
    let Some((cfg, acts)) = parse_case(c) else {
        return (c.to_vec(), vec![0]);
    };
    let r = catch_unwind(AssertUnwindSafe(|| {
        let rt = tokio::runtime::Builder::new_current_thread().enable_all().build().unwrap();
        rt.block_on(run_actions(cfg, &acts))
    }));
    match r {
        Ok((trace, hints)) => (encode_case(&cfg, &acts, &hints), trace),
        Err(_) => (encode_case(&cfg, &acts, &[]), vec![PANIC_MARK]),
    }
}

// ---------------------------------------------------------------- generator

fn gen_case(rng: &mut Rng, thorough: bool) -> Vec<u64> {
    let cap_s = rng.pick(&[1u64, 2, 16]);
    let cap_a = rng.pick(&[1u64, 2, 16]);
    let cap_n = rng.pick(&[1u64, 4, 64]);
    let big = rng.chance(30);
    // Which receiver `tokio::select!` polls first is random and is read back from the carrier
    // (the hint section of the emitted case). A pop is invisible when the sender's substream
    // refuses the notification (larger than max_out) before the next flush, so such
    // notifications are generated only in cases that use a single sending mode; mixed-mode
    // cases exceed only the receiver's maximum.
    let single = rng.chance(35);
    let only_mode = rng.below(2);
    let max_out = if big { rng.pick(&[30_000u64, 50_000]) } else { rng.pick(&[8u64, 16, 64, 100]) };
    let max_in = if single {
        if big {
            if rng.chance(20) { max_out - 10_000 } else { max_out }
        } else if rng.chance(25) {
            rng.pick(&[6u64, 8, 16, 200])
        } else {
            max_out
        }
    } else if rng.chance(35) {
        if big { max_out - 10_000 } else { (max_out / 2).max(5) }
    } else {
        max_out
    };
    let nact = if thorough { rng.range(30, 400) } else { rng.range(15, 90) };
    let mut acts: Vec<Vec<u64>> = Vec::new();
    let mut tag = 0u64;
    let m = max_out.min(max_in);
    let size = |rng: &mut Rng| -> u64 {
        match rng.below(100) {
            0..=4 => if single { max_out + rng.range(1, 3) } else { rng.range(m, max_out).max(4) },
            5..=8 => if single { m + 1 } else { (m + 1).min(max_out).max(4) },
            9..=14 => m.max(4),
            15..=19 => 4,
            _ => if big { rng.range(m / 2, m) } else { rng.range(4, m.max(4)) },
        }
    };
    let mut open = false;
    if rng.chance(92) {
        acts.push(vec![8]);
        open = true;
        if rng.chance(90) {
            acts.push(vec![4]);
        }
    }
    while acts.len() < nact as usize {
        if !open && rng.chance(40) {
            acts.push(vec![8]);
            open = true;
            if rng.chance(80) {
                acts.push(vec![4]);
            }
            continue;
        }
        match rng.below(100) {
            0..=24 => {
                tag += 1;
                acts.push(vec![if single { only_mode } else { 0 }, tag, size(rng)]);
            }
            25..=42 => {
                tag += 1;
                acts.push(vec![if single { only_mode } else { 1 }, tag, size(rng)]);
            }
            43..=50 => {
                // burst through one or both modes, up to 5x the capacity
                let cap = if rng.chance(50) { cap_s } else { cap_a };
                let n = rng.range(1, (5 * cap).min(40));
                let mode = rng.below(3);
                for _ in 0..n {
                    tag += 1;
                    let md = if single {
                        only_mode
                    } else if mode == 2 {
                        rng.below(2)
                    } else {
                        mode
                    };
                    acts.push(vec![md, tag, size(rng)]);
                }
            }
            51..=60 => acts.push(vec![2, rng.chance(50) as u64, rng.chance(50) as u64]),
            61..=63 => acts.push(vec![2, 1, 1]),
            64..=81 => {
                for _ in 0..rng.range(1, 4) {
                    acts.push(vec![3]);
                }
            }
            82..=87 => acts.push(vec![4]),
            88 => {
                acts.push(vec![5]);
                open = false;
            }
            89 => {
                acts.push(vec![6]);
                open = false;
            }
            90..=91 => {
                acts.push(vec![7]);
                open = false;
            }
            _ => {
                acts.push(vec![8]);
                if rng.chance(70) {
                    acts.push(vec![4]);
                }
            }
        }
        if tag > 60_000 {
            break;
        }
    }
    // drain at the end so that the delivered sequence is long
    if rng.chance(60) {
        acts.push(vec![2, 1, 1]);
        for _ in 0..rng.range(1, 30) {
            acts.push(vec![3]);
        }
    }
    encode_case(&[cap_s, cap_a, cap_n, max_out, max_in], &acts, &[])
}

pub fn main(args: &Args) {
    let seed = args.u64("seed", 1);
    let ncases = args.u64("cases", 100);
    let thorough = args.str("tier") == Some("thorough");
    let mut out = Outputs::open(args);
    let mut rng = Rng::new(seed);

    let mut stored: Vec<Vec<u64>> = Vec::new();
    if let Some(r) = args.str("replay") {
        stored = read_cases(Path::new(r));
    } else if let Some(d) = args.str("corpus") {
        stored = read_cases(Path::new(d));
    }
    for c in stored.iter() {
        let (c, t) = run_case(c);
        out.emit(&c, &t);
    }
    if args.str("replay").is_some() {
        return;
    }
    for _ in 0..ncases {
        let mut r = rng.fork();
        let c = gen_case(&mut r, thorough);
        let (c, t) = run_case(&c);
        out.emit(&c, &t);
    }
}
