//! C12: one notification stream, sender user -> receiver user, built from the real
//! `NotificationHandle`, `NotificationSink`, `Connection` and `Substream` of litep2p over
//! scripted in-memory carriers. Case/trace format: see coq/C12/Glue.v.
use crate::util::*;

#[path = "c12_start.rs"]
mod start;
use futures::{future::BoxFuture, FutureExt, StreamExt};
use litep2p::{
    codec::ProtocolCodec,
    protocol::notification::{
        verif::{new_handle, take_pops, ProtocolSide},
        NotificationCommand, NotificationError, NotificationEvent, NotificationHandle,
        NotificationSink,
    },
    substream::Substream,
    types::{protocol::ProtocolName, SubstreamId},
    PeerId,
};
use std::{
    collections::VecDeque,
    future::Future,
    io,
    panic::{catch_unwind, AssertUnwindSafe},
    path::Path,
    pin::Pin,
    sync::{
        atomic::{AtomicU64, Ordering},
        Arc, Mutex,
    },
    task::{Context, Poll, Waker},
};
use tokio::{
    io::{AsyncRead, AsyncWrite, ReadBuf},
    sync::oneshot,
    task::JoinHandle,
};

// ---------------------------------------------------------------- carrier

#[derive(Default)]
struct Pipe {
    buf: VecDeque<u8>,
    wgate: bool,
    rgate: bool,
    wclosed: bool,
    killed: bool,
    rwaker: Option<Waker>,
    wwaker: Option<Waker>,
    // parser of the written byte stream (unsigned-varint frames)
    written: u64,
    read: u64,
    hdr: Vec<u8>,
    remaining: Option<u64>,
    first: bool,
    frame_ends: Vec<u64>,
    modes: Vec<bool>,
}

impl Pipe {
    fn new() -> Arc<Mutex<Pipe>> {
        Arc::new(Mutex::new(Pipe { wgate: true, rgate: true, ..Default::default() }))
    }
    fn wake(&mut self) {
        if let Some(w) = self.rwaker.take() {
            w.wake();
        }
        if let Some(w) = self.wwaker.take() {
            w.wake();
        }
    }
    fn frame_done(&mut self) {
        self.frame_ends.push(self.written);
        self.remaining = None;
    }
    fn feed(&mut self, data: &[u8]) {
        for &b in data {
            self.written += 1;
            match self.remaining {
                None => {
                    self.hdr.push(b);
                    if b & 0x80 == 0 {
                        let mut v = 0u64;
                        for (i, x) in self.hdr.iter().enumerate() {
                            v |= ((x & 0x7f) as u64) << (7 * i);
                        }
                        self.hdr.clear();
                        self.remaining = Some(v);
                        self.first = true;
                        if v == 0 {
                            self.modes.push(false);
                            self.frame_done();
                        }
                    }
                }
                Some(r) => {
                    if self.first {
                        self.modes.push(b & 1 == 1);
                        self.first = false;
                    }
                    if r == 1 {
                        self.frame_done();
                    } else {
                        self.remaining = Some(r - 1);
                    }
                }
            }
        }
    }
    fn frames_buffered(&self) -> u64 {
        let read = self.frame_ends.iter().filter(|e| **e <= self.read).count();
        (self.frame_ends.len() - read) as u64
    }
}

struct WEnd(Arc<Mutex<Pipe>>);
struct REnd(Arc<Mutex<Pipe>>);

impl AsyncWrite for WEnd {
    fn poll_write(self: Pin<&mut Self>, cx: &mut Context<'_>, data: &[u8]) -> Poll<io::Result<usize>> {
        let mut p = self.0.lock().unwrap();
        if p.killed {
            return Poll::Ready(Err(io::ErrorKind::BrokenPipe.into()));
        }
        if !p.wgate {
            p.wwaker = Some(cx.waker().clone());
            return Poll::Pending;
        }
        p.buf.extend(data.iter());
        p.feed(data);
        if let Some(w) = p.rwaker.take() {
            w.wake();
        }
        Poll::Ready(Ok(data.len()))
    }
    fn poll_flush(self: Pin<&mut Self>, cx: &mut Context<'_>) -> Poll<io::Result<()>> {
        let mut p = self.0.lock().unwrap();
        if p.killed {
            return Poll::Ready(Err(io::ErrorKind::BrokenPipe.into()));
        }
        if !p.wgate {
            p.wwaker = Some(cx.waker().clone());
            return Poll::Pending;
        }
        Poll::Ready(Ok(()))
    }
    fn poll_shutdown(self: Pin<&mut Self>, _cx: &mut Context<'_>) -> Poll<io::Result<()>> {
        let mut p = self.0.lock().unwrap();
        p.wclosed = true;
        p.wake();
        Poll::Ready(Ok(()))
    }
}
impl AsyncRead for WEnd {
    fn poll_read(self: Pin<&mut Self>, _cx: &mut Context<'_>, _b: &mut ReadBuf<'_>) -> Poll<io::Result<()>> {
        Poll::Pending
    }
}
impl Drop for WEnd {
    fn drop(&mut self) {
        let mut p = self.0.lock().unwrap();
        p.wclosed = true;
        p.wake();
    }
}

impl AsyncRead for REnd {
    fn poll_read(self: Pin<&mut Self>, cx: &mut Context<'_>, b: &mut ReadBuf<'_>) -> Poll<io::Result<()>> {
        let mut p = self.0.lock().unwrap();
        if p.killed {
            return Poll::Ready(Ok(()));
        }
        if !p.rgate {
            p.rwaker = Some(cx.waker().clone());
            return Poll::Pending;
        }
        if !p.buf.is_empty() {
            let n = b.remaining().min(p.buf.len());
            for _ in 0..n {
                let x = p.buf.pop_front().unwrap();
                b.put_slice(&[x]);
            }
            p.read += n as u64;
            return Poll::Ready(Ok(()));
        }
        if p.wclosed {
            return Poll::Ready(Ok(()));
        }
        p.rwaker = Some(cx.waker().clone());
        Poll::Pending
    }
}
impl AsyncWrite for REnd {
    fn poll_write(self: Pin<&mut Self>, _cx: &mut Context<'_>, data: &[u8]) -> Poll<io::Result<usize>> {
        Poll::Ready(Ok(data.len()))
    }
    fn poll_flush(self: Pin<&mut Self>, _cx: &mut Context<'_>) -> Poll<io::Result<()>> {
        Poll::Ready(Ok(()))
    }
    fn poll_shutdown(self: Pin<&mut Self>, _cx: &mut Context<'_>) -> Poll<io::Result<()>> {
        Poll::Ready(Ok(()))
    }
}

// ---------------------------------------------------------------- quiescence

static POLLS: AtomicU64 = AtomicU64::new(0);

struct Counted<F>(Pin<Box<F>>);
impl<F: Future> Future for Counted<F> {
    type Output = F::Output;
    fn poll(mut self: Pin<&mut Self>, cx: &mut Context<'_>) -> Poll<F::Output> {
        POLLS.fetch_add(1, Ordering::SeqCst);
        self.0.as_mut().poll(cx)
    }
}
fn spawn_counted<F: Future + Send + 'static>(f: F) -> JoinHandle<F::Output>
where
    F::Output: Send + 'static,
{
    tokio::spawn(Counted(Box::pin(f)))
}

/// Runs the spawned tasks until none of them is runnable.
async fn settle() {
    for _ in 0..100_000 {
        let c0 = POLLS.load(Ordering::SeqCst);
        tokio::task::yield_now().await;
        if POLLS.load(Ordering::SeqCst) == c0 {
            return;
        }
    }
    panic!("no quiescence");
}

// ---------------------------------------------------------------- world

struct Period {
    ab: Arc<Mutex<Pipe>>,
    ba: Arc<Mutex<Pipe>>,
    a_task: JoinHandle<()>,
    b_task: JoinHandle<()>,
    a_shutdown: Option<oneshot::Sender<()>>,
    b_shutdown: Option<oneshot::Sender<()>>,
    a_probe: NotificationSink,
    _b_sink: NotificationSink,
}

struct World {
    cfg: [u64; 5],
    peer_a: PeerId,
    peer_b: PeerId,
    handle_a: NotificationHandle,
    handle_b: NotificationHandle,
    side_a: ProtocolSide,
    side_b: ProtocolSide,
    per: u64,
    cur: Option<Period>,
    old: Vec<Period>,
    a_sink_per: Option<u64>,
    async_ok: Arc<AtomicU64>,
    async_err: Arc<AtomicU64>,
    issued: u64,
    fc: u64,
    nyes: u64,
    hints: Vec<Vec<bool>>,
    task_panicked: bool,
}

fn payload(per: u64, sync: bool, tag: u64, len: u64) -> Vec<u8> {
    let mut v = vec![0u8; len as usize];
    v[0] = sync as u8;
    v[1] = per as u8;
    v[2] = tag as u8;
    v[3] = (tag >> 8) as u8;
    v
}

impl World {
    fn new(cfg: [u64; 5]) -> Self {
        let proto = ProtocolName::from("/verif/notif/1");
        let (handle_a, side_a) = new_handle(proto.clone(), 1024, 64, 64);
        let (handle_b, side_b) = new_handle(proto, 1024, cfg[2] as usize, 64);
        World {
            cfg,
            peer_a: PeerId::random(),
            peer_b: PeerId::random(),
            handle_a,
            handle_b,
            side_a,
            side_b,
            per: 0,
            cur: None,
            old: Vec::new(),
            a_sink_per: None,
            async_ok: Arc::new(AtomicU64::new(0)),
            async_err: Arc::new(AtomicU64::new(0)),
            issued: 0,
            fc: 0,
            nyes: 0,
            hints: Vec::new(),
            task_panicked: false,
        }
    }

    fn a_alive(&self) -> bool {
        self.cur.as_ref().map(|p| !p.a_task.is_finished()).unwrap_or(false)
    }
    fn b_alive(&self) -> bool {
        self.cur.as_ref().map(|p| !p.b_task.is_finished()).unwrap_or(false)
    }

    fn retire(&mut self) {
        if let Some(p) = self.cur.take() {
            self.old.push(p);
        }
    }

    /// One hint list per Connection in creation order (B's, then A's, per period): the queue
    /// choices of its select!, read from the log kept by the cfg(verif) hook.
    fn collect_hints(&mut self) {
        let pops = take_pops();
        for p in self.old.iter() {
            for id in [p._b_sink.verif_stream_id(), p.a_probe.verif_stream_id()] {
                self.hints.push(pops.iter().filter(|(s, _)| *s == id).map(|(_, m)| *m).collect());
            }
        }
    }

    async fn reopen(&mut self) -> u64 {
        if self.a_alive() || self.b_alive() {
            return 1;
        }
        self.retire();
        self.per += 1;
        let k = self.per;
        let (ab, ba) = (Pipe::new(), Pipe::new());
        let max_out = Some(self.cfg[3] as usize);
        let max_in = Some(self.cfg[4] as usize);
        let sub = |peer: PeerId, id: usize, io: Box<dyn litep2p::substream::verif::VerifIo>, max| {
            Substream::verif_new(peer, SubstreamId::from(id), io, ProtocolCodec::UnsignedVarint(max))
        };
        // receiver first (the model appends HOpened to handle B's queue, then to handle A's)
        let (b_fut, b_shutdown, b_sink) = self
            .side_b
            .open(
                self.peer_a,
                sub(self.peer_a, 1, Box::new(REnd(ab.clone())), max_in),
                sub(self.peer_a, 2, Box::new(WEnd(ba.clone())), max_in),
                1,
                1,
                vec![k as u8],
            )
            .await;
        let (a_fut, a_shutdown, a_probe) = self
            .side_a
            .open(
                self.peer_b,
                sub(self.peer_b, 3, Box::new(REnd(ba.clone())), max_out),
                sub(self.peer_b, 4, Box::new(WEnd(ab.clone())), max_out),
                self.cfg[0] as usize,
                self.cfg[1] as usize,
                vec![k as u8],
            )
            .await;
        let a_task = spawn_counted(a_fut);
        let b_task = spawn_counted(b_fut);
        self.cur = Some(Period {
            ab,
            ba,
            a_task,
            b_task,
            a_shutdown: Some(a_shutdown),
            b_shutdown: Some(b_shutdown),
            a_probe,
            _b_sink: b_sink,
        });
        0
    }

    fn dump(&mut self, out: &mut Vec<u64>) {
        while let Ok(c) = self.side_a.command_rx.try_recv() {
            if let NotificationCommand::ForceClose { .. } = c {
                self.fc += 1;
            }
        }
        while self.side_b.command_rx.try_recv().is_ok() {}
        while self.side_a.shutdown_rx.try_recv().is_ok() {
            self.nyes += 1;
        }
        while self.side_b.shutdown_rx.try_recv().is_ok() {
            self.nyes += 1;
        }
        let (a, b) = (self.a_alive(), self.b_alive());
        let (sf, af) = match (&self.cur, a) {
            (Some(p), true) => {
                let (s, a) = p.a_probe.verif_free();
                (s as u64, a as u64)
            }
            _ => (0, 0),
        };
        let ok = self.async_ok.load(Ordering::SeqCst);
        let err = self.async_err.load(Ordering::SeqCst);
        let car = match (&self.cur, b) {
            (Some(p), true) => p.ab.lock().unwrap().frames_buffered(),
            _ => 0,
        };
        out.extend([
            a as u64,
            b as u64,
            sf,
            af,
            self.issued - ok - err,
            ok,
            err,
            car,
            self.side_b.notif_free() as u64,
            self.fc,
            self.nyes,
            0,
        ]);
    }
}

fn now<F: Future>(f: F) -> Option<F::Output> {
    tokio::task::unconstrained(f).now_or_never()
}

/// Splits a case into configuration and actions (the hint section, if any, is ignored: it is
/// re-created from what the implementation does in this run).
fn parse_case(c: &[u64]) -> Option<([u64; 5], Vec<Vec<u64>>)> {
    if c.len() < 6 {
        return None;
    }
    let cfg = [c[0], c[1], c[2], c[3], c[4]];
    if cfg[0] == 0 || cfg[1] == 0 || cfg[2] == 0 || cfg[0] > 4096 || cfg[1] > 4096 || cfg[2] > 4096 {
        return None;
    }
    let n = c[5] as usize;
    let mut i = 6;
    let mut acts = Vec::new();
    for _ in 0..n {
        let tag = *c.get(i)?;
        let l = match tag {
            0 | 1 | 2 => 3,
            3..=8 => 1,
            _ => return None,
        };
        if i + l > c.len() {
            return None;
        }
        let a = c[i..i + l].to_vec();
        if tag <= 1 && (a[2] < 4 || a[2] > 1 << 22 || a[1] >= 65536) {
            return None;
        }
        acts.push(a);
        i += l;
    }
    Some((cfg, acts))
}

fn encode_case(cfg: &[u64; 5], acts: &[Vec<u64>], hints: &[Vec<bool>]) -> Vec<u64> {
    let mut c: Vec<u64> = cfg.to_vec();
    c.push(acts.len() as u64);
    for a in acts {
        c.extend(a);
    }
    c.push(hints.len() as u64);
    for h in hints {
        c.push(h.len() as u64);
        c.extend(h.iter().map(|b| *b as u64));
    }
    c
}

async fn run_actions(cfg: [u64; 5], acts: &[Vec<u64>]) -> (Vec<u64>, Vec<Vec<bool>>) {
    let mut w = World::new(cfg);
    let mut out = vec![1u64];
    for a in acts {
        match a[0] {
            0 => {
                let r = if w.handle_a.notification_sink(w.peer_b).is_none() {
                    let _ = w.handle_a.send_sync_notification(w.peer_b, payload(0, true, a[1], a[2]));
                    3
                } else {
                    let per = w.a_sink_per.unwrap_or(0);
                    match w.handle_a.send_sync_notification(w.peer_b, payload(per, true, a[1], a[2])) {
                        Ok(()) => 0,
                        Err(NotificationError::ChannelClogged) => 1,
                        Err(NotificationError::NoConnection) => 2,
                        Err(_) => 9,
                    }
                };
                out.push(r);
            }
            1 => match w.handle_a.notification_sink(w.peer_b) {
                None => out.push(3),
                Some(sink) => {
                    let per = w.a_sink_per.unwrap_or(0);
                    let p = payload(per, false, a[1], a[2]);
                    let (ok, err) = (w.async_ok.clone(), w.async_err.clone());
                    w.issued += 1;
                    spawn_counted(async move {
                        match sink.send_async_notification(p).await {
                            Ok(()) => ok.fetch_add(1, Ordering::SeqCst),
                            Err(_) => err.fetch_add(1, Ordering::SeqCst),
                        };
                    });
                    out.push(0);
                }
            },
            2 => {
                if let Some(p) = &w.cur {
                    let mut g = p.ab.lock().unwrap();
                    g.wgate = a[1] != 0;
                    g.rgate = a[2] != 0;
                    g.wake();
                }
                out.push(0);
            }
            3 => match now(w.handle_b.next()) {
                None => out.push(0),
                Some(Some(NotificationEvent::NotificationStreamOpened { handshake, .. })) =>
                    out.extend([1, handshake[0] as u64]),
                Some(Some(NotificationEvent::NotificationStreamClosed { .. })) => out.push(2),
                Some(Some(NotificationEvent::NotificationReceived { notification, .. })) => {
                    let n = &notification;
                    let tag = n[2] as u64 | (n[3] as u64) << 8;
                    out.extend([3, n[1] as u64, n[0] as u64, tag, n.len() as u64]);
                }
                Some(_) => out.push(9),
            },
            4 => {
                let mut evs = Vec::new();
                let mut n = 0;
                while let Some(e) = now(w.handle_a.next()) {
                    n += 1;
                    match e {
                        Some(NotificationEvent::NotificationStreamOpened { handshake, .. }) => {
                            w.a_sink_per = Some(handshake[0] as u64);
                            evs.extend([1, handshake[0] as u64]);
                        }
                        Some(NotificationEvent::NotificationStreamClosed { .. }) => {
                            w.a_sink_per = None;
                            evs.push(2);
                        }
                        _ => evs.push(9),
                    }
                }
                out.push(n);
                out.extend(evs);
            }
            5 => {
                if w.a_alive() {
                    if let Some(tx) = w.cur.as_mut().and_then(|p| p.a_shutdown.take()) {
                        let _ = tx.send(());
                    }
                    out.push(0);
                } else {
                    out.push(1);
                }
            }
            6 => {
                if w.b_alive() {
                    if let Some(tx) = w.cur.as_mut().and_then(|p| p.b_shutdown.take()) {
                        let _ = tx.send(());
                    }
                    out.push(0);
                } else {
                    out.push(1);
                }
            }
            7 => {
                if w.a_alive() || w.b_alive() {
                    let p = w.cur.as_ref().unwrap();
                    for pipe in [&p.ab, &p.ba] {
                        let mut g = pipe.lock().unwrap();
                        g.killed = true;
                        g.buf.clear();
                        g.read = g.written;
                        g.wake();
                    }
                    out.push(0);
                } else {
                    out.push(1);
                }
            }
            8 => {
                let r = w.reopen().await;
                out.push(r);
            }
            _ => unreachable!(),
        }
        settle().await;
        w.dump(&mut out);
    }
    w.retire();
    w.collect_hints();
    // a panic inside a Connection task must not pass for a clean close
    for p in w.old.iter_mut() {
        for t in [&mut p.a_task, &mut p.b_task] {
            if t.is_finished() {
                if let Some(Err(e)) = t.now_or_never() {
                    if e.is_panic() {
                        w.task_panicked = true;
                    }
                }
            }
        }
    }
    if w.task_panicked {
        out = vec![PANIC_MARK];
    }
    (out, w.hints.clone())
}

/// Runs one case against the real code; returns the case completed with the observed merge
/// choices and the trace.
fn run_case(c: &[u64]) -> (Vec<u64>, Vec<u64>) {
    let Some((cfg, acts)) = parse_case(c) else {
        return (c.to_vec(), vec![0]);
    };
    let _ = take_pops();
    let r = catch_unwind(AssertUnwindSafe(|| {
        let rt = tokio::runtime::Builder::new_current_thread().enable_all().build().unwrap();
        rt.block_on(run_actions(cfg, &acts))
    }));
    match r {
        Ok((trace, hints)) => (encode_case(&cfg, &acts, &hints), trace),
        Err(_) => (encode_case(&cfg, &acts, &[]), vec![PANIC_MARK]),
    }
}

// ---------------------------------------------------------------- scheduler stream
//
// Every process is stepped explicitly: a Connection task is polled exactly once per `Conn` step, a
// send_async future once per `AsyncStart`/`AsyncPoll` step, a handle once per `Handle` step (with
// the cooperative budget the step names). Nothing is spawned; wake-ups play no part.

const SCHED_MARK: u64 = 9001;
/// Budget value of a Connection poll that runs under `tokio::task::unconstrained`.
const UNLIMITED: u64 = 1_000_000;

type SendFut = Pin<Box<dyn Future<Output = Result<(), ()>> + Send>>;

struct SEp {
    peer: PeerId, // the remote peer as seen from this endpoint
    handle: NotificationHandle,
    side: ProtocolSide,
    conn: Option<BoxFuture<'static, ()>>,
    shutdown: Option<oneshot::Sender<()>>,
    probe: Option<NotificationSink>,
    keep: Vec<NotificationSink>,
    keep_per: Vec<u64>, // the stream each kept clone belongs to
    per: u64,     // period of the current / last Connection
    sink_per: Option<u64>,
    futs: Vec<(u64, SendFut)>,
    nyes: u64,
}

struct SWorld {
    cfg: [[u64; 5]; 2], // [B, A] indexed by x (0 = B, 1 = A)
    eps: Vec<SEp>,      // index x
    per: u64,
    pipes: Option<[Arc<Mutex<Pipe>>; 2]>, // index x: outbound carrier of x
    conn_ids: Vec<usize>,                 // stream identifier of every Connection, in creation order
}

fn spayload(from_a: bool, per: u64, sync: bool, tag: u64, len: u64) -> Vec<u8> {
    let mut v = vec![0u8; len as usize];
    v[0] = sync as u8 | (from_a as u8) << 1;
    v[1] = per as u8;
    v[2] = tag as u8;
    v[3] = (tag >> 8) as u8;
    v
}

fn poll_once<F: Future + Unpin>(f: &mut F) -> Option<F::Output> {
    let mut f = tokio::task::unconstrained(f);
    let waker = futures::task::noop_waker();
    let mut cx = Context::from_waker(&waker);
    match Pin::new(&mut f).poll(&mut cx) {
        Poll::Ready(v) => Some(v),
        Poll::Pending => None,
    }
}

impl SWorld {
    fn new(cfg_a: [u64; 5], cfg_b: [u64; 5]) -> Self {
        let proto = ProtocolName::from("/verif/notif/1");
        let mk = |c: &[u64; 5], remote: PeerId| {
            let (handle, side) = new_handle(proto.clone(), 1024, c[2] as usize, c[3] as usize);
            SEp {
                peer: remote,
                handle,
                side,
                conn: None,
                shutdown: None,
                probe: None,
                keep: Vec::new(),
                keep_per: Vec::new(),
                per: 0,
                sink_per: None,
                futs: Vec::new(),
                nyes: 0,
            }
        };
        let (pa, pb) = (PeerId::random(), PeerId::random());
        SWorld {
            cfg: [cfg_b, cfg_a],
            eps: vec![mk(&cfg_b, pa), mk(&cfg_a, pb)],
            per: 0,
            pipes: None,
            conn_ids: Vec::new(),
        }
    }

    fn alive(&self, x: usize) -> bool {
        self.eps[x].conn.is_some()
    }

    async fn open_ep(&mut self, x: usize) {
        let p = self.per;
        let pipes = self.pipes.as_ref().unwrap();
        let (out, inp) = (pipes[x].clone(), pipes[1 - x].clone());
        let max = Some(self.cfg[x][4] as usize);
        let peer = self.eps[x].peer;
        let sub = |id: usize, io: Box<dyn litep2p::substream::verif::VerifIo>| {
            Substream::verif_new(peer, SubstreamId::from(id), io, ProtocolCodec::UnsignedVarint(max))
        };
        let (fut, shutdown, sink) = self.eps[x]
            .side
            .open(
                peer,
                sub(1, Box::new(REnd(inp))),
                sub(2, Box::new(WEnd(out))),
                self.cfg[x][0] as usize,
                self.cfg[x][1] as usize,
                vec![p as u8],
            )
            .await;
        let e = &mut self.eps[x];
        e.conn = Some(fut);
        e.shutdown = Some(shutdown);
        e.keep.push(sink.clone());
        e.keep_per.push(p);
        self.conn_ids.push(sink.verif_stream_id());
        let e = &mut self.eps[x];
        e.probe = Some(sink);
        e.per = p;
    }

    async fn open_stream(&mut self, x: usize) -> u64 {
        if self.alive(x) {
            return 1;
        }
        if self.eps[x].per < self.per {
            self.open_ep(x).await;
            return 0;
        }
        if !self.alive(1 - x) && self.eps[1 - x].per == self.per {
            self.per += 1;
            self.pipes = Some([Pipe::new(), Pipe::new()]);
            self.open_ep(x).await;
            return 0;
        }
        1
    }

    fn kill(&mut self) {
        if let Some(pipes) = &self.pipes {
            for p in pipes.iter() {
                let mut g = p.lock().unwrap();
                g.killed = true;
                g.buf.clear();
                g.read = g.written;
                g.wake();
            }
        }
    }

    fn dump(&mut self, out: &mut Vec<u64>) {
        for x in [0usize, 1] {
            while self.eps[x].side.shutdown_rx.try_recv().is_ok() {
                self.eps[x].nyes += 1;
            }
        }
        let free = |e: &SEp| match (&e.probe, e.conn.is_some()) {
            (Some(p), true) => {
                let (s, a) = p.verif_free();
                (s as u64, a as u64)
            }
            _ => (0, 0),
        };
        let (sa, aa) = free(&self.eps[1]);
        let (sb, ab) = free(&self.eps[0]);
        let car = |x: usize| match &self.pipes {
            Some(p) => p[x].lock().unwrap().frames_buffered(),
            None => 0,
        };
        out.extend([
            self.alive(1) as u64,
            self.alive(0) as u64,
            sa,
            aa,
            sb,
            ab,
            self.eps[1].side.notif_free() as u64,
            self.eps[0].side.notif_free() as u64,
            car(1),
            car(0),
            self.eps[1].side.command_rx.len() as u64,
            self.eps[0].side.command_rx.len() as u64,
            self.eps[0].nyes + self.eps[1].nyes,
            0,
        ]);
    }
}

fn parse_sched(c: &[u64]) -> Option<([u64; 5], [u64; 5], Vec<Vec<u64>>)> {
    if c.len() < 12 || c[0] != SCHED_MARK {
        return None;
    }
    let ca = [c[1], c[2], c[3], c[4], c[5]];
    let cb = [c[6], c[7], c[8], c[9], c[10]];
    for e in [&ca, &cb] {
        if e[..4].iter().any(|v| *v == 0 || *v > 4096) {
            return None;
        }
    }
    let n = c[11] as usize;
    let mut i = 12;
    let mut steps = Vec::new();
    for _ in 0..n {
        let tag = *c.get(i)?;
        let l = match tag {
            0 => 4,
            1 => 5,
            2 | 3 | 4 | 5 => 3,
            6 | 7 | 8 | 11 => 2,
            9 => 4,
            10 => 1,
            12 => 5,
            _ => return None,
        };
        if i + l > c.len() {
            return None;
        }
        let a = c[i..i + l].to_vec();
        let sz = match tag {
            0 => Some((a[2], a[3])),
            1 | 12 => Some((a[3], a[4])),
            _ => None,
        };
        if tag == 12 && a[2] > 255 {
            return None;
        }
        if let Some((t, len)) = sz {
            if len < 4 || len > 1 << 22 || t >= 65536 {
                return None;
            }
        }
        if tag == 5 && a[2] > 128 {
            return None;
        }
        if tag == 4 && a[2] > 128 && a[2] != UNLIMITED {
            return None;
        }
        steps.push(a);
        i += l;
    }
    Some((ca, cb, steps))
}

fn encode_sched(ca: &[u64; 5], cb: &[u64; 5], steps: &[Vec<u64>], hints: &[Vec<bool>]) -> Vec<u64> {
    let mut c = vec![SCHED_MARK];
    c.extend(ca);
    c.extend(cb);
    c.push(steps.len() as u64);
    for a in steps {
        c.extend(a);
    }
    c.push(hints.len() as u64);
    for h in hints {
        c.push(h.len() as u64);
        c.extend(h.iter().map(|b| *b as u64));
    }
    c
}

fn enc_event(e: Option<Option<NotificationEvent>>, out: &mut Vec<u64>, sink_per: &mut Option<u64>) {
    match e {
        None => out.push(0),
        Some(Some(NotificationEvent::NotificationStreamOpened { handshake, .. })) => {
            *sink_per = Some(handshake[0] as u64);
            out.extend([1, handshake[0] as u64]);
        }
        Some(Some(NotificationEvent::NotificationStreamClosed { .. })) => {
            *sink_per = None;
            out.push(2);
        }
        Some(Some(NotificationEvent::NotificationReceived { notification, .. })) => {
            let n = &notification;
            let tag = n[2] as u64 | (n[3] as u64) << 8;
            out.extend([3, (n[0] >> 1 & 1) as u64, n[1] as u64, (n[0] & 1) as u64, tag, n.len() as u64]);
        }
        Some(_) => out.push(9),
    }
}

/// What the step generator may look at: the pending send_async futures of each endpoint, whether its
/// handle holds a sink and whether its Connection task is alive (index x: 0 = B, 1 = A).
#[derive(Default)]
struct Feedback {
    pending: [Vec<u64>; 2],
    open: [bool; 2],
    alive: [bool; 2],
    /// stream of the current / last Connection of each endpoint
    per: [u64; 2],
}

trait StepSrc {
    fn next(&mut self, fb: &Feedback) -> Option<Vec<u64>>;
}

struct Fixed(std::collections::VecDeque<Vec<u64>>);
impl StepSrc for Fixed {
    fn next(&mut self, _: &Feedback) -> Option<Vec<u64>> {
        self.0.pop_front()
    }
}

async fn run_steps(
    ca: [u64; 5],
    cb: [u64; 5],
    src: &mut dyn StepSrc,
) -> (Vec<Vec<u64>>, Vec<u64>, Vec<Vec<bool>>) {
    let mut w = SWorld::new(ca, cb);
    let mut out = vec![2u64];
    let mut done: Vec<Vec<u64>> = Vec::new();
    let mut fb = Feedback::default();
    while let Some(a) = src.next(&fb) {
        let a = &a;
        done.push(a.clone());
        let x = a.get(1).copied().unwrap_or(0).min(1) as usize;
        match a[0] {
            0 => {
                let e = &mut w.eps[x];
                let r = if e.handle.notification_sink(e.peer).is_none() {
                    let _ = e.handle.send_sync_notification(e.peer, spayload(x == 1, 0, true, a[2], a[3]));
                    3
                } else {
                    let per = e.sink_per.unwrap_or(0);
                    match e.handle.send_sync_notification(e.peer, spayload(x == 1, per, true, a[2], a[3])) {
                        Ok(()) => 0,
                        Err(NotificationError::ChannelClogged) => 1,
                        Err(NotificationError::NoConnection) => 2,
                        Err(_) => 9,
                    }
                };
                out.push(r);
            }
            1 => {
                let e = &mut w.eps[x];
                let r = if e.futs.iter().any(|(id, _)| *id == a[2]) {
                    5
                } else {
                    match e.handle.notification_sink(e.peer) {
                        None => 3,
                        Some(sink) => {
                            let p = spayload(x == 1, e.sink_per.unwrap_or(0), false, a[3], a[4]);
                            let mut f: SendFut =
                                Box::pin(async move { sink.send_async_notification(p).await.map_err(|_| ()) });
                            match poll_once(&mut f) {
                                Some(Ok(())) => 0,
                                Some(Err(())) => 2,
                                None => {
                                    e.futs.push((a[2], f));
                                    4
                                }
                            }
                        }
                    }
                };
                out.push(r);
            }
            2 => {
                let e = &mut w.eps[x];
                let r = match e.futs.iter().position(|(id, _)| *id == a[2]) {
                    None => 5,
                    Some(i) => match poll_once(&mut e.futs[i].1) {
                        Some(Ok(())) => {
                            drop(e.futs.remove(i));
                            0
                        }
                        Some(Err(())) => {
                            drop(e.futs.remove(i));
                            2
                        }
                        None => 4,
                    },
                };
                out.push(r);
            }
            3 => {
                let e = &mut w.eps[x];
                let r = match e.futs.iter().position(|(id, _)| *id == a[2]) {
                    None => 5,
                    Some(i) => {
                        drop(e.futs.remove(i));
                        0
                    }
                };
                out.push(r);
            }
            4 => {
                // one poll of the Connection task: unconstrained (budget UNLIMITED) or under a cooperative
                // budget of a[2] <= 128 operations
                let b = a[2];
                let mut done = false;
                if w.eps[x].conn.is_some() {
                    if b == UNLIMITED {
                        done = poll_once(w.eps[x].conn.as_mut().unwrap()).is_some();
                    } else {
                        tokio::task::yield_now().await;
                        for _ in 0..(128 - b.min(128)) {
                            tokio::task::coop::consume_budget().await;
                        }
                        let waker = futures::task::noop_waker();
                        let mut cx = Context::from_waker(&waker);
                        done = w.eps[x].conn.as_mut().unwrap().as_mut().poll(&mut cx).is_ready();
                        tokio::task::yield_now().await;
                        // close_connection is atomic in the model: a task that has begun to close (its
                        // outbound substream is shut down) and ran out of budget is polled until it is done
                        let closing = w.pipes.as_ref().map(|p| p[x].lock().unwrap().wclosed).unwrap_or(false);
                        if !done && closing {
                            for _ in 0..8 {
                                if poll_once(w.eps[x].conn.as_mut().unwrap()).is_some() {
                                    done = true;
                                    break;
                                }
                            }
                        }
                    }
                }
                let e = &mut w.eps[x];
                if done {
                    e.conn = None;
                    e.shutdown = None;
                }
                out.push(if e.conn.is_some() { 0 } else { 1 });
            }
            5 => {
                // a fresh budget of 128, lowered to the requested value
                tokio::task::yield_now().await;
                for _ in 0..(128 - a[2]) {
                    tokio::task::coop::consume_budget().await;
                }
                let e = &mut w.eps[x];
                let ev = e.handle.next().now_or_never();
                enc_event(ev, &mut out, &mut e.sink_per);
                tokio::task::yield_now().await;
            }
            6 => {
                let r = tokio::task::unconstrained(w.open_stream(x)).await;
                out.push(r);
            }
            7 => {
                let e = &mut w.eps[x];
                if e.conn.is_some() {
                    if let Some(tx) = e.shutdown.take() {
                        let _ = tx.send(());
                    }
                    out.push(0);
                } else {
                    out.push(1);
                }
            }
            8 => match w.eps[x].side.command_rx.try_recv() {
                Ok(NotificationCommand::ForceClose { .. }) => {
                    w.kill();
                    out.push(1);
                }
                _ => out.push(0),
            },
            9 => {
                if let Some(p) = &w.pipes {
                    let mut g = p[x].lock().unwrap();
                    g.wgate = a[2] != 0;
                    g.rgate = a[3] != 0;
                }
                out.push(0);
            }
            10 => {
                if w.per == 0 {
                    out.push(1);
                } else {
                    w.kill();
                    out.push(0);
                }
            }
            // a clone of the sink of stream a[2], used directly (no handle)
            12 => {
                let e = &w.eps[x];
                let r = match e.keep_per.iter().rposition(|p| *p == a[2]) {
                    None => 2,
                    Some(i) => match e.keep[i].send_sync_notification(spayload(x == 1, a[2], true, a[3], a[4])) {
                        Ok(()) => 0,
                        Err(NotificationError::ChannelClogged) => 1,
                        Err(NotificationError::NoConnection) => 2,
                        Err(_) => 9,
                    },
                };
                out.push(r);
            }
            // the protocol takes a command but its force_close() fails (connection already gone)
            11 => match w.eps[x].side.command_rx.try_recv() {
                Ok(NotificationCommand::ForceClose { .. }) => out.push(1),
                _ => out.push(0),
            },
            _ => unreachable!(),
        }
        w.dump(&mut out);
        for x in [0usize, 1] {
            fb.pending[x] = w.eps[x].futs.iter().map(|(id, _)| *id).collect();
            fb.open[x] = w.eps[x].sink_per.is_some();
            fb.alive[x] = w.alive(x);
            fb.per[x] = w.eps[x].per;
        }
    }
    let pops = take_pops();
    let hints = w
        .conn_ids
        .iter()
        .map(|id| pops.iter().filter(|(s, _)| s == id).map(|(_, m)| *m).collect())
        .collect();
    (done, out, hints)
}

fn run_src(ca: [u64; 5], cb: [u64; 5], src: &mut dyn StepSrc) -> (Vec<u64>, Vec<u64>) {
    let _ = take_pops();
    let r = catch_unwind(AssertUnwindSafe(|| {
        let rt = tokio::runtime::Builder::new_current_thread().enable_all().build().unwrap();
        rt.block_on(run_steps(ca, cb, src))
    }));
    match r {
        Ok((steps, trace, hints)) => (encode_sched(&ca, &cb, &steps, &hints), trace),
        Err(_) => (encode_sched(&ca, &cb, &[], &[]), vec![PANIC_MARK]),
    }
}

fn run_sched(c: &[u64]) -> (Vec<u64>, Vec<u64>) {
    let Some((ca, cb, steps)) = parse_sched(c) else {
        return (c.to_vec(), vec![0]);
    };
    let (c2, t) = run_src(ca, cb, &mut Fixed(steps.iter().cloned().collect()));
    if t == vec![PANIC_MARK] {
        return (encode_sched(&ca, &cb, &steps, &[]), t);
    }
    (c2, t)
}

/// Generator of scheduler cases. The steps are chosen while the case runs, so that polls and drops
/// name futures that are really pending and most sends happen while the stream is open; the emitted
/// case contains the executed steps, which is all the model sees.
struct SGen {
    rng: Rng,
    cfgs: [[u64; 5]; 2], // index x
    big: bool,
    single: bool,
    only_mode: [u64; 2],
    nsteps: usize,
    emitted: usize,
    tag: u64,
    next_id: u64,
    queue: std::collections::VecDeque<Vec<u64>>,
    // a stretch during which one Connection is not polled (its queues and waiters build up)
    starve: Option<(u64, u64)>,
    /// stream of the current / last Connection of each endpoint, as of the last feedback
    last_per: [u64; 2],
}

impl SGen {
    fn new(mut rng: Rng, thorough: bool) -> Self {
        let big = rng.chance(25);
        let single = rng.chance(35);
        let only_mode = [rng.below(2), rng.below(2)];
        let mut cfgs = [[0u64; 5]; 2];
        for c in cfgs.iter_mut() {
            let mx = if big { rng.pick(&[30_000u64, 50_000]) } else { rng.pick(&[8u64, 16, 64, 100]) };
            *c = [rng.pick(&[1u64, 2, 16]), rng.pick(&[1u64, 2, 3, 16]), rng.pick(&[1u64, 4, 64]), rng.pick(&[1u64, 2, 64]), mx];
        }
        let nsteps = if thorough { rng.range(40, 500) } else { rng.range(20, 140) } as usize;
        let mut queue = std::collections::VecDeque::new();
        if rng.chance(92) {
            let first = rng.below(2);
            queue.push_back(vec![6, first]);
            queue.push_back(vec![6, 1 - first]);
            if rng.chance(88) {
                queue.push_back(vec![5, 1, 128]);
                queue.push_back(vec![5, 0, 128]);
            }
        }
        SGen { rng, cfgs, big, single, only_mode, nsteps, emitted: 0, tag: 0, next_id: 0, queue, starve: None, last_per: [0; 2] }
    }

    fn size(&mut self, x: usize) -> u64 {
        let own = self.cfgs[x][4];
        let other = self.cfgs[1 - x][4];
        let m = own.min(other);
        let rng = &mut self.rng;
        match rng.below(100) {
            0..=2 => own + rng.range(1, 3),
            3..=6 => m + 1,
            7..=12 => m.max(4),
            13..=18 => 4,
            _ => if self.big { rng.range(m / 2, m) } else { rng.range(4, m.max(4)) },
        }
    }

    /// Budget of a Connection poll: mostly unconstrained, else what is left of tokio's 128 operations.
    fn conn_budget(&mut self) -> u64 {
        if self.rng.chance(60) {
            UNLIMITED
        } else {
            self.rng.pick(&[0u64, 1, 1, 2, 3, 5, 9, 128])
        }
    }

    fn send(&mut self, x: u64, mode: u64) -> Vec<u64> {
        self.tag += 1;
        let m = if self.single { self.only_mode[x as usize] } else { mode };
        let sz = self.size(x as usize);
        if m == 0 {
            // one in five synchronous sends goes through a clone of the sink: mostly the current stream, sometimes
            // an earlier or a not yet existing one
            if self.rng.chance(20) {
                let cur = self.last_per[x as usize];
                let k = match self.rng.below(10) {
                    0 => cur.saturating_sub(1),
                    1 => cur + 1,
                    _ => cur,
                };
                return vec![12, x, k.min(255), self.tag, sz];
            }
            vec![0, x, self.tag, sz]
        } else {
            self.next_id += 1;
            vec![1, x, self.next_id, self.tag, sz]
        }
    }

    fn fill(&mut self, fb: &Feedback) {
        self.last_per = fb.per;
        let x = self.rng.below(2);
        let xi = x as usize;
        if let Some((sx, left)) = self.starve {
            self.starve = if left == 0 { None } else { Some((sx, left - 1)) };
        }
        // both streams closed: reopen soon, but leave room for sends to a closed stream
        if !fb.alive[0] && !fb.alive[1] && self.rng.chance(35) {
            self.queue.push_back(vec![6, x]);
            self.queue.push_back(vec![6, 1 - x]);
            self.queue.push_back(vec![5, 1, 128]);
            self.queue.push_back(vec![5, 0, 128]);
            return;
        }
        if fb.alive[xi] && !fb.open[xi] && self.rng.chance(50) {
            self.queue.push_back(vec![5, x, 128]);
            return;
        }
        if !fb.pending[xi].is_empty() && self.rng.chance(22) {
            // the woken sender runs: mostly the oldest one, as the semaphore is fair
            let p = &fb.pending[xi];
            let id = if self.rng.chance(70) { p[0] } else { p[self.rng.below(p.len() as u64) as usize] };
            self.queue.push_back(vec![2, x, id]);
            if self.rng.chance(50) {
                let b = self.conn_budget();
                self.queue.push_back(vec![4, x, b]);
            }
            return;
        }
        match self.rng.below(100) {
            0..=13 => {
                let s = self.send(x, 0);
                self.queue.push_back(s);
            }
            14..=27 => {
                let s = self.send(x, 1);
                self.queue.push_back(s);
            }
            28..=31 => {
                for _ in 0..self.rng.range(2, 12) {
                    let m = self.rng.below(2);
                    let s = self.send(x, m);
                    self.queue.push_back(s);
                }
            }
            32..=43 => {
                // poll a pending future: the oldest, the newest or any
                let p = &fb.pending[xi];
                if !p.is_empty() {
                    let id = match self.rng.below(3) {
                        0 => p[0],
                        1 => p[p.len() - 1],
                        _ => p[self.rng.below(p.len() as u64) as usize],
                    };
                    self.queue.push_back(vec![2, x, id]);
                } else if self.rng.chance(10) {
                    self.queue.push_back(vec![2, x, self.rng.below(self.next_id + 2)]);
                }
            }
            44..=48 => {
                let p = &fb.pending[xi];
                if !p.is_empty() {
                    let id = if self.rng.chance(40) { p[0] } else { p[self.rng.below(p.len() as u64) as usize] };
                    self.queue.push_back(vec![3, x, id]);
                } else if self.rng.chance(10) {
                    self.queue.push_back(vec![3, x, self.rng.below(self.next_id + 2)]);
                }
            }
            49..=66 => {
                let b = self.conn_budget();
                if self.starve.map(|(sx, _)| sx == x).unwrap_or(false) {
                    self.queue.push_back(vec![4, 1 - x, b]);
                } else {
                    self.queue.push_back(vec![4, x, b]);
                }
            }
            67..=80 => {
                let b = self.rng.pick(&[0u64, 1, 1, 2, 3, 128, 128, 128, 128]);
                self.queue.push_back(vec![5, x, b]);
            }
            81..=82 => self.queue.push_back(vec![6, x]),
            83 => {
                if self.rng.chance(60) {
                    self.queue.push_back(vec![7, x]);
                }
            }
            84..=85 => self.queue.push_back(vec![8, x]),
            86 => self.queue.push_back(vec![11, x]),
            87..=92 => self.queue.push_back(vec![9, x, self.rng.chance(55) as u64, self.rng.chance(55) as u64]),
            93 => {
                if self.rng.chance(40) {
                    self.queue.push_back(vec![10]);
                }
            }
            94..=95 => {
                if self.starve.is_none() {
                    self.starve = Some((x, self.rng.range(5, 40)));
                }
            }
            _ => {
                // a fair stretch: both Connections and both users run for a while
                for _ in 0..self.rng.range(2, 8) {
                    self.queue.push_back(vec![4, 1, UNLIMITED]);
                    self.queue.push_back(vec![4, 0, UNLIMITED]);
                    self.queue.push_back(vec![5, self.rng.below(2), 128]);
                }
            }
        }
    }
}

impl StepSrc for SGen {
    fn next(&mut self, fb: &Feedback) -> Option<Vec<u64>> {
        if self.emitted >= self.nsteps || self.tag > 60_000 {
            return None;
        }
        let mut guard = 0;
        while self.queue.is_empty() && guard < 1000 {
            self.fill(fb);
            guard += 1;
        }
        let s = self.queue.pop_front()?;
        self.emitted += 1;
        Some(s)
    }
}

fn gen_run_sched(rng: Rng, thorough: bool) -> (Vec<u64>, Vec<u64>) {
    let mut g = SGen::new(rng, thorough);
    let (ca, cb) = (g.cfgs[1], g.cfgs[0]);
    run_src(ca, cb, &mut g)
}

// ---------------------------------------------------------------- generator

fn gen_case(rng: &mut Rng, thorough: bool) -> Vec<u64> {
    let cap_s = rng.pick(&[1u64, 2, 16]);
    let cap_a = rng.pick(&[1u64, 2, 16]);
    let cap_n = rng.pick(&[1u64, 4, 64]);
    let big = rng.chance(30);
    // Which receiver `tokio::select!` polls first is random; the choices are read back from the log
    // kept by the cfg(verif) hook and become the hint section of the emitted case.
    let single = rng.chance(35);
    let only_mode = rng.below(2);
    let max_out = if big { rng.pick(&[30_000u64, 50_000]) } else { rng.pick(&[8u64, 16, 64, 100]) };
    let max_in = if big {
        if rng.chance(25) { max_out - 10_000 } else { max_out }
    } else if rng.chance(30) {
        rng.pick(&[6u64, 8, 16, 200])
    } else {
        max_out
    };
    let nact = if thorough { rng.range(30, 400) } else { rng.range(15, 90) };
    let mut acts: Vec<Vec<u64>> = Vec::new();
    let mut tag = 0u64;
    let m = max_out.min(max_in);
    let size = |rng: &mut Rng| -> u64 {
        match rng.below(100) {
            0..=4 => max_out + rng.range(1, 3), // refused by the sender's substream
            5..=8 => m + 1,                     // just beyond the smaller maximum
            9..=14 => m.max(4),
            15..=19 => 4,
            _ => if big { rng.range(m / 2, m) } else { rng.range(4, m.max(4)) },
        }
    };
    let mut open = false;
    if rng.chance(92) {
        acts.push(vec![8]);
        open = true;
        if rng.chance(90) {
            acts.push(vec![4]);
        }
    }
    while acts.len() < nact as usize {
        if !open && rng.chance(40) {
            acts.push(vec![8]);
            open = true;
            if rng.chance(80) {
                acts.push(vec![4]);
            }
            continue;
        }
        match rng.below(100) {
            0..=24 => {
                tag += 1;
                acts.push(vec![if single { only_mode } else { 0 }, tag, size(rng)]);
            }
            25..=42 => {
                tag += 1;
                acts.push(vec![if single { only_mode } else { 1 }, tag, size(rng)]);
            }
            43..=50 => {
                // burst through one or both modes, up to 5x the capacity
                let cap = if rng.chance(50) { cap_s } else { cap_a };
                let n = rng.range(1, (5 * cap).min(40));
                let mode = rng.below(3);
                for _ in 0..n {
                    tag += 1;
                    let md = if single {
                        only_mode
                    } else if mode == 2 {
                        rng.below(2)
                    } else {
                        mode
                    };
                    acts.push(vec![md, tag, size(rng)]);
                }
            }
            51..=60 => acts.push(vec![2, rng.chance(50) as u64, rng.chance(50) as u64]),
            61..=63 => acts.push(vec![2, 1, 1]),
            64..=81 => {
                for _ in 0..rng.range(1, 4) {
                    acts.push(vec![3]);
                }
            }
            82..=87 => acts.push(vec![4]),
            88 => {
                acts.push(vec![5]);
                open = false;
            }
            89 => {
                acts.push(vec![6]);
                open = false;
            }
            90..=91 => {
                acts.push(vec![7]);
                open = false;
            }
            _ => {
                acts.push(vec![8]);
                if rng.chance(70) {
                    acts.push(vec![4]);
                }
            }
        }
        if tag > 60_000 {
            break;
        }
    }
    // drain at the end so that the delivered sequence is long
    if rng.chance(60) {
        acts.push(vec![2, 1, 1]);
        for _ in 0..rng.range(1, 30) {
            acts.push(vec![3]);
        }
    }
    encode_case(&[cap_s, cap_a, cap_n, max_out, max_in], &acts, &[])
}

pub fn main(args: &Args) {
    let seed = args.u64("seed", 1);
    let ncases = args.u64("cases", 100);
    let thorough = args.str("tier") == Some("thorough");
    let mut out = Outputs::open(args);
    let mut rng = Rng::new(seed);

    let mut stored: Vec<Vec<u64>> = Vec::new();
    if let Some(r) = args.str("replay") {
        stored = read_cases(Path::new(r));
    } else if let Some(d) = args.str("corpus") {
        stored = read_cases(Path::new(d));
    }
    for c in stored.iter() {
        let (c, t) = if c.first() == Some(&start::MARK) {
            start::run_case(c, true)
        } else if c.first() == Some(&SCHED_MARK) {
            run_sched(c)
        } else {
            run_case(c)
        };
        out.emit(&c, &t);
    }
    if args.str("replay").is_some() {
        return;
    }
    for i in 0..ncases {
        let mut r = rng.fork();
        // every fourth case belongs to the start stream (real NotificationProtocol), the others alternate
        let (c, t) = if i % 4 == 3 {
            start::gen_run(r, thorough)
        } else if i % 2 == 0 {
            run_case(&gen_case(&mut r, thorough))
        } else {
            gen_run_sched(r, thorough)
        };
        out.emit(&c, &t);
    }
}
