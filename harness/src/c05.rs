//! C05 / C06: TransportManager correspondence. One model step per injected event; after each
//! step the calls on the scripted transport, the protocol notifications, the manager's own
//! events, the command result and a dump of the bookkeeping are printed. Format: coq/Mgr/Glue.v.
use crate::util::*;
use futures::StreamExt;
use litep2p::{
    codec::ProtocolCodec,
    protocol::{SubstreamKeepAlive, TransportEvent, TransportService},
    transport::{
        verif::{TransportManager, TransportManagerBuilder, VerifCall, VerifManagerEvent, VerifScript},
        ConnectionLimitsConfig,
    },
    types::protocol::ProtocolName,
    Error, PeerId,
};
use multiaddr::{Multiaddr, Protocol};
use tokio::runtime::Runtime;
use std::{
    panic::{catch_unwind, AssertUnwindSafe},
    path::Path,
    task::{Context, Poll},
    time::Duration,
};

const NPEERS: usize = 5; // peer 0 is the local node

struct World {
    manager: TransportManager,
    script: VerifScript,
    service: TransportService,
    peers: Vec<PeerId>,
}

fn dec_opt(x: u64) -> Option<usize> {
    if x == 0 {
        None
    } else {
        Some((x - 1) as usize)
    }
}

impl World {
    fn new(rt: &Runtime, max_in: u64, max_out: u64) -> World {
        let _g = rt.enter();
        let mut manager = TransportManagerBuilder::new()
            .with_connection_limits_config(
                ConnectionLimitsConfig::default()
                    .max_incoming_connections(dec_opt(max_in))
                    .max_outgoing_connections(dec_opt(max_out)),
            )
            .build();
        let script = manager.verif_register_scripted();
        // LISTEN0 of coq/Mgr/Model.v: /ip4/<private 1>/tcp/7000
        {
            let mut l = Multiaddr::empty();
            for c in [(0u64, 2 * 65536 + 1), (5u64, 7000u64)] {
                l = l.with(crate::c10::protocol_of_peers(&[], c).unwrap());
            }
            manager.register_listen_address(l);
        }
        let service = manager.register_protocol(
            ProtocolName::from("/verif/1"),
            Vec::new(),
            ProtocolCodec::UnsignedVarint(None),
            Duration::from_secs(5),
            SubstreamKeepAlive::Yes,
        );
        let mut peers = vec![manager.verif_local_peer_id()];
        for _ in 1..NPEERS {
            peers.push(PeerId::random());
        }
        drop(_g);
        World { manager, script, service, peers }
    }

    fn addr(&self, p: usize) -> Multiaddr {
        format!("/ip4/10.0.0.{}/tcp/{}", p + 1, 1000 + p)
            .parse::<Multiaddr>()
            .unwrap()
            .with(Protocol::P2p(self.peers[p].into()))
    }

    fn peer_index(&self, p: &PeerId) -> u64 {
        self.peers.iter().position(|x| x == p).map(|i| i as u64).unwrap_or(99)
    }

    fn peer_of_addr(&self, a: &Multiaddr) -> u64 {
        match a.iter().last() {
            Some(Protocol::P2p(h)) => PeerId::from_multihash(h).map(|p| self.peer_index(&p)).unwrap_or(98),
            _ => 97,
        }
    }
}

fn ret_code(r: &Result<(), Error>) -> u64 {
    match r {
        Ok(()) => 0,
        Err(Error::ConnectionLimit(_)) => 1,
        Err(Error::TriedToDialSelf) => 2,
        Err(Error::AlreadyConnected) => 3,
        Err(Error::NoAddressAvailable(_)) => 4,
        Err(Error::AddressError(litep2p::error::AddressError::PeerIdMissing)) => 6,
        Err(Error::TransportNotSupported(_)) => 7,
        Err(_) => 5,
    }
}

#[derive(Clone, Debug)]
enum Ev {
    DialPeer(usize, bool),
    DialAddr(usize, bool),
    AddAddr(usize),
    TrDialFailure(u64, usize),
    TrOpened(u64, bool),
    TrOpenFailure(u64, usize),
    TrEstablished(usize, u64, bool, bool),
    TrPendingInbound(u64),
    AcceptDone(u64, bool),
    Closed(usize, u64),
    AllocConn,
    /// dial_address with an arbitrary multiaddress in the abstract grammar of C10: (tag, arg) pairs
    DialShape(Vec<(u64, u64)>),
}

impl Ev {
    fn encode(&self, out: &mut Vec<u64>) {
        match *self {
            Ev::DialPeer(p, f) => out.extend([0, p as u64, f as u64]),
            Ev::DialAddr(p, f) => out.extend([1, p as u64, f as u64]),
            Ev::AddAddr(p) => out.extend([2, p as u64]),
            Ev::TrDialFailure(c, p) => out.extend([3, c, p as u64]),
            Ev::TrOpened(c, f) => out.extend([4, c, f as u64]),
            Ev::TrOpenFailure(c, p) => out.extend([5, c, p as u64]),
            Ev::TrEstablished(p, c, l, f) => out.extend([6, p as u64, c, l as u64, f as u64]),
            Ev::TrPendingInbound(c) => out.extend([7, c]),
            Ev::AcceptDone(c, ok) => out.extend([8, c, ok as u64]),
            Ev::Closed(p, c) => out.extend([9, p as u64, c]),
            Ev::AllocConn => out.push(10),
            Ev::DialShape(ref a) => {
                out.extend([11, a.len() as u64]);
                for (t, x) in a {
                    out.extend([*t, *x]);
                }
            }
        }
    }

    fn decode(c: &[u64], i: &mut usize) -> Option<Ev> {
        let g = |k: usize| c.get(*i + k).copied();
        let pe = |x: u64| (x as usize) % NPEERS;
        let (ev, n) = match g(0)? {
            0 => (Ev::DialPeer(pe(g(1)?), g(2)? != 0), 3),
            1 => (Ev::DialAddr(pe(g(1)?), g(2)? != 0), 3),
            2 => (Ev::AddAddr(pe(g(1)?)), 2),
            3 => (Ev::TrDialFailure(g(1)?, pe(g(2)?)), 3),
            4 => (Ev::TrOpened(g(1)?, g(2)? != 0), 3),
            5 => (Ev::TrOpenFailure(g(1)?, pe(g(2)?)), 3),
            6 => (Ev::TrEstablished(pe(g(1)?), g(2)?, g(3)? != 0, g(4)? != 0), 5),
            7 => (Ev::TrPendingInbound(g(1)?), 2),
            8 => (Ev::AcceptDone(g(1)?, g(2)? != 0), 3),
            9 => (Ev::Closed(pe(g(1)?), g(2)?), 3),
            10 => (Ev::AllocConn, 1),
            11 => {
                let n = g(1)? as usize;
                if n > 8 {
                    return None;
                }
                let mut a = Vec::new();
                for k in 0..n {
                    a.push((g(2 + 2 * k)?, g(3 + 2 * k)?));
                }
                (Ev::DialShape(a), 2 + 2 * n)
            }
            _ => return None,
        };
        *i += n;
        Some(ev)
    }
}

/// What one step showed (used by the adaptive generator) and its encoding.
struct StepObs {
    calls: Vec<VerifCall>,
    stuck: bool,
    ret: u64,
}

fn apply(rt: &Runtime, w: &mut World, ev: &Ev, out: &mut Vec<u64>) -> StepObs {
    let mut ret: u64 = 0; // 0 = no return value, else code + 1
    let mut stuck = 0u64;
    let mut mevs: Vec<VerifManagerEvent> = Vec::new();
    let guard = rt.enter();
    let res = catch_unwind(AssertUnwindSafe(|| {
        match ev {
            Ev::DialPeer(p, f) => {
                w.script.set_failures(*f, false, false, false);
                let peer = w.peers[*p];
                let r = rt.block_on(w.manager.dial(peer));
                ret = ret_code(&r) + 1;
            }
            Ev::DialAddr(p, f) => {
                w.script.set_failures(false, *f, false, false);
                let a = w.addr(*p);
                let r = rt.block_on(w.manager.dial_address(a));
                ret = ret_code(&r) + 1;
            }
            Ev::AddAddr(p) => {
                let a = w.addr(*p);
                w.manager.add_known_address(w.peers[*p], std::iter::once(a));
            }
            Ev::TrDialFailure(c, p) => w.script.inject_dial_failure(*c as usize, w.addr(*p)),
            Ev::TrOpened(c, f) => {
                w.script.set_failures(false, false, *f, false);
                // the address of the peer the connection was opened for is not known to the script;
                // any address is accepted by the manager (it only warns): use the pending peer if any
                let p = w
                    .manager
                    .verif_pending_connections()
                    .iter()
                    .find(|(x, _)| *x as u64 == *c)
                    .map(|(_, p)| w.peer_index(p) as usize)
                    .unwrap_or(1);
                w.script.inject_connection_opened(*c as usize, w.addr(p.min(NPEERS - 1)));
            }
            Ev::TrOpenFailure(c, p) => w.script.inject_open_failure(*c as usize, vec![w.addr(*p)]),
            Ev::TrEstablished(p, c, l, f) => {
                w.script.set_failures(false, false, false, *f);
                w.script.inject_connection_established(w.peers[*p], *c as usize, w.addr(*p), *l);
            }
            Ev::TrPendingInbound(c) => w.script.inject_pending_inbound(*c as usize),
            Ev::AcceptDone(c, ok) => {
                w.script.resolve_accept(*c as usize, *ok);
            }
            Ev::Closed(p, c) => w.manager.verif_report_closed(w.peers[*p], *c as usize),
            Ev::AllocConn => ret = 101 + w.manager.verif_alloc_connection_id() as u64,
            Ev::DialShape(a) => {
                let mut m = Multiaddr::empty();
                for c in a {
                    match crate::c10::protocol_of_peers(&w.peers, *c) {
                        Some(p) => m = m.with(p),
                        None => return,
                    }
                }
                let r = rt.block_on(w.manager.dial_address(m));
                ret = ret_code(&r) + 1;
            }
        }
        mevs = w.manager.verif_drain();
    }));
    drop(guard);
    w.script.set_failures(false, false, false, false);
    if res.is_err() {
        stuck = 1;
    }
    // channel 1: transport calls
    let calls = w.script.take_calls();
    out.push(calls.len() as u64);
    for c in &calls {
        let (t, id) = match c {
            VerifCall::Open(c, _) => (1, *c),
            VerifCall::Dial(c) => (2, *c),
            VerifCall::Negotiate(c) => (3, *c),
            VerifCall::Cancel(c) => (4, *c),
            VerifCall::Accept(c) => (5, *c),
            VerifCall::Reject(c) => (6, *c),
            VerifCall::AcceptPending(c) => (7, *c),
            VerifCall::RejectPending(c) => (8, *c),
        };
        out.extend([t, id as u64]);
    }
    // channel 2: what the registered protocol was told
    let mut protos = Vec::new();
    {
        let _g = rt.enter();
        let waker = futures::task::noop_waker();
        let mut cx = Context::from_waker(&waker);
        while let Poll::Ready(Some(e)) = w.service.poll_next_unpin(&mut cx) {
            if let TransportEvent::DialFailure { peer, .. } = e {
                protos.push(w.peer_index(&peer));
            }
        }
    }
    out.push(protos.len() as u64);
    out.extend(protos);
    // channel 3: events returned by TransportManager::next()
    out.push(mevs.len() as u64);
    for e in &mevs {
        match e {
            VerifManagerEvent::ConnectionEstablished(p, c, _) => out.extend([1, w.peer_index(p), *c as u64]),
            VerifManagerEvent::ConnectionClosed(p, c) => out.extend([2, w.peer_index(p), *c as u64]),
            VerifManagerEvent::DialFailure(c, a) => out.extend([3, *c as u64, w.peer_of_addr(a)]),
            VerifManagerEvent::OpenFailure(c, _) => out.extend([4, *c as u64, 0]),
            VerifManagerEvent::Other => out.extend([9, 0, 0]),
        }
    }
    out.extend([ret, stuck]);
    // dump
    let mut states = Vec::new();
    let mut known = Vec::new();
    for (i, p) in w.peers.iter().enumerate() {
        let s = w.manager.verif_peer_state(p);
        if s[0] != 0 && s[0] != 9 {
            states.push([i as u64, s[0] as u64, s[1] as u64, s[2] as u64]);
        }
        if w.manager.verif_has_addresses(p) {
            known.push(i as u64);
        }
    }
    out.push(states.len() as u64);
    for s in states {
        out.extend(s);
    }
    out.push(known.len() as u64);
    out.extend(known);
    let mut pend: Vec<[u64; 2]> =
        w.manager.verif_pending_connections().iter().map(|(c, p)| [*c as u64, w.peer_index(p)]).collect();
    pend.sort();
    out.push(pend.len() as u64);
    for p in pend {
        out.extend(p);
    }
    let (mut i, mut o) = w.manager.verif_limit_sets();
    i.sort();
    o.sort();
    out.push(i.len() as u64);
    out.extend(i.iter().map(|x| *x as u64));
    out.push(o.len() as u64);
    out.extend(o.iter().map(|x| *x as u64));
    StepObs { calls, stuck: stuck != 0, ret }
}

/// Mirror of the transport contract, kept by the generator to produce feasible histories.
#[derive(Default)]
struct Contract {
    owed_open: Vec<(u64, usize)>,
    owed_neg: Vec<(u64, usize)>,
    owed_acc: Vec<(u64, usize, bool)>,
    live: Vec<(u64, usize)>,
    /// ids drawn from the shared counter for inbound sockets, unused so far
    allocated: Vec<u64>,
    /// peer of the connection a TrOpened event is about to answer
    last_open_peer: usize,
}

impl Contract {
    fn observe(&mut self, ev: &Ev, obs: &StepObs) {
        let fails = match ev {
            Ev::DialPeer(_, f) | Ev::DialAddr(_, f) | Ev::TrOpened(_, f) => *f,
            Ev::TrEstablished(_, _, _, f) => *f,
            _ => false,
        };
        match ev {
            Ev::TrOpened(c, _) | Ev::TrOpenFailure(c, _) => self.owed_open.retain(|(x, _)| x != c),
            Ev::TrDialFailure(c, _) => self.owed_neg.retain(|(x, _)| x != c),
            Ev::TrEstablished(_, c, false, _) => self.owed_neg.retain(|(x, _)| x != c),
            Ev::AcceptDone(c, ok) => {
                if let Some(i) = self.owed_acc.iter().position(|(x, _, _)| x == c) {
                    let (c, p, _) = self.owed_acc.remove(i);
                    if *ok {
                        self.live.push((c, p));
                    }
                }
            }
            Ev::Closed(_, c) => self.live.retain(|(x, _)| x != c),
            Ev::AllocConn => self.allocated.push(obs.ret - 101),
            Ev::TrEstablished(_, c, true, _) => self.allocated.retain(|x| x != c),
            Ev::TrPendingInbound(c) => self.allocated.retain(|x| x != c),
            _ => {}
        }
        let peer_of = |ev: &Ev, me: &Contract, c: u64| -> usize {
            match ev {
                Ev::DialPeer(p, _) | Ev::DialAddr(p, _) => *p,
                Ev::DialShape(a) => a.last().map(|c| c.1 as usize).unwrap_or(1),
                Ev::TrEstablished(p, _, _, _) => *p,
                _ => me
                    .owed_open
                    .iter()
                    .chain(me.owed_neg.iter())
                    .find(|(x, _)| *x == c)
                    .map(|(_, p)| *p)
                    .unwrap_or(1),
            }
        };
        for call in &obs.calls {
            match call {
                VerifCall::Cancel(c) => self.owed_open.retain(|(x, _)| *x != *c as u64),
                VerifCall::Open(c, _) if !fails => {
                    let p = peer_of(ev, self, *c as u64);
                    self.owed_open.push((*c as u64, p))
                }
                VerifCall::Dial(c) if !fails => {
                    let p = peer_of(ev, self, *c as u64);
                    self.owed_neg.push((*c as u64, p))
                }
                VerifCall::Negotiate(c) if !fails => {
                    // the opened connection keeps its peer
                    let p = match ev {
                        Ev::TrOpened(_, _) => self.last_open_peer,
                        _ => 1,
                    };
                    self.owed_neg.push((*c as u64, p))
                }
                VerifCall::Accept(c) if !fails => {
                    if let Ev::TrEstablished(p, _, l, _) = ev {
                        self.owed_acc.push((*c as u64, *p, *l));
                    }
                }
                _ => {}
            }
        }
    }
}

fn pick<T: Clone>(rng: &mut Rng, v: &[T]) -> Option<T> {
    if v.is_empty() {
        None
    } else {
        Some(v[rng.below(v.len() as u64) as usize].clone())
    }
}

/// Multiaddress shapes handed to dial_address: the accepted ones and near misses of every kind.
fn gen_shape(rng: &mut Rng) -> Vec<(u64, u64)> {
    let host = |rng: &mut Rng| -> (u64, u64) {
        match rng.below(7) {
            0 => (0, 0),                                   // 0.0.0.0
            1 => (0, 3 * 65536 + rng.range(1, 40)),        // global ip4
            2 => (0, 2 * 65536 + rng.range(1, 3)),         // private ip4 (id 1 = the listen address)
            3 => (1, 3 * 65536 + rng.range(1, 40)),        // global ip6
            4 => (2, rng.range(1, 5)),
            5 => (3, rng.range(1, 5)),
            _ => (4, rng.range(1, 5)),
        }
    };
    let p2p = |rng: &mut Rng| -> (u64, u64) { (10, rng.below(NPEERS as u64)) };
    let tcp = |rng: &mut Rng| -> (u64, u64) { (5, rng.pick(&[7000u64, 30333, 1, 65535])) };
    let other = |rng: &mut Rng| -> (u64, u64) { (11, rng.below(8)) };
    match rng.below(16) {
        0..=3 => vec![host(rng), tcp(rng), p2p(rng)],
        4 => vec![host(rng), tcp(rng), (7 + rng.below(2), 0), p2p(rng)],
        5 => vec![host(rng), tcp(rng)],
        6 => vec![host(rng), tcp(rng), p2p(rng), p2p(rng)],
        7 => vec![host(rng), tcp(rng), p2p(rng), other(rng), p2p(rng)],
        8 => vec![host(rng), tcp(rng), (7, 0), other(rng), p2p(rng)],
        9 => vec![tcp(rng), host(rng), p2p(rng)],
        10 => vec![p2p(rng)],
        11 => vec![other(rng), tcp(rng), p2p(rng)],
        12 => vec![host(rng), (6, 30333), (9, 0), p2p(rng)],
        13 => vec![host(rng), p2p(rng)],
        14 => vec![(0, 2 * 65536 + 1), (5, 7000), (10, 0)],
        _ => {
            let n = rng.range(0, 5);
            let mut v = Vec::new();
            for _ in 0..n {
                v.push(match rng.below(5) {
                    0 => host(rng),
                    1 => tcp(rng),
                    2 => p2p(rng),
                    3 => (7, 0),
                    _ => other(rng),
                });
            }
            v
        }
    }
}

fn gen_event(rng: &mut Rng, k: &Contract, noisy: bool, settle: bool, acc_fail: bool) -> Option<Ev> {
    // accept failures (a protocol cannot be told about the connection) are part of C06's quantifier:
    // in the limits-focused stream they are ordinary events, not noise
    let af = |rng: &mut Rng, pct: u64| -> bool { acc_fail && rng.chance(pct) };
    let rp = |rng: &mut Rng| -> usize {
        if rng.chance(4) {
            0
        } else {
            rng.range(1, NPEERS as u64 - 1) as usize
        }
    };
    if noisy && rng.chance(18) {
        // infeasible noise: arbitrary ids, failing calls, failing accepts
        let c = rng.below(12);
        return Some(match rng.below(9) {
            0 => Ev::DialPeer(rp(rng), true),
            1 => Ev::DialAddr(rp(rng), true),
            2 => Ev::TrDialFailure(c, rp(rng)),
            3 => Ev::TrOpened(c, rng.chance(50)),
            4 => Ev::TrOpenFailure(c, rp(rng).max(1)),
            5 => Ev::TrEstablished(rp(rng).max(1), c, rng.chance(50), rng.chance(40)),
            6 => Ev::AcceptDone(c, false),
            7 => Ev::Closed(rp(rng), c),
            _ => Ev::TrPendingInbound(c),
        });
    }
    if !settle && rng.chance(9) {
        return Some(Ev::DialShape(gen_shape(rng)));
    }
    for _ in 0..20 {
        let roll = if settle { 28 + rng.below(60) } else { rng.below(100) };
        let ev = match roll {
            0..=15 => Some(Ev::DialPeer(rp(rng), false)),
            16..=22 => Some(Ev::DialAddr(rp(rng).max(1), false)),
            23..=27 => Some(Ev::AddAddr(rp(rng).max(1))),
            28..=41 => pick(rng, &k.owed_open).map(|(c, p)| {
                if rng.chance(70) {
                    Ev::TrOpened(c, false)
                } else {
                    Ev::TrOpenFailure(c, p)
                }
            }),
            42..=58 => pick(rng, &k.owed_neg).map(|(c, p)| {
                if rng.chance(65) {
                    Ev::TrEstablished(p, c, false, af(rng, 7))
                } else {
                    Ev::TrDialFailure(c, p)
                }
            }),
            59..=75 => pick(rng, &k.owed_acc).map(|(c, _, _)| Ev::AcceptDone(c, !af(rng, 20))),
            76..=87 => {
                if settle {
                    None
                } else if k.allocated.is_empty() || rng.chance(30) {
                    Some(Ev::AllocConn)
                } else if rng.chance(80) {
                    pick(rng, &k.allocated).map(|c| Ev::TrEstablished(rp(rng).max(1), c, true, af(rng, 7)))
                } else {
                    pick(rng, &k.allocated).map(Ev::TrPendingInbound)
                }
            }
            _ => {
                if settle {
                    None
                } else {
                    pick(rng, &k.live).map(|(c, p)| Ev::Closed(p, c))
                }
            }
        };
        if ev.is_some() {
            return ev;
        }
    }
    None
}

fn run_generated(rt: &Runtime, rng: &mut Rng, thorough: bool, focus_limits: bool) -> (Vec<u64>, Vec<u64>) {
    let lim = |rng: &mut Rng| -> u64 {
        if focus_limits {
            // small limits so that the counted sets saturate; one side is sometimes unlimited
            // (asymmetric configurations), never both
            rng.pick(&[0u64, 1, 2, 2, 3, 3, 4, 2, 3])
        } else {
            rng.pick(&[0u64, 0, 0, 1, 2, 3, 4])
        }
    };
    let (max_in, max_out) = (lim(rng), lim(rng));
    let noisy = rng.chance(15);
    let n = if thorough { rng.range(10, 120) } else { rng.range(5, 60) };
    let mut w = World::new(rt, max_in, max_out);
    let mut k = Contract::default();
    let mut case = vec![max_in, max_out, 0];
    let mut trace = vec![1u64];
    let mut count = 0u64;
    let mut steps = 0;
    let mut phase_settle = false;
    let mut redial: Vec<usize> = Vec::new();
    loop {
        steps += 1;
        if steps > 400 {
            break;
        }
        let ev = if !phase_settle {
            if count >= n {
                phase_settle = true;
                continue;
            }
            match gen_event(rng, &k, noisy, false, focus_limits) {
                Some(e) => e,
                None => break,
            }
        } else if !(k.owed_open.is_empty() && k.owed_neg.is_empty() && k.owed_acc.is_empty()) {
            match gen_event(rng, &k, false, true, focus_limits) {
                Some(e) => e,
                None => break,
            }
        } else if redial.is_empty() && count < n + 200 {
            // quiescent: try to dial everybody again, then settle once more
            redial = (1..NPEERS).collect();
            redial.push(usize::MAX);
            continue;
        } else {
            match redial.first().copied() {
                Some(usize::MAX) | None => break,
                Some(p) => {
                    redial.remove(0);
                    Ev::DialPeer(p, false)
                }
            }
        };
        if let Ev::TrOpened(c, _) = &ev {
            k.last_open_peer = k.owed_open.iter().find(|(x, _)| x == c).map(|(_, p)| *p).unwrap_or(1);
        }
        ev.encode(&mut case);
        count += 1;
        let obs = apply(rt, &mut w, &ev, &mut trace);
        k.observe(&ev, &obs);
        if obs.stuck {
            break;
        }
    }
    case[2] = count;
    (case, trace)
}

fn run_stored(rt: &Runtime, c: &[u64]) -> Vec<u64> {
    if c.len() < 3 {
        return vec![0];
    }
    let mut w = World::new(rt, c[0], c[1]);
    let mut evs = Vec::new();
    let mut i = 3;
    for _ in 0..c[2] {
        match Ev::decode(c, &mut i) {
            Some(e) => evs.push(e),
            None => return vec![0],
        }
    }
    if i != c.len() {
        return vec![0];
    }
    let mut trace = vec![1u64];
    for ev in &evs {
        let obs = apply(rt, &mut w, ev, &mut trace);
        if obs.stuck {
            break;
        }
    }
    trace
}

pub fn main(args: &Args) {
    let seed = args.u64("seed", 1);
    let ncases = args.u64("cases", 100);
    let thorough = args.str("tier") == Some("thorough");
    let focus_limits = args.str("focus") == Some("limits");
    let mut out = Outputs::open(args);
    let rt = tokio::runtime::Builder::new_current_thread().enable_all().build().unwrap();
    let mut stored: Vec<Vec<u64>> = Vec::new();
    if let Some(r) = args.str("replay") {
        stored = read_cases(Path::new(r));
    } else if let Some(d) = args.str("corpus") {
        stored = read_cases(Path::new(d));
    }
    let tcp_stream = tcp::Tcp::new(&rt); // TCP transport stream (cases tagged 9000): c05_tcp.rs
    for c in &stored {
        let t = catch_unwind(AssertUnwindSafe(|| if tcp::Tcp::is_tcp_case(c) { tcp_stream.run_stored(&rt, c) } else { run_stored(&rt, c) }))
            .unwrap_or(vec![PANIC_MARK]);
        out.emit(c, &t);
    }
    if args.str("replay").is_some() {
        return;
    }
    let mut rng = Rng::new(seed ^ if focus_limits { 0x6006 } else { 0x5005 });
    for i in 0..ncases {
        let mut r = rng.fork();
        let (c, t) = if !focus_limits && i % tcp::share(thorough) == 9 {
            tcp_stream.run_generated(&rt, &mut r, thorough)
        } else {
            run_generated(&rt, &mut r, thorough, focus_limits)
        };
        out.emit(&c, &t);
    }
}

#[path = "c05_tcp.rs"]
mod tcp;
