//! C05 / C06: TransportManager correspondence with two scripted transports (TCP and WebSocket).
//! One model step per injected event or API call; after each step the calls each scripted
//! transport saw, the protocol notifications, the manager's own events, the command result and a
//! dump of the bookkeeping are printed. Format: coq/Mgr/Glue.v.
//!
//! Real code exercised: `TransportManager::{dial, dial_address, next}` with all its
//! `TransportEvent` arms, `PeerState`, `ConnectionLimits`, and the user-facing
//! `TransportManagerHandle::{dial, dial_address, add_known_address}` (commands travel over the
//! real command channel and are executed by `next()`).
use crate::util::*;
use futures::StreamExt;
use litep2p::{
    codec::ProtocolCodec,
    error::ImmediateDialError,
    protocol::{SubstreamKeepAlive, TransportEvent, TransportService},
    transport::{
        verif::{
            SupportedTransport, TransportManager, TransportManagerBuilder, TransportManagerHandle, VerifCall,
            VerifManagerEvent, VerifScript,
        },
        ConnectionLimitsConfig,
    },
    types::protocol::ProtocolName,
    Error, PeerId,
};
use multiaddr::{Multiaddr, Protocol};
use std::{
    panic::{catch_unwind, AssertUnwindSafe},
    path::Path,
    task::{Context, Poll},
    time::Duration,
};
use tokio::runtime::Runtime;

const NPEERS: usize = 5; // peer 0 is the local node
const NTR: usize = 2; // transport 0 = TCP, 1 = WebSocket
/// at most this many dial_address shapes per case: the per-peer address store (64 records) never
/// fills up, so no eviction happens (evictions are C10's business)
const MAX_SHAPES: usize = 40;

struct World {
    manager: TransportManager,
    handle: TransportManagerHandle,
    /// scripts[t]: the scripted transport installed as transport t, if any
    scripts: [Option<VerifScript>; NTR],
    service: TransportService,
    peers: Vec<PeerId>,
    /// accept futures in creation order: (connection id, transport whose accept() created it)
    accept_order: Vec<(u64, usize)>,
}

fn dec_opt(x: u64) -> Option<usize> {
    if x == 0 {
        None
    } else {
        Some((x - 1) as usize)
    }
}

/// (tag, arg) components of the canonical address of peer p for transport t (coq/Mgr/Model.v `canon`)
fn canon_comps(p: usize, t: usize) -> Vec<(u64, u64)> {
    let mut v = vec![(0u64, 2 * 65536 + 100 + p as u64), (5u64, 1000 + p as u64)];
    if t != 0 {
        v.push((7, 0));
    }
    v.push((10, p as u64));
    v
}

impl World {
    fn new(rt: &Runtime, max_in: u64, max_out: u64, inst: u64) -> World {
        let _g = rt.enter();
        let mut manager = TransportManagerBuilder::new()
            .with_connection_limits_config(
                ConnectionLimitsConfig::default()
                    .max_incoming_connections(dec_opt(max_in))
                    .max_outgoing_connections(dec_opt(max_out)),
            )
            .build();
        let tcp = (inst & 1 != 0).then(|| manager.verif_register_scripted_as(SupportedTransport::Tcp));
        let ws = (inst & 2 != 0).then(|| manager.verif_register_scripted_as(SupportedTransport::WebSocket));
        // LISTEN0 of coq/Mgr/Model.v: /ip4/<private 1>/tcp/7000
        {
            let mut l = Multiaddr::empty();
            for c in [(0u64, 2 * 65536 + 1), (5u64, 7000u64)] {
                l = l.with(crate::c10::protocol_of_peers(&[], c).unwrap());
            }
            manager.register_listen_address(l);
        }
        let service = manager.register_protocol(
            ProtocolName::from("/verif/1"),
            Vec::new(),
            ProtocolCodec::UnsignedVarint(None),
            Duration::from_secs(5),
            SubstreamKeepAlive::Yes,
        );
        let mut peers = vec![manager.verif_local_peer_id()];
        for _ in 1..NPEERS {
            peers.push(PeerId::random());
        }
        // the user-facing handle, cloned after the transports were registered (it carries the set
        // of supported transports)
        let handle = manager.verif_handle();
        drop(_g);
        World { manager, handle, scripts: [tcp, ws], service, peers, accept_order: Vec::new() }
    }

    fn addr(&self, p: usize, t: usize) -> Multiaddr {
        let mut m = Multiaddr::empty();
        for c in canon_comps(p, t) {
            m = m.with(crate::c10::protocol_of_peers(&self.peers, c).unwrap());
        }
        m
    }

    fn peer_index(&self, p: &PeerId) -> u64 {
        self.peers.iter().position(|x| x == p).map(|i| i as u64).unwrap_or(99)
    }

    fn peer_of_addr(&self, a: &Multiaddr) -> u64 {
        match a.iter().last() {
            Some(Protocol::P2p(h)) => PeerId::from_multihash(h).map(|p| self.peer_index(&p)).unwrap_or(98),
            _ => 97,
        }
    }

    fn set_failures(&self, t: usize, open: bool, dial: bool, negotiate: bool, accept: bool) {
        if let Some(s) = &self.scripts[t] {
            s.set_failures(open, dial, negotiate, accept);
        }
    }

    fn clear_failures(&self) {
        for t in 0..NTR {
            self.set_failures(t, false, false, false, false);
        }
    }
}

fn ret_code(r: &Result<(), Error>) -> u64 {
    match r {
        Ok(()) => 0,
        Err(Error::ConnectionLimit(_)) => 1,
        Err(Error::TriedToDialSelf) => 2,
        Err(Error::AlreadyConnected) => 3,
        Err(Error::NoAddressAvailable(_)) => 4,
        Err(Error::AddressError(litep2p::error::AddressError::PeerIdMissing)) => 6,
        Err(Error::TransportNotSupported(_)) => 7,
        Err(_) => 5,
    }
}

fn hret_code(r: &Result<(), ImmediateDialError>) -> u64 {
    match r {
        Ok(()) => 0,
        Err(ImmediateDialError::TriedToDialSelf) => 2,
        Err(ImmediateDialError::AlreadyConnected) => 3,
        Err(ImmediateDialError::NoAddressAvailable) => 4,
        Err(ImmediateDialError::PeerIdMissing) => 6,
        Err(ImmediateDialError::ChannelClogged) => 8,
        Err(_) => 9,
    }
}

#[derive(Clone, Debug)]
enum Ev {
    /// dial(peer): (peer, transports in `open` order — written after the run from what the
    /// implementation did —, transports whose open() fails)
    DialPeer(usize, Vec<usize>, Vec<usize>),
    DialAddr(usize, usize, bool),
    AddAddr(usize, usize),
    TrDialFailure(u64, usize, usize),
    TrOpened(u64, usize, bool),
    TrOpenFailure(u64, usize, usize),
    TrEstablished(usize, u64, usize, bool, bool),
    TrPendingInbound(u64, usize),
    AcceptDone(u64, bool),
    Closed(usize, u64),
    AllocConn,
    /// dial_address with an arbitrary multiaddress in the abstract grammar of C10: (tag, arg) pairs
    DialShape(Vec<(u64, u64)>),
    /// TransportManagerHandle::dial(peer), then the manager executes the queued command
    HDialPeer(usize, Vec<usize>, Vec<usize>),
    /// TransportManagerHandle::dial_address(address), likewise
    HDialAddr(Vec<(u64, u64)>),
}

fn enc_trs(out: &mut Vec<u64>, ts: &[usize]) {
    out.push(ts.len() as u64);
    out.extend(ts.iter().map(|t| *t as u64));
}

fn enc_shape(out: &mut Vec<u64>, a: &[(u64, u64)]) {
    out.push(a.len() as u64);
    for (t, x) in a {
        out.extend([*t, *x]);
    }
}

impl Ev {
    fn encode(&self, out: &mut Vec<u64>) {
        match *self {
            Ev::DialPeer(p, ref ts, ref fl) => {
                out.extend([0, p as u64]);
                enc_trs(out, ts);
                enc_trs(out, fl);
            }
            Ev::DialAddr(p, t, f) => out.extend([1, p as u64, t as u64, f as u64]),
            Ev::AddAddr(p, t) => out.extend([2, p as u64, t as u64]),
            Ev::TrDialFailure(c, t, p) => out.extend([3, c, t as u64, p as u64]),
            Ev::TrOpened(c, t, f) => out.extend([4, c, t as u64, f as u64]),
            Ev::TrOpenFailure(c, t, p) => out.extend([5, c, t as u64, p as u64]),
            Ev::TrEstablished(p, c, t, l, f) => out.extend([6, p as u64, c, t as u64, l as u64, f as u64]),
            Ev::TrPendingInbound(c, t) => out.extend([7, c, t as u64]),
            Ev::AcceptDone(c, ok) => out.extend([8, c, ok as u64]),
            Ev::Closed(p, c) => out.extend([9, p as u64, c]),
            Ev::AllocConn => out.push(10),
            Ev::DialShape(ref a) => {
                out.push(11);
                enc_shape(out, a);
            }
            Ev::HDialPeer(p, ref ts, ref fl) => {
                out.extend([12, p as u64]);
                enc_trs(out, ts);
                enc_trs(out, fl);
            }
            Ev::HDialAddr(ref a) => {
                out.push(13);
                enc_shape(out, a);
            }
        }
    }

    fn decode(c: &[u64], i: &mut usize) -> Option<Ev> {
        let mut k = *i;
        let mut g = || -> Option<u64> {
            let v = c.get(k).copied();
            k += 1;
            v
        };
        let pe = |x: u64| (x as usize) % NPEERS;
        let tr = |x: u64| -> Option<usize> { (x < NTR as u64).then_some(x as usize) };
        fn trs(g: &mut dyn FnMut() -> Option<u64>) -> Option<Vec<usize>> {
            let n = g()?;
            if n >= 3 {
                return None;
            }
            let mut v = Vec::new();
            for _ in 0..n {
                let t = g()?;
                if t >= NTR as u64 {
                    return None;
                }
                v.push(t as usize);
            }
            Some(v)
        }
        fn shape(g: &mut dyn FnMut() -> Option<u64>) -> Option<Vec<(u64, u64)>> {
            let n = g()? as usize;
            if n > 8 {
                return None;
            }
            let mut a = Vec::new();
            for _ in 0..n {
                let t = g()?;
                let x = g()?;
                a.push((t, x));
            }
            Some(a)
        }
        let ev = match g()? {
            0 => {
                let p = pe(g()?);
                let ts = trs(&mut g)?;
                let fl = trs(&mut g)?;
                Ev::DialPeer(p, ts, fl)
            }
            1 => Ev::DialAddr(pe(g()?), tr(g()?)?, g()? != 0),
            2 => Ev::AddAddr(pe(g()?), tr(g()?)?),
            3 => Ev::TrDialFailure(g()?, tr(g()?)?, pe(g()?)),
            4 => Ev::TrOpened(g()?, tr(g()?)?, g()? != 0),
            5 => Ev::TrOpenFailure(g()?, tr(g()?)?, pe(g()?)),
            6 => Ev::TrEstablished(pe(g()?), g()?, tr(g()?)?, g()? != 0, g()? != 0),
            7 => Ev::TrPendingInbound(g()?, tr(g()?)?),
            8 => Ev::AcceptDone(g()?, g()? != 0),
            9 => Ev::Closed(pe(g()?), g()?),
            10 => Ev::AllocConn,
            11 => Ev::DialShape(shape(&mut g)?),
            12 => {
                let p = pe(g()?);
                let ts = trs(&mut g)?;
                let fl = trs(&mut g)?;
                Ev::HDialPeer(p, ts, fl)
            }
            13 => Ev::HDialAddr(shape(&mut g)?),
            _ => return None,
        };
        *i = k;
        Some(ev)
    }
}

/// What one step showed (used by the adaptive generator).
struct StepObs {
    /// (call, transport it went to)
    calls: Vec<(VerifCall, usize)>,
    stuck: bool,
    ret: u64,
}

fn multiaddr_of(w: &World, a: &[(u64, u64)]) -> Option<Multiaddr> {
    let mut m = Multiaddr::empty();
    for c in a {
        m = m.with(crate::c10::protocol_of_peers(&w.peers, *c)?);
    }
    Some(m)
}

/// Runs one event on the real code. For dial(peer) events the transports the implementation chose
/// (the set of the `Opening` state it created, in the order `open` was called) are written back
/// into the event.
fn apply(rt: &Runtime, w: &mut World, ev: &mut Ev, out: &mut Vec<u64>) -> StepObs {
    let mut ret: u64 = 0; // 0 = no return value, else code + 1
    let mut stuck = 0u64;
    let mut mevs: Vec<VerifManagerEvent> = Vec::new();
    let guard = rt.enter();
    let dial_peer = match ev {
        Ev::DialPeer(p, _, _) | Ev::HDialPeer(p, _, _) => Some(*p),
        _ => None,
    };
    let before = dial_peer.map(|p| w.manager.verif_peer_state(&w.peers[p]));
    let res = catch_unwind(AssertUnwindSafe(|| {
        match &*ev {
            Ev::DialPeer(p, _, fl) => {
                for t in 0..NTR {
                    w.set_failures(t, fl.contains(&t), false, false, false);
                }
                let peer = w.peers[*p];
                let r = rt.block_on(w.manager.dial(peer));
                ret = ret_code(&r) + 1;
            }
            Ev::HDialPeer(p, _, fl) => {
                for t in 0..NTR {
                    w.set_failures(t, fl.contains(&t), false, false, false);
                }
                let r = w.handle.dial(&w.peers[*p]);
                ret = hret_code(&r) + 1;
            }
            Ev::DialAddr(p, t, f) => {
                w.set_failures(*t, false, *f, false, false);
                let a = w.addr(*p, *t);
                let r = rt.block_on(w.manager.dial_address(a));
                ret = ret_code(&r) + 1;
            }
            Ev::AddAddr(p, t) => {
                let a = w.addr(*p, *t);
                let peer = w.peers[*p];
                w.handle.add_known_address(&peer, std::iter::once(a));
            }
            Ev::TrDialFailure(c, t, p) => {
                if let Some(s) = &w.scripts[*t] {
                    s.inject_dial_failure(*c as usize, w.addr(*p, *t));
                }
            }
            Ev::TrOpened(c, t, f) => {
                w.set_failures(*t, false, false, *f, false);
                // the address the transport reports: the canonical address (for this transport) of
                // the peer the connection id was dialled for
                let p = w
                    .manager
                    .verif_pending_connections()
                    .iter()
                    .find(|(x, _)| *x as u64 == *c)
                    .map(|(_, p)| w.peer_index(p) as usize)
                    .unwrap_or(1);
                if let Some(s) = &w.scripts[*t] {
                    s.inject_connection_opened(*c as usize, w.addr(p.min(NPEERS - 1), *t));
                }
            }
            Ev::TrOpenFailure(c, t, p) => {
                if let Some(s) = &w.scripts[*t] {
                    s.inject_open_failure(*c as usize, vec![w.addr(*p, *t)]);
                }
            }
            Ev::TrEstablished(p, c, t, l, f) => {
                w.set_failures(*t, false, false, false, *f);
                if let Some(s) = &w.scripts[*t] {
                    s.inject_connection_established(w.peers[*p], *c as usize, w.addr(*p, *t), *l);
                }
            }
            Ev::TrPendingInbound(c, t) => {
                if let Some(s) = &w.scripts[*t] {
                    s.inject_pending_inbound(*c as usize);
                }
            }
            Ev::AcceptDone(c, ok) => {
                // the oldest accept future for this id (ids are unique on feasible histories; with the
                // noise stream two transports may hold a future for the same id)
                if let Some(i) = w.accept_order.iter().position(|(x, _)| x == c) {
                    let (_, t) = w.accept_order.remove(i);
                    if let Some(s) = &w.scripts[t] {
                        s.resolve_accept(*c as usize, *ok);
                    }
                }
            }
            Ev::Closed(p, c) => w.manager.verif_report_closed(w.peers[*p], *c as usize),
            Ev::AllocConn => ret = 101 + w.manager.verif_alloc_connection_id() as u64,
            Ev::DialShape(a) => {
                let Some(m) = multiaddr_of(w, a) else { return };
                let r = rt.block_on(w.manager.dial_address(m));
                ret = ret_code(&r) + 1;
            }
            Ev::HDialAddr(a) => {
                let Some(m) = multiaddr_of(w, a) else { return };
                let r = w.handle.dial_address(m);
                ret = hret_code(&r) + 1;
            }
        }
        mevs = w.manager.verif_drain();
    }));
    drop(guard);
    w.clear_failures();
    if res.is_err() {
        stuck = 1;
    }
    // channel 1: transport calls, per transport in the order that transport saw them
    let mut calls: Vec<(VerifCall, usize)> = Vec::new();
    for t in 0..NTR {
        if let Some(s) = &w.scripts[t] {
            calls.extend(s.take_calls().into_iter().map(|c| (c, t)));
            let _ = s.take_opened();
        }
    }
    if let Ev::TrEstablished(_, _, _, _, false) = ev {
        for (c, t) in &calls {
            if let VerifCall::Accept(id) = c {
                w.accept_order.push((*id as u64, *t));
            }
        }
    }
    out.push(calls.len() as u64);
    for (c, t) in &calls {
        let (k, id) = match c {
            VerifCall::Open(c, _) => (1, *c),
            VerifCall::Dial(c) => (2, *c),
            VerifCall::Negotiate(c) => (3, *c),
            VerifCall::Cancel(c) => (4, *c),
            VerifCall::Accept(c) => (5, *c),
            VerifCall::Reject(c) => (6, *c),
            VerifCall::AcceptPending(c) => (7, *c),
            VerifCall::RejectPending(c) => (8, *c),
        };
        out.extend([k, id as u64, *t as u64]);
    }
    // the implementation's choice of transports for a dial(peer) that created an Opening state
    if let (Some(p), Some(before)) = (dial_peer, before) {
        let after = w.manager.verif_peer_state(&w.peers[p]);
        if after[0] == 3 && !(before[0] == 3 && before[1] == after[1]) {
            let set: Vec<usize> = (0..NTR).filter(|t| after[2] & (1 << t) != 0).collect();
            let fl: Vec<usize> = match ev {
                Ev::DialPeer(_, _, fl) | Ev::HDialPeer(_, _, fl) => fl.clone(),
                _ => Vec::new(),
            };
            let opened = |t: usize| calls.iter().any(|(c, u)| *u == t && matches!(c, VerifCall::Open(_, _)));
            // open() succeeded, then the one that failed (it ended the loop), then the ones never reached
            let mut order: Vec<usize> = set.iter().copied().filter(|t| opened(*t) && !fl.contains(t)).collect();
            order.extend(set.iter().copied().filter(|t| opened(*t) && fl.contains(t)));
            order.extend(set.iter().copied().filter(|t| !opened(*t)));
            match ev {
                Ev::DialPeer(_, ts, _) | Ev::HDialPeer(_, ts, _) => *ts = order,
                _ => {}
            }
        }
    }
    // channel 2: what the registered protocol was told
    let mut protos = Vec::new();
    {
        let _g = rt.enter();
        let waker = futures::task::noop_waker();
        let mut cx = Context::from_waker(&waker);
        while let Poll::Ready(Some(e)) = w.service.poll_next_unpin(&mut cx) {
            if let TransportEvent::DialFailure { peer, .. } = e {
                protos.push(w.peer_index(&peer));
            }
        }
    }
    out.push(protos.len() as u64);
    out.extend(protos);
    // channel 3: events returned by TransportManager::next()
    out.push(mevs.len() as u64);
    for e in &mevs {
        match e {
            VerifManagerEvent::ConnectionEstablished(p, c, _) => out.extend([1, w.peer_index(p), *c as u64]),
            VerifManagerEvent::ConnectionClosed(p, c) => out.extend([2, w.peer_index(p), *c as u64]),
            VerifManagerEvent::DialFailure(c, a) => out.extend([3, *c as u64, w.peer_of_addr(a)]),
            VerifManagerEvent::OpenFailure(c, n) => out.extend([4, *c as u64, *n as u64]),
            VerifManagerEvent::Other => out.extend([9, 0, 0]),
        }
    }
    out.extend([ret, stuck]);
    // dump
    let mut states = Vec::new();
    let mut known = Vec::new();
    for (i, p) in w.peers.iter().enumerate() {
        let s = w.manager.verif_peer_state(p);
        if s[0] != 0 && s[0] != 9 {
            states.push([i as u64, s[0] as u64, s[1] as u64, s[2] as u64]);
        }
        // the address book: stored addresses by the transport dial(peer) routes them to
        let addrs = w.manager.verif_peer_addresses(p).unwrap_or_default();
        if !addrs.is_empty() {
            let nws = addrs
                .iter()
                .filter(|(a, _)| a.iter().any(|c| matches!(c, Protocol::Ws(_) | Protocol::Wss(_))))
                .count();
            known.push([i as u64, (addrs.len() - nws) as u64, nws as u64]);
        }
    }
    out.push(states.len() as u64);
    for s in states {
        out.extend(s);
    }
    out.push(known.len() as u64);
    for k in known {
        out.extend(k);
    }
    let mut pend: Vec<[u64; 2]> =
        w.manager.verif_pending_connections().iter().map(|(c, p)| [*c as u64, w.peer_index(p)]).collect();
    pend.sort();
    out.push(pend.len() as u64);
    for p in pend {
        out.extend(p);
    }
    let (mut i, mut o) = w.manager.verif_limit_sets();
    i.sort();
    o.sort();
    out.push(i.len() as u64);
    out.extend(i.iter().map(|x| *x as u64));
    out.push(o.len() as u64);
    out.extend(o.iter().map(|x| *x as u64));
    let oe = w.manager.verif_opening_errors();
    out.push(oe.len() as u64);
    for (c, n) in oe {
        out.extend([c as u64, n as u64]);
    }
    // C06 (wrapped stream of c06x.rs): the calls made on ConnectionLimits during this step
    c06x::post_step(out);
    StepObs { calls, stuck: stuck != 0, ret }
}

/// Mirror of the transport contract, kept by the generator to produce feasible histories:
/// obligations are per (connection id, transport) in the open phase.
#[derive(Default)]
struct Contract {
    /// (conn, transport, peer): open(conn) called on transport, not answered, not cancelled
    owed_open: Vec<(u64, usize, usize)>,
    /// (conn, peer, transport that negotiates)
    owed_neg: Vec<(u64, usize, usize)>,
    owed_acc: Vec<(u64, usize, bool)>,
    live: Vec<(u64, usize)>,
    /// ids drawn from the shared counter for inbound sockets, unused so far
    allocated: Vec<u64>,
    /// peer of the connection a TrOpened event is about to answer
    last_open_peer: usize,
}

impl Contract {
    fn observe(&mut self, ev: &Ev, obs: &StepObs) {
        let fails = match ev {
            Ev::DialPeer(_, _, fl) | Ev::HDialPeer(_, _, fl) => !fl.is_empty(),
            Ev::DialAddr(_, _, f) | Ev::TrOpened(_, _, f) => *f,
            Ev::TrEstablished(_, _, _, _, f) => *f,
            _ => false,
        };
        match ev {
            Ev::TrOpened(c, t, _) | Ev::TrOpenFailure(c, t, _) =>
                self.owed_open.retain(|(x, u, _)| !(x == c && u == t)),
            Ev::TrDialFailure(c, _, _) => self.owed_neg.retain(|(x, _, _)| x != c),
            Ev::TrEstablished(_, c, _, false, _) => self.owed_neg.retain(|(x, _, _)| x != c),
            Ev::AcceptDone(c, ok) => {
                if let Some(i) = self.owed_acc.iter().position(|(x, _, _)| x == c) {
                    let (c, p, _) = self.owed_acc.remove(i);
                    if *ok {
                        self.live.push((c, p));
                    }
                }
            }
            Ev::Closed(_, c) => self.live.retain(|(x, _)| x != c),
            Ev::AllocConn => self.allocated.push(obs.ret - 101),
            Ev::TrEstablished(_, c, _, true, _) => self.allocated.retain(|x| x != c),
            Ev::TrPendingInbound(c, _) => self.allocated.retain(|x| x != c),
            _ => {}
        }
        let peer_of = |ev: &Ev, me: &Contract, c: u64| -> usize {
            match ev {
                Ev::DialPeer(p, _, _) | Ev::HDialPeer(p, _, _) | Ev::DialAddr(p, _, _) => *p,
                Ev::DialShape(a) | Ev::HDialAddr(a) => a.last().map(|c| c.1 as usize).unwrap_or(1),
                Ev::TrEstablished(p, _, _, _, _) => *p,
                _ => me
                    .owed_open
                    .iter()
                    .map(|(x, _, p)| (*x, *p))
                    .chain(me.owed_neg.iter().map(|(x, p, _)| (*x, *p)))
                    .find(|(x, _)| *x == c)
                    .map(|(_, p)| p)
                    .unwrap_or(1),
            }
        };
        for (call, t) in &obs.calls {
            match call {
                VerifCall::Cancel(c) => self.owed_open.retain(|(x, u, _)| !(*x == *c as u64 && u == t)),
                VerifCall::Open(c, _) if !fails => {
                    let p = peer_of(ev, self, *c as u64);
                    self.owed_open.push((*c as u64, *t, p))
                }
                VerifCall::Dial(c) if !fails => {
                    let p = peer_of(ev, self, *c as u64);
                    self.owed_neg.push((*c as u64, p, *t))
                }
                VerifCall::Negotiate(c) if !fails => {
                    // the opened connection keeps its peer
                    let p = match ev {
                        Ev::TrOpened(_, _, _) => self.last_open_peer,
                        _ => 1,
                    };
                    self.owed_neg.push((*c as u64, p, *t))
                }
                VerifCall::Accept(c) if !fails => {
                    if let Ev::TrEstablished(p, _, _, l, _) = ev {
                        self.owed_acc.push((*c as u64, *p, *l));
                    }
                }
                _ => {}
            }
        }
    }
}

fn pick<T: Clone>(rng: &mut Rng, v: &[T]) -> Option<T> {
    if v.is_empty() {
        None
    } else {
        Some(v[rng.below(v.len() as u64) as usize].clone())
    }
}

/// Multiaddress shapes handed to dial_address: the accepted ones and near misses of every kind.
fn gen_shape(rng: &mut Rng) -> Vec<(u64, u64)> {
    let host = |rng: &mut Rng| -> (u64, u64) {
        match rng.below(7) {
            0 => (0, 0),                                   // 0.0.0.0
            1 => (0, 3 * 65536 + rng.range(1, 40)),        // global ip4
            2 => (0, 2 * 65536 + rng.range(1, 3)),         // private ip4 (id 1 = the listen address)
            3 => (1, 3 * 65536 + rng.range(1, 40)),        // global ip6
            4 => (2, rng.range(1, 5)),
            5 => (3, rng.range(1, 5)),
            _ => (4, rng.range(1, 5)),
        }
    };
    let p2p = |rng: &mut Rng| -> (u64, u64) { (10, rng.below(NPEERS as u64)) };
    let tcp = |rng: &mut Rng| -> (u64, u64) { (5, rng.pick(&[7000u64, 30333, 1, 65535])) };
    let other = |rng: &mut Rng| -> (u64, u64) { (11, rng.below(8)) };
    match rng.below(18) {
        0..=3 => vec![host(rng), tcp(rng), p2p(rng)],
        4 | 16 => vec![host(rng), tcp(rng), (7 + rng.below(2), 0), p2p(rng)],
        5 => vec![host(rng), tcp(rng)],
        6 => vec![host(rng), tcp(rng), p2p(rng), p2p(rng)],
        7 => vec![host(rng), tcp(rng), p2p(rng), other(rng), p2p(rng)],
        8 => vec![host(rng), tcp(rng), (7, 0), other(rng), p2p(rng)],
        9 => vec![tcp(rng), host(rng), p2p(rng)],
        10 => vec![p2p(rng)],
        11 => vec![other(rng), tcp(rng), p2p(rng)],
        12 => vec![host(rng), (6, 30333), (9, 0), p2p(rng)],
        13 => vec![host(rng), p2p(rng)],
        14 => vec![(0, 2 * 65536 + 1), (5, 7000), (10, 0)],
        // the canonical address of a peer (the one the scripted transports report): stored once
        17 => canon_comps(rng.range(1, NPEERS as u64 - 1) as usize, rng.below(2) as usize),
        _ => {
            let n = rng.range(0, 5);
            let mut v = Vec::new();
            for _ in 0..n {
                v.push(match rng.below(5) {
                    0 => host(rng),
                    1 => tcp(rng),
                    2 => p2p(rng),
                    3 => (7, 0),
                    _ => other(rng),
                });
            }
            v
        }
    }
}

struct GenCfg {
    noisy: bool,
    settle: bool,
    acc_fail: bool,
    /// installed transports (bitmask)
    inst: u64,
    shapes_left: bool,
}

fn gen_event(rng: &mut Rng, k: &Contract, g: &GenCfg) -> Option<Ev> {
    // accept failures (a protocol cannot be told about the connection) are part of C06's quantifier:
    // in the limits-focused stream they are ordinary events, not noise
    let af = |rng: &mut Rng, pct: u64| -> bool { g.acc_fail && rng.chance(pct) };
    let rp = |rng: &mut Rng| -> usize {
        if rng.chance(4) {
            0
        } else {
            rng.range(1, NPEERS as u64 - 1) as usize
        }
    };
    // an installed transport (events can only come from those); any transport for API calls
    let inst: Vec<usize> = (0..NTR).filter(|t| g.inst & (1 << t) != 0).collect();
    let it = |rng: &mut Rng| -> usize { inst[rng.below(inst.len() as u64) as usize] };
    let any_t = |rng: &mut Rng| -> usize { rng.below(NTR as u64) as usize };
    if g.noisy && rng.chance(18) {
        // infeasible noise: arbitrary ids, failing calls, failing accepts
        let c = rng.below(12);
        let fl = |rng: &mut Rng| -> Vec<usize> {
            match rng.below(4) {
                0 => vec![0],
                1 => vec![1],
                _ => vec![0, 1],
            }
        };
        return Some(match rng.below(10) {
            0 => Ev::DialPeer(rp(rng), vec![], fl(rng)),
            1 => Ev::DialAddr(rp(rng), any_t(rng), true),
            2 => Ev::TrDialFailure(c, it(rng), rp(rng)),
            3 => Ev::TrOpened(c, it(rng), rng.chance(50)),
            4 => Ev::TrOpenFailure(c, it(rng), rp(rng).max(1)),
            5 => Ev::TrEstablished(rp(rng).max(1), c, it(rng), rng.chance(50), rng.chance(40)),
            6 => Ev::AcceptDone(c, false),
            7 => Ev::Closed(rp(rng), c),
            8 => Ev::HDialPeer(rp(rng), vec![], fl(rng)),
            _ => Ev::TrPendingInbound(c, it(rng)),
        });
    }
    if !g.settle && g.shapes_left && rng.chance(9) {
        let s = gen_shape(rng);
        return Some(if rng.chance(12) { Ev::HDialAddr(s) } else { Ev::DialShape(s) });
    }
    for _ in 0..20 {
        let roll = if g.settle { 28 + rng.below(60) } else { rng.below(100) };
        let ev = match roll {
            0..=15 => {
                let p = rp(rng);
                Some(if rng.chance(22) { Ev::HDialPeer(p, vec![], vec![]) } else { Ev::DialPeer(p, vec![], vec![]) })
            }
            16..=20 => Some(Ev::DialAddr(rp(rng).max(1), any_t(rng), false)),
            21..=27 => Some(Ev::AddAddr(rp(rng).max(1), any_t(rng))),
            28..=41 => pick(rng, &k.owed_open).map(|(c, t, p)| {
                if rng.chance(55) {
                    Ev::TrOpened(c, t, false)
                } else {
                    Ev::TrOpenFailure(c, t, p)
                }
            }),
            42..=58 => pick(rng, &k.owed_neg).map(|(c, p, t)| {
                if rng.chance(65) {
                    Ev::TrEstablished(p, c, t, false, af(rng, 7))
                } else {
                    Ev::TrDialFailure(c, t, p)
                }
            }),
            59..=75 => pick(rng, &k.owed_acc).map(|(c, _, _)| Ev::AcceptDone(c, !af(rng, 20))),
            76..=87 => {
                if g.settle {
                    None
                } else if k.allocated.is_empty() || rng.chance(30) {
                    Some(Ev::AllocConn)
                } else if rng.chance(80) {
                    // an inbound connection; often from a peer that is being opened (it supersedes the
                    // attempt on every transport of the set)
                    let p = match pick(rng, &k.owed_open) {
                        Some((_, _, p)) if rng.chance(45) => p.max(1),
                        _ => rp(rng).max(1),
                    };
                    let t = it(rng);
                    pick(rng, &k.allocated).map(|c| Ev::TrEstablished(p, c, t, true, af(rng, 7)))
                } else {
                    let t = it(rng);
                    pick(rng, &k.allocated).map(|c| Ev::TrPendingInbound(c, t))
                }
            }
            _ => {
                if g.settle {
                    None
                } else {
                    pick(rng, &k.live).map(|(c, p)| Ev::Closed(p, c))
                }
            }
        };
        if ev.is_some() {
            return ev;
        }
    }
    None
}

/// Scripted openings of the limits-focused stream ("crowd" shapes): a peer is given two connections,
/// then a further connection for the same peer finishes negotiating while the global count is still
/// below the limit (refused by the per-peer rule, not by the limit), then other peers arrive until
/// the limit should be reached. A slot reserved for the refused connection would show up as a
/// counted id without an established connection, and as a refusal below the limit.
#[derive(Clone, Copy)]
enum Intent {
    /// a transport draws an id for an inbound socket
    Alloc,
    /// the most recently drawn id is established as an inbound connection of this peer
    EstIn(usize),
    /// ... or announced as a pending inbound connection
    PendIn,
    /// every pending accept future resolves
    AcceptAll,
    /// add an address of the peer and dial it by address
    AddAddr(usize),
    DialAddr(usize),
    /// the dial owed for this peer is established
    EstOut(usize),
    /// dial the peer by id (through the manager or through the handle)
    DialPeer(usize),
    /// one transport that owes an open answer for this peer reports ConnectionOpened
    OpenedOne(usize),
    /// the dial owed for this peer is established; `true`: accept() of the transport returns Err
    EstOutAcc(usize, bool),
    /// the accept futures of the OUTBOUND connections of this peer resolve to Err
    AcceptFailOut(usize),
    /// every live connection of the peer is closed
    CloseAll(usize),
    /// the peer is dialled again: by id, through the handle, or by address
    Redial(usize),
}

/// Scripted openings of the C05 stream ("accept failure" shapes): an OUTBOUND connection is reported
/// established, the manager accepts it, and the transport then cannot start it — accept() returns
/// Err, or the accept future resolves to Err —; later the same peer is dialled again. Alone, and
/// with a second connection of the peer present (inbound primary while the dial is in flight;
/// inbound secondary while the accept future of the outbound primary is pending). A roll-back that
/// leaves the connection that never started in the peer state shows up at once (the recorded
/// connection is not live) and as a refused re-dial of a peer without any connection.
fn accfail_script(rng: &mut Rng) -> Vec<Intent> {
    use Intent::*;
    let mut v = Vec::new();
    let p = rng.range(1, NPEERS as u64 - 1) as usize;
    let dial = |v: &mut Vec<Intent>, rng: &mut Rng, p: usize| {
        v.push(AddAddr(p));
        if rng.chance(50) {
            v.push(DialAddr(p));
        } else {
            v.push(DialPeer(p));
            v.push(OpenedOne(p));
        }
    };
    let fail = |v: &mut Vec<Intent>, rng: &mut Rng, p: usize| {
        if rng.chance(50) {
            v.push(EstOutAcc(p, true));
        } else {
            v.push(EstOutAcc(p, false));
            v.push(AcceptFailOut(p));
        }
    };
    let inbound = |v: &mut Vec<Intent>, p: usize| {
        v.push(Alloc);
        v.push(EstIn(p));
    };
    match rng.below(5) {
        0 | 1 => {
            // a single connection: fails to start, the peer is dialled again; the second attempt
            // succeeds or fails to start as well
            dial(&mut v, rng, p);
            fail(&mut v, rng, p);
            v.push(Redial(p));
            if rng.chance(50) {
                v.push(OpenedOne(p));
                fail(&mut v, rng, p);
                v.push(Redial(p));
            }
        }
        2 => {
            // the dial is in flight, an inbound connection becomes the primary one, the outbound
            // connection is accepted as the secondary one and fails to start; the inbound one
            // closes and the peer is dialled again
            dial(&mut v, rng, p);
            inbound(&mut v, p);
            v.push(AcceptAll);
            fail(&mut v, rng, p);
            if rng.chance(30) {
                v.push(Redial(p)); // refused: the inbound connection is live
            }
            v.push(CloseAll(p));
            v.push(Redial(p));
        }
        3 => {
            // outbound primary whose accept future is pending, inbound secondary; the future of the
            // primary fails (the secondary is promoted), the inbound one closes, re-dial
            dial(&mut v, rng, p);
            v.push(EstOutAcc(p, false));
            inbound(&mut v, p);
            v.push(AcceptFailOut(p));
            v.push(AcceptAll);
            v.push(CloseAll(p));
            v.push(Redial(p));
        }
        _ => {
            // two peers, one after the other and interleaved
            let q = if p == 1 { 2 } else { p - 1 };
            dial(&mut v, rng, p);
            dial(&mut v, rng, q);
            fail(&mut v, rng, p);
            v.push(Redial(p));
            fail(&mut v, rng, q);
            v.push(Redial(q));
        }
    }
    v
}

fn crowd_script(rng: &mut Rng) -> Vec<Intent> {
    use Intent::*;
    let a = 1usize;
    let mut v = Vec::new();
    let inbound = |v: &mut Vec<Intent>, p: usize| {
        v.push(Alloc);
        v.push(EstIn(p));
        v.push(AcceptAll);
    };
    let outbound = |v: &mut Vec<Intent>, p: usize| {
        v.push(AddAddr(p));
        v.push(DialAddr(p));
        v.push(EstOut(p));
        v.push(AcceptAll);
    };
    match rng.below(4) {
        0 => {
            // two inbound connections, a third inbound one
            inbound(&mut v, a);
            inbound(&mut v, a);
            inbound(&mut v, a);
        }
        1 => {
            // outbound primary, inbound secondary, a third inbound one
            outbound(&mut v, a);
            inbound(&mut v, a);
            inbound(&mut v, a);
        }
        2 => {
            // a dial in flight, an inbound connection, a second inbound one (refused: the free slot is
            // reserved for the dial), then the dial is established as the secondary connection
            v.push(AddAddr(a));
            v.push(DialAddr(a));
            inbound(&mut v, a);
            inbound(&mut v, a);
            v.push(EstOut(a));
            v.push(AcceptAll);
        }
        _ => {
            // inbound primary, outbound secondary, a third inbound one, and one more
            inbound(&mut v, a);
            v.push(Alloc);
            v.push(EstIn(a));
            v.push(AcceptAll);
            inbound(&mut v, a);
            inbound(&mut v, a);
        }
    }
    // other peers until the limits should be reached (and beyond): inbound, pending-inbound, outbound
    for p in [2usize, 3, 4, 2, 3] {
        match rng.below(4) {
            0 => outbound(&mut v, p),
            1 => {
                v.push(Alloc);
                v.push(PendIn);
                v.push(EstIn(p));
                v.push(AcceptAll);
            }
            _ => inbound(&mut v, p),
        }
    }
    v
}

fn realize(i: Intent, k: &Contract, rng: &mut Rng, inst: u64) -> Vec<Ev> {
    let ts: Vec<usize> = (0..NTR).filter(|t| inst & (1 << t) != 0).collect();
    let t = ts[rng.below(ts.len() as u64) as usize];
    match i {
        Intent::Alloc => vec![Ev::AllocConn],
        Intent::EstIn(p) => k.allocated.last().map(|c| Ev::TrEstablished(p, *c, t, true, false)).into_iter().collect(),
        Intent::PendIn => k.allocated.last().map(|c| Ev::TrPendingInbound(*c, t)).into_iter().collect(),
        Intent::AcceptAll => k.owed_acc.iter().map(|(c, _, _)| Ev::AcceptDone(*c, true)).collect(),
        Intent::AddAddr(p) => vec![Ev::AddAddr(p, t)],
        Intent::DialAddr(p) => vec![Ev::DialAddr(p, t, false)],
        Intent::EstOut(p) => k
            .owed_neg
            .iter()
            .find(|(_, q, _)| *q == p)
            .map(|(c, q, u)| Ev::TrEstablished(*q, *c, *u, false, false))
            .into_iter()
            .collect(),
        Intent::DialPeer(p) => vec![if rng.chance(25) {
            Ev::HDialPeer(p, vec![], vec![])
        } else {
            Ev::DialPeer(p, vec![], vec![])
        }],
        Intent::OpenedOne(p) => k
            .owed_open
            .iter()
            .find(|(_, _, q)| *q == p)
            .map(|(c, u, _)| Ev::TrOpened(*c, *u, false))
            .into_iter()
            .collect(),
        Intent::EstOutAcc(p, f) => k
            .owed_neg
            .iter()
            .find(|(_, q, _)| *q == p)
            .map(|(c, q, u)| Ev::TrEstablished(*q, *c, *u, false, f))
            .into_iter()
            .collect(),
        Intent::AcceptFailOut(p) => k
            .owed_acc
            .iter()
            .filter(|(_, q, l)| *q == p && !*l)
            .map(|(c, _, _)| Ev::AcceptDone(*c, false))
            .collect(),
        Intent::CloseAll(p) => k.live.iter().filter(|(_, q)| *q == p).map(|(c, q)| Ev::Closed(*q, *c)).collect(),
        Intent::Redial(p) => vec![match rng.below(4) {
            0 => Ev::DialAddr(p, t, false),
            1 => Ev::HDialPeer(p, vec![], vec![]),
            _ => Ev::DialPeer(p, vec![], vec![]),
        }],
    }
}

fn run_generated(rt: &Runtime, rng: &mut Rng, thorough: bool, focus_limits: bool) -> (Vec<u64>, Vec<u64>) {
    let lim = |rng: &mut Rng| -> u64 {
        if focus_limits {
            // small limits so that the counted sets saturate; one side is sometimes unlimited
            // (asymmetric configurations), never both
            rng.pick(&[0u64, 1, 2, 2, 3, 3, 4, 2, 3])
        } else {
            rng.pick(&[0u64, 0, 0, 1, 2, 2, 3, 4])
        }
    };
    let (mut max_in, mut max_out) = (lim(rng), lim(rng));
    // a third of the limits-focused cases open with a crowd shape under limits of 3..5
    let mut script: std::collections::VecDeque<Intent> = std::collections::VecDeque::new();
    let mut queued: std::collections::VecDeque<Ev> = std::collections::VecDeque::new();
    if focus_limits && rng.chance(33) {
        max_in = rng.pick(&[4u64, 4, 5, 6, 0]);
        max_out = rng.pick(&[4u64, 4, 5, 6, 0]);
        if max_in == 0 && max_out == 0 {
            max_in = 4;
        }
        script = crowd_script(rng).into();
    }
    // a third of the C05 cases open with an accept-failure shape (limits that leave room for it);
    // in those cases accept failures are ordinary events of the random part as well
    let mut acc_fail = focus_limits;
    if !focus_limits && rng.chance(33) {
        max_in = rng.pick(&[0u64, 0, 3, 4, 2]);
        max_out = rng.pick(&[0u64, 0, 3, 4, 2]);
        script = accfail_script(rng).into();
        acc_fail = true;
    }
    // both transports installed in most cases; TCP only / WebSocket only in the others
    let inst = rng.pick(&[3u64, 3, 3, 3, 3, 3, 3, 1, 1, 2]);
    let noisy = rng.chance(15);
    let n = if thorough { rng.range(10, 120) } else { rng.range(5, 60) };
    let mut w = World::new(rt, max_in, max_out, inst);
    let mut k = Contract::default();
    let mut case = vec![max_in, max_out, inst, 0];
    let mut trace = vec![1u64];
    let mut count = 0u64;
    let mut steps = 0;
    let mut shapes = 0usize;
    let mut phase_settle = false;
    let mut redial: Vec<usize> = Vec::new();
    loop {
        steps += 1;
        if steps > 400 {
            break;
        }
        if queued.is_empty() {
            if let Some(i) = script.pop_front() {
                queued = realize(i, &k, rng, inst).into();
                if queued.is_empty() {
                    continue;
                }
            }
        }
        let mut ev = if let Some(e) = queued.pop_front() {
            e
        } else if !phase_settle {
            if count >= n {
                phase_settle = true;
                continue;
            }
            let g = GenCfg { noisy, settle: false, acc_fail, inst, shapes_left: shapes < MAX_SHAPES };
            match gen_event(rng, &k, &g) {
                Some(e) => e,
                None => break,
            }
        } else if !(k.owed_open.is_empty() && k.owed_neg.is_empty() && k.owed_acc.is_empty()) {
            let g = GenCfg { noisy: false, settle: true, acc_fail, inst, shapes_left: false };
            match gen_event(rng, &k, &g) {
                Some(e) => e,
                None => break,
            }
        } else if redial.is_empty() && count < n + 200 {
            // quiescent: try to dial everybody again, then settle once more
            redial = (1..NPEERS).collect();
            redial.push(usize::MAX);
            continue;
        } else {
            match redial.first().copied() {
                Some(usize::MAX) | None => break,
                Some(p) => {
                    redial.remove(0);
                    if rng.chance(25) {
                        Ev::HDialPeer(p, vec![], vec![])
                    } else {
                        Ev::DialPeer(p, vec![], vec![])
                    }
                }
            }
        };
        if let Ev::TrOpened(c, _, _) = &ev {
            k.last_open_peer = k.owed_open.iter().find(|(x, _, _)| x == c).map(|(_, _, p)| *p).unwrap_or(1);
        }
        if matches!(ev, Ev::DialShape(_) | Ev::HDialAddr(_)) {
            shapes += 1;
        }
        count += 1;
        let obs = apply(rt, &mut w, &mut ev, &mut trace);
        // the case line carries the implementation's choice of transports (written by `apply`)
        ev.encode(&mut case);
        k.observe(&ev, &obs);
        if obs.stuck {
            break;
        }
    }
    case[3] = count;
    (case, trace)
}

/// Runs a stored case; returns the case as emitted (dial(peer) choices rewritten from the run) and the trace.
fn run_stored(rt: &Runtime, c: &[u64]) -> (Vec<u64>, Vec<u64>) {
    let bad = || (c.to_vec(), vec![0u64]);
    if c.len() < 4 || c[2] >= 4 {
        return bad();
    }
    let mut evs = Vec::new();
    let mut i = 4;
    for _ in 0..c[3] {
        match Ev::decode(c, &mut i) {
            Some(e) => evs.push(e),
            None => return bad(),
        }
    }
    if i != c.len() {
        return bad();
    }
    let shapes = evs.iter().filter(|e| matches!(e, Ev::DialShape(_) | Ev::HDialAddr(_))).count();
    if shapes > MAX_SHAPES {
        return bad();
    }
    let mut w = World::new(rt, c[0], c[1], c[2]);
    let mut case = vec![c[0], c[1], c[2], c[3]];
    let mut trace = vec![1u64];
    let mut stopped = false;
    for ev in evs.iter_mut() {
        if !stopped {
            let obs = apply(rt, &mut w, ev, &mut trace);
            stopped = obs.stuck;
        }
        ev.encode(&mut case);
    }
    (case, trace)
}

pub fn main(args: &Args) {
    let seed = args.u64("seed", 1);
    let ncases = args.u64("cases", 100);
    let thorough = args.str("tier") == Some("thorough");
    let focus_limits = args.str("focus") == Some("limits");
    let mut out = Outputs::open(args);
    let rt = tokio::runtime::Builder::new_current_thread().enable_all().build().unwrap();
    let mut stored: Vec<Vec<u64>> = Vec::new();
    if let Some(r) = args.str("replay") {
        stored = read_cases(Path::new(r));
    } else if let Some(d) = args.str("corpus") {
        stored = read_cases(Path::new(d));
    }
    let tcp_stream = tcp::Tcp::new(&rt); // TCP transport stream (cases tagged 9000): c05_tcp.rs
    let c06 = c06x::Streams::new(cfg!(feature = "quic") && args.u64("sock-quic", 0) == 1); // C06 extension streams (cases tagged 9600..9604): c06x.rs
    for c in &stored {
        let (c2, t) = catch_unwind(AssertUnwindSafe(|| {
            if c06x::is_tagged(c) {
                c06.run_stored(&rt, c)
            } else if tcp::Tcp::is_tcp_case(c) {
                (c.clone(), tcp_stream.run_stored(&rt, c))
            } else {
                run_stored(&rt, c)
            }
        }))
        .unwrap_or((c.clone(), vec![PANIC_MARK]));
        out.emit(&c2, &t);
    }
    if args.str("replay").is_some() {
        return;
    }
    let mut rng = Rng::new(seed ^ if focus_limits { 0x6006 } else { 0x5005 });
    if focus_limits {
        // C06: the exhaustive tables (ConnectionLimits script per configuration, PeerState shape x event)
        for (c, t) in c06.tables() {
            out.emit(&c, &t);
        }
    }
    let only = args.str("only-transport").and_then(|s| s.parse().ok()).and_then(tcp::Tk::of_tag); // e.g. 9002: QUIC cases only
    for i in 0..ncases {
        let mut r = rng.fork();
        let (c, t) = if focus_limits {
            catch_unwind(AssertUnwindSafe(|| c06.generated(&rt, &mut r, thorough, i)))
                .unwrap_or((vec![c06x::TAG_WRAPPED, 0], vec![PANIC_MARK]))
        } else {
            match tcp::stream_of(i, thorough, only) {
                Some(k) => tcp_stream.run_generated(&rt, k, &mut r, thorough),
                None => run_generated(&rt, &mut r, thorough, focus_limits),
            }
        };
        out.emit(&c, &t);
    }
}

#[path = "c05_tcp.rs"]
mod tcp;

#[path = "c06x.rs"]
mod c06x;
