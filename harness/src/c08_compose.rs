//! C08, composed (case kind 3, format: coq/Ts/Glue.v "composed"): real `ProtocolSet`s (one per
//! connection) feed ONE real `TransportService` through its real event channel, built with
//! capacity 1 so that one poll of the service consumes at most one event. The connection side
//! (reports run as runtime tasks and wait for room), the protocol side (poll, open_substream,
//! drop a substream) and the commands arriving at the connections are all real; nothing is
//! injected. The trace consists of a report-level case + trace (what the reports returned, what
//! the channel delivered at every poll) and a service-level case + trace (the delivered events as
//! service inputs, what the service emitted and its state after each of them); both must satisfy
//! their oracle and agree with the models.
use crate::util::*;
use futures::StreamExt;
use litep2p::{
    error::SubstreamError,
    protocol::{
        verif::{ProtocolCommand, ProtocolSet, TransportManagerEvent, VerifAliveProbe, VerifPermit, VerifService, VerifServiceEvent},
        Direction,
    },
    substream::Substream,
    transport::Endpoint,
    types::{protocol::ProtocolName, ConnectionId, SubstreamId},
    PeerId,
};
use multiaddr::Multiaddr;
use std::{
    collections::{BTreeMap, HashMap, VecDeque},
    sync::{
        atomic::{AtomicBool, AtomicUsize, Ordering},
        Arc,
    },
    task::{Context, Poll, Wake, Waker},
    time::Duration,
};
use tokio::{sync::mpsc, task::JoinHandle};

struct Flag(AtomicBool);
impl Wake for Flag {
    fn wake(self: Arc<Self>) {
        self.0.store(true, Ordering::SeqCst);
    }
    fn wake_by_ref(self: &Arc<Self>) {
        self.0.store(true, Ordering::SeqCst);
    }
}

#[derive(Clone, Copy, Debug)]
enum Item {
    Est(u64),
    Closed(u64),
    Opened(u64, Option<u64>),
    Failure(u64),
}

struct World {
    svc: VerifService,
    ka: bool,
    name: ProtocolName,
    table: HashMap<ProtocolName, litep2p::protocol::verif::ProtocolContext>,
    mgr_tx: mpsc::Sender<TransportManagerEvent>,
    mgr_rx: mpsc::Receiver<TransportManagerEvent>,
    peers: HashMap<u64, PeerId>,
    rev: HashMap<PeerId, u64>,
    peer_of: BTreeMap<u64, u64>,
    sets: BTreeMap<u64, ProtocolSet>,
    probes: BTreeMap<u64, VerifAliveProbe>,
    /// reports waiting for room, in the order they were started: (conn, event, task)
    waiting: Vec<(u64, Item, JoinHandle<(ProtocolSet, bool)>)>,
    /// events accepted by the channel and not yet consumed by the service, in order
    queued: VecDeque<Item>,
    /// connections whose "established" the service has consumed (they are in its dump)
    known: Vec<u64>,
    /// opens in flight: id -> (conn, permit held by the connection)
    pending: BTreeMap<u64, (u64, VerifPermit)>,
    subs: BTreeMap<u64, Vec<Substream>>,
    est_reported: Vec<u64>,
    closed_reported: Vec<u64>,
    flag: Arc<Flag>,
    waker: Waker,
}

impl World {
    fn new(ka: bool, n0: u64) -> World {
        let svc = VerifService::new_with_capacity(Duration::from_millis(3_600_000), ka, n0 as usize, 1);
        let (name, ctx) = svc.protocol_entry();
        let mut table = HashMap::new();
        table.insert(name.clone(), ctx);
        let (mgr_tx, mgr_rx) = mpsc::channel(4096);
        let flag = Arc::new(Flag(AtomicBool::new(false)));
        World {
            svc,
            ka,
            name,
            table,
            mgr_tx,
            mgr_rx,
            peers: HashMap::new(),
            rev: HashMap::new(),
            peer_of: BTreeMap::new(),
            sets: BTreeMap::new(),
            probes: BTreeMap::new(),
            waiting: Vec::new(),
            queued: VecDeque::new(),
            known: Vec::new(),
            pending: BTreeMap::new(),
            subs: BTreeMap::new(),
            est_reported: Vec::new(),
            closed_reported: Vec::new(),
            waker: Waker::from(flag.clone()),
            flag,
        }
    }

    fn peer(&mut self, p: u64) -> PeerId {
        if let Some(x) = self.peers.get(&p) {
            return *x;
        }
        let id = PeerId::random();
        self.peers.insert(p, id);
        self.rev.insert(id, p);
        id
    }

    fn pidx(&self, p: &PeerId) -> u64 {
        self.rev.get(p).copied().unwrap_or(999_999)
    }

    fn busy(&self, c: u64) -> bool {
        self.waiting.iter().any(|w| w.0 == c)
    }

    fn take_set(&mut self, c: u64) -> ProtocolSet {
        match self.sets.remove(&c) {
            Some(s) => s,
            None => {
                let set = ProtocolSet::new(
                    ConnectionId::from(c as usize),
                    self.mgr_tx.clone(),
                    Arc::new(AtomicUsize::new(0)),
                    self.table.clone(),
                );
                self.probes.insert(c, set.verif_alive_probe());
                set
            }
        }
    }

    fn svc_dump(&self, out: &mut Vec<u64>) {
        let mut cs: Vec<[u64; 6]> = self
            .svc
            .contexts()
            .into_iter()
            .map(|(p, prim, sec)| {
                let (h, s, sa) = match sec {
                    Some((c, a)) => (1, c as u64, a as u64),
                    None => (0, 0, 0),
                };
                [self.pidx(&p), prim.0 as u64, prim.1 as u64, h, s, sa]
            })
            .collect();
        cs.sort();
        out.push(cs.len() as u64);
        for c in cs {
            out.extend(c);
        }
        out.push(self.svc.next_substream_id() as u64);
        let mut tk: Vec<(u64, u64)> = self.svc.tracked().into_iter().map(|(p, c)| (self.pidx(&p), c as u64)).collect();
        tk.sort();
        out.push(tk.len() as u64);
        for (p, c) in tk {
            out.extend([p, c]);
        }
        out.push(self.svc.armed_timers() as u64);
        let mut known = self.known.clone();
        known.sort();
        out.push(known.len() as u64);
        for c in known {
            out.extend([c, self.probes.get(&c).map(|p| p.alive()).unwrap_or(false) as u64]);
        }
    }

    /// Poll the service until it is pending and nobody asked for another poll (capacity 1: at
    /// most one event is consumed, blocked senders only run when the runtime is yielded to).
    fn poll_service(&mut self, conn_of_sub: Option<u64>, outs: &mut Vec<[u64; 3]>) {
        for _ in 0..1000 {
            self.flag.0.store(false, Ordering::SeqCst);
            let mut cx = Context::from_waker(&self.waker);
            match self.svc.poll_event(&mut cx) {
                Poll::Ready(None) => return,
                Poll::Ready(Some(ev)) => match ev {
                    VerifServiceEvent::ConnectionEstablished(p) => outs.push([1, self.pidx(&p), 0]),
                    VerifServiceEvent::ConnectionClosed(p) => outs.push([2, self.pidx(&p), 0]),
                    VerifServiceEvent::SubstreamOpened(p, dir, sub) => {
                        outs.push([3, self.pidx(&p), dir.map(|d| d as u64 + 1).unwrap_or(0)]);
                        match conn_of_sub {
                            Some(c) if self.ka => self.subs.entry(c).or_default().push(sub),
                            _ => drop(sub),
                        }
                    }
                    VerifServiceEvent::SubstreamOpenFailure(id) => outs.push([4, id as u64, 0]),
                    VerifServiceEvent::DialFailure(p) => outs.push([5, self.pidx(&p), 0]),
                },
                Poll::Pending =>
                    if !self.flag.0.load(Ordering::SeqCst) {
                        return;
                    },
            }
        }
    }
}

async fn settle() {
    for _ in 0..64 {
        tokio::task::yield_now().await;
    }
}

fn triple(i: &Item) -> [u64; 3] {
    match i {
        Item::Est(c) => [1, *c, 0],
        Item::Closed(c) => [2, *c, 0],
        Item::Opened(c, d) => [3, *c, d.map(|x| x + 1).unwrap_or(0)],
        Item::Failure(i) => [4, 0, *i],
    }
}

pub struct Gen {
    pub rng: Rng,
    pub nops: usize,
    pub npeers: u64,
    next_conn: u64,
}

impl Gen {
    pub fn new(rng: Rng, thorough: bool) -> Gen {
        let mut rng = rng;
        let nops = if thorough { rng.range(20, 140) } else { rng.range(12, 70) } as usize;
        let npeers = rng.range(1, 2);
        Gen { rng, nops, npeers, next_conn: 1 }
    }

    fn next(&mut self, w: &World) -> [u64; 3] {
        let r = &mut self.rng;
        // connections whose established was reported and closed was not
        let open: Vec<u64> = w.est_reported.iter().copied().filter(|c| !w.closed_reported.contains(c)).collect();
        let free_open: Vec<u64> = open.iter().copied().filter(|c| !w.busy(*c)).collect();
        for _ in 0..30 {
            let op = match r.below(100) {
                0..=13 => {
                    let p = r.below(self.npeers);
                    let n = open.iter().filter(|c| w.peer_of.get(c) == Some(&p)).count();
                    if n < 2 {
                        let c = self.next_conn;
                        self.next_conn += 1;
                        Some([1, p, c])
                    } else {
                        None
                    }
                }
                14..=21 => free_open.get(r.below(free_open.len().max(1) as u64) as usize).map(|c| [2, *c, 0]),
                22..=31 => free_open.get(r.below(free_open.len().max(1) as u64) as usize).map(|c| [3, *c, 0]),
                32..=45 => {
                    let cand: Vec<(u64, u64)> =
                        w.pending.iter().filter(|(_, v)| free_open.contains(&v.0)).map(|(i, v)| (*i, v.0)).collect();
                    cand.get(r.below(cand.len().max(1) as u64) as usize).map(|(i, c)| [4, *c, *i])
                }
                46..=53 => {
                    let cand: Vec<(u64, u64)> =
                        w.pending.iter().filter(|(_, v)| free_open.contains(&v.0)).map(|(i, v)| (*i, v.0)).collect();
                    cand.get(r.below(cand.len().max(1) as u64) as usize).map(|(i, c)| [5, *c, *i])
                }
                54..=79 => Some([6, 0, 0]),
                80..=95 => {
                    // only when the command can be read off the primary's (idle) ProtocolSet
                    let p = r.below(self.npeers);
                    let peer = w.peers.get(&p);
                    let prim = peer.and_then(|pe| {
                        w.svc.contexts().into_iter().find(|(q, _, _)| q == pe).map(|(_, prim, _)| prim.0 as u64)
                    });
                    match prim {
                        Some(c) if w.busy(c) => None,
                        _ => Some([7, p, 0]),
                    }
                }
                _ => w.subs.iter().find(|(_, v)| !v.is_empty()).map(|(c, _)| [8, *c, 0]),
            };
            if let Some(op) = op {
                return op;
            }
        }
        [6, 0, 0]
    }
}

pub enum Src<'a> {
    Fixed(&'a [[u64; 3]]),
    Gen(Gen),
}

pub fn parse(c: &[u64]) -> Option<(bool, u64, Vec<[u64; 3]>)> {
    if c.len() < 4 || c[0] != 3 {
        return None;
    }
    let (ka, n0, nops) = (c[1] != 0, c[2], c[3] as usize);
    if c.len() != 4 + 3 * nops || n0 >= 1_000_000 {
        return None;
    }
    let mut ops = Vec::new();
    let mut est = std::collections::HashSet::new();
    for i in 0..nops {
        let o = [c[4 + 3 * i], c[5 + 3 * i], c[6 + 3 * i]];
        let small = |x: u64| x < 1_000_000;
        let ok = match o[0] {
            1 => small(o[1]) && small(o[2]) && est.insert(o[2]),
            2 | 3 | 8 => small(o[1]),
            4 | 5 => small(o[1]) && small(o[2]),
            6 => true,
            7 => small(o[1]),
            _ => false,
        };
        if !ok {
            return None;
        }
        ops.push(o);
    }
    Some((ka, n0, ops))
}

/// Runs one composed case; returns (case, trace).
pub fn run(rt: &tokio::runtime::Runtime, ka: bool, n0: u64, mut src: Src<'_>) -> (Vec<u64>, Vec<u64>) {
    rt.block_on(tokio::task::unconstrained(async move {
        let mut w = World::new(ka, n0);
        let n = match &src {
            Src::Fixed(ops) => ops.len(),
            Src::Gen(g) => g.nops,
        };
        let mut case_ops: Vec<u64> = Vec::new();
        let mut rops: Vec<u64> = Vec::new();
        let mut nrops = 0u64;
        let mut rtrace: Vec<u64> = vec![2];
        let mut sops: Vec<u64> = Vec::new();
        let mut nsops = 0u64;
        let mut strace: Vec<u64> = vec![1];
        for i in 0..n {
            let o: [u64; 3] = match &mut src {
                Src::Fixed(ops) => ops[i],
                Src::Gen(g) => g.next(&w),
            };
            case_ops.extend(o);
            let before: Vec<u64> = w.waiting.iter().map(|x| x.0).collect();
            let mut rcode = 0u64;
            let mut got: Vec<[u64; 3]> = Vec::new();
            let mut started: Option<u64> = None;
            match o[0] {
                1..=5 => {
                    // a report of the connection task
                    let c = if o[0] == 1 { o[2] } else { o[1] };
                    let rop: [u64; 4] = match o[0] {
                        1 => [3, c, 0, 0],
                        2 => [4, c, 0, 0],
                        3 => [1, c, 0, 0],
                        4 => [1, c, 0, o[2] + 1],
                        _ => [2, c, 0, o[2]],
                    };
                    rops.extend(rop);
                    nrops += 1;
                    if w.busy(c) {
                        rcode = 2;
                    } else {
                        if o[0] == 1 {
                            w.peer_of.insert(c, o[1]);
                        }
                        let p = w.peer_of.get(&c).copied().unwrap_or(0);
                        let peer = w.peer(p);
                        let mut set = w.take_set(c);
                        let name = w.name.clone();
                        let item = match o[0] {
                            1 => Item::Est(c),
                            2 => Item::Closed(c),
                            3 => Item::Opened(c, None),
                            4 => Item::Opened(c, Some(o[2])),
                            _ => Item::Failure(o[2]),
                        };
                        // what the connection task hands over
                        let payload: Option<(Substream, VerifPermit)> = match o[0] {
                            3 => set.try_get_permit().map(|permit| {
                                let lifetime = if w.ka { Some(permit.clone()) } else { None };
                                (w.svc.make_substream(peer, 0, lifetime), permit)
                            }),
                            4 => w.pending.remove(&o[2]).map(|(_, permit)| {
                                let lifetime = if w.ka { Some(permit.clone()) } else { None };
                                (w.svc.make_substream(peer, o[2] as usize, lifetime), permit)
                            }),
                            _ => None,
                        };
                        match o[0] {
                            1 => w.est_reported.push(c),
                            2 => {
                                w.closed_reported.push(c);
                                w.pending.retain(|_, v| v.0 != c); // the connection is gone
                            }
                            5 => {
                                w.pending.remove(&o[2]);
                            }
                            _ => {}
                        }
                        let op = o;
                        let handle = tokio::spawn(async move {
                            let failed = match op[0] {
                                1 => set
                                    .verif_report_connection_established(
                                        peer,
                                        Endpoint::Listener { address: Multiaddr::empty(), connection_id: ConnectionId::from(c as usize) },
                                    )
                                    .await
                                    .is_err(),
                                2 => set.verif_report_connection_closed(peer, ConnectionId::from(c as usize)).await.is_err(),
                                3 | 4 => match payload {
                                    Some((sub, permit)) => {
                                        let dir = if op[0] == 3 {
                                            Direction::Inbound
                                        } else {
                                            Direction::Outbound(SubstreamId::from(op[2] as usize))
                                        };
                                        set.report_substream_open(peer, name, dir, sub, permit).await.is_err()
                                    }
                                    None => true,
                                },
                                _ => set
                                    .report_substream_open_failure(name, SubstreamId::from(op[2] as usize), SubstreamError::ConnectionClosed)
                                    .await
                                    .is_err(),
                            };
                            (set, failed)
                        });
                        w.waiting.push((c, item, handle));
                        started = Some(c);
                    }
                }
                6 => {
                    // the protocol polls its service once
                    rops.extend([5, 0, 1, 0]);
                    nrops += 1;
                    let before_q = w.svc.queued_events();
                    let conn_of_sub = match w.queued.front() {
                        Some(Item::Opened(c, _)) => Some(*c),
                        _ => None,
                    };
                    let mut outs: Vec<[u64; 3]> = Vec::new();
                    w.poll_service(conn_of_sub, &mut outs);
                    let consumed = before_q - w.svc.queued_events();
                    if consumed >= 1 {
                        // capacity 1: exactly the head of the queue
                        let item = w.queued.pop_front();
                        match item {
                            Some(it) => {
                                got.push(triple(&it));
                                match it {
                                    Item::Est(c) => {
                                        w.known.push(c);
                                        sops.extend([0, 1, w.peer_of[&c], c]);
                                    }
                                    Item::Closed(c) => {
                                        w.pending.retain(|_, v| v.0 != c);
                                        sops.extend([0, 2, w.peer_of[&c], c]);
                                    }
                                    Item::Opened(c, None) => sops.extend([0, 3, w.peer_of[&c], c, 1]),
                                    Item::Opened(_, Some(i)) => sops.extend([0, 4, i, 1]),
                                    Item::Failure(i) => sops.extend([0, 5, i]),
                                }
                            }
                            None => {
                                // the service consumed something the harness did not see go in
                                got.push([9, 0, 0]);
                                sops.extend([0, 0]);
                            }
                        }
                    } else {
                        sops.extend([0, 0]);
                    }
                    nsops += 1;
                    strace.push(outs.len() as u64);
                    for x in &outs {
                        strace.extend(x);
                    }
                    w.svc_dump(&mut strace);
                }
                7 => {
                    let peer = w.peer(o[1]);
                    sops.extend([0, 7, o[1]]);
                    nsops += 1;
                    let mut outs: Vec<[u64; 3]> = Vec::new();
                    match w.svc.open_substream(peer) {
                        Ok(id) => outs.push([6, 0, id as u64]),
                        Err(1) => outs.push([6, 1, 0]),
                        Err(2) => outs.push([6, 2, 0]),
                        Err(3) => outs.push([6, 3, 0]),
                        Err(_) => outs.push([6, 4, 0]),
                    }
                    // (the service is not polled here: that would consume a queued event)
                    // the command, read by the connection from its real ProtocolSet
                    let cs: Vec<u64> = w.sets.keys().copied().collect();
                    for c in cs {
                        let set = w.sets.get_mut(&c).unwrap();
                        loop {
                            match futures::poll!(set.next()) {
                                Poll::Ready(Some(ProtocolCommand::OpenSubstream { substream_id, permit, .. })) => {
                                    let id = substream_id.verif_as_usize() as u64;
                                    outs.push([7, c, id]);
                                    w.pending.insert(id, (c, permit));
                                }
                                Poll::Ready(Some(_)) => {}
                                _ => break,
                            }
                        }
                    }
                    strace.push(outs.len() as u64);
                    for x in &outs {
                        strace.extend(x);
                    }
                    w.svc_dump(&mut strace);
                }
                8 => {
                    sops.extend([0, 8, o[1]]);
                    nsops += 1;
                    let mut outs: Vec<[u64; 3]> = Vec::new();
                    match w.subs.get_mut(&o[1]) {
                        Some(v) if !v.is_empty() => drop(v.pop()),
                        _ => outs.push([9, 0, 0]),
                    }
                    strace.push(outs.len() as u64);
                    for x in &outs {
                        strace.extend(x);
                    }
                    w.svc_dump(&mut strace);
                }
                _ => {}
            }
            settle().await;
            while w.mgr_rx.try_recv().is_ok() {}
            // reports that have finished, in the order they were started = the order in which
            // their events entered the channel
            let mut done: Vec<(u64, u64)> = Vec::new();
            let mut still = Vec::new();
            for (c, item, handle) in std::mem::take(&mut w.waiting) {
                if handle.is_finished() {
                    let (set, failed) = handle.await.expect("report task");
                    w.sets.insert(c, set);
                    if !failed {
                        w.queued.push_back(item);
                    }
                    if started == Some(c) {
                        rcode = if failed { 3 } else { 0 };
                    } else if before.contains(&c) {
                        done.push((c, failed as u64));
                    }
                } else {
                    if started == Some(c) {
                        rcode = 1;
                    }
                    still.push((c, item, handle));
                }
            }
            w.waiting = still;
            if (1..=6).contains(&o[0]) {
                rtrace.push(rcode);
                rtrace.push(got.len() as u64);
                for g in &got {
                    rtrace.extend(g);
                }
                done.sort();
                rtrace.push(done.len() as u64);
                for d in &done {
                    rtrace.extend([d.0, d.1]);
                }
                rtrace.extend([1, w.svc.queued_events() as u64, w.waiting.len() as u64]);
            }
        }
        let mut case = vec![3, ka as u64, n0, n as u64];
        case.extend(case_ops);
        let mut rcase = vec![2, 1, 1, nrops];
        rcase.extend(rops);
        let mut scase = vec![ka as u64, 3_600_000, n0, nsops];
        scase.extend(sops);
        let mut trace = vec![3u64];
        for seg in [&rcase, &rtrace, &scase, &strace] {
            trace.push(seg.len() as u64);
            trace.extend(seg.iter());
        }
        (case, trace)
    }))
}
